#!/venv/bin/python
"""E2 translator: re-emits small pure PyRates functions as Gallina from the CURRENT source text (DESIGN.md 2.2).

Called with no arguments by core.build_coq() on every check run and by setup.sh.  Reads the file text under $VERIF_REPO
(default /repo) with `ast` (pyrates is never imported), writes coq/gen/Gen_<name>.v only when its text changes, and is
FAIL-CLOSED: on any construct outside the subset below (or a missing file/function) it writes a Gen_<name>.v that does
not compile (`Definition translation_failed : False := I.`) and prints the reason, so the dependent *Equiv.v breaks and
the property check reports a broken proof obligation.  Targets are listed in TARGETS (parameter types come from there:
Python annotations such as `tuple` are too coarse).

Supported subset
  types       int -> Z, str -> string (s.find(t), s[a:b] with Python's wrap-and-clamp, s[i] with IndexError = None, `t in s`, len, +,
              f-strings: PyLib.py_find / py_slice / py_index / py_contains), bool, tuple of fixed size (t[0], t[1] with constant index), list (elements of any
              type, `[]`, `.append(x)`, `+`, `len`), dict[str,int] -> PyLib.dict (`k in d`, `d[k]`, `d[k] = v`, `d[k] += v`),
              list[str] from s.split("<one char>") with l[a:b], l[i] (IndexError = None), sep.join(l); read-only dict[str,str] -> PyLib.sdict,
              `self.<attr>` of a declared type is a variable `self_<attr>`; attributes listed under `state` are returned
              next to the result (the function mutates them)
  expressions int/str/bool constants, names, + - * on int, `%` on int (ZeroDivisionError = None), + on str/list, unary - / not,
              comparisons == != < <= > >= (chained), `in` / `not in` on dict, list of str and str, short-circuit and/or,
              `a if c else b`, tuples, f-strings of str/int pieces without format spec, len()
  specialise  `type(x) is tuple|str|list|...` is decided by the declared type of x; a statically false `if` branch is not translated;
              `for a, b in zip(xs, list(np.arange(0, n)))`, `range(a, b)`; `break` in a for body (flag carried through the fold);
              `if s:` on a str; f-string of a list[int]; cfg `dict_effect`: `d[k] = {<fixed entries>, 'value': e}` recorded as (k, e) appended to d
  cfg-driven  `raise` = None; `self.<m>(...)` as a statement where <m> is another target (`calls`): bound for its exception; `return self.<m>(...)`
              with `return_call_names`: the name "<m>"; `opaque`: a test whose source text is listed becomes a bool argument; `ignore`: parameters
              the translated part does not read; `self_consts`: class attribute that must be a literal tuple/list of str; `returns_none`
  statements  assignment / augmented assignment to a name, `self.<attr>` or `d[k]`; `x.append(e)`; if/elif/else (the rest of the
              block is duplicated into both branches, so early `return` is fine); `return e`;
              `for x in xs` / `for i, x in enumerate(xs)` -> fold_left over a tuple of the loop-carried variables
              (body must be total); `while c:` -> Fixpoint on explicit fuel (TARGETS[..]['fuel']), exhaustion = None
  partiality  a function that contains `d[k]` loads or `while` returns `option`: KeyError / fuel exhaustion = None.
              Partial operations are hoisted in evaluation order; an operand that Python evaluates conditionally (2nd.. operand of
              and/or, branches of an if-expression) is translated in its own scope and the whole expression becomes one
              option-valued computation, so a skipped operand cannot raise in the model either.
  rejected    everything else, in particular: reading a variable that is not definitely assigned (a loop-local or
              branch-local variable read after the loop / in another iteration), `return` inside a loop, aliasing of
              lists/dicts (`a = b`), list indexing/slicing, calls other than len/append/enumerate/str.find, try/with/lambda/
              comprehensions, non-constant default arguments, a loop body that mutates the sequence it iterates over.
  not done    BaseBackend._solve_euler/_solve_heun (integer cadence): the bookkeeping is interleaved with numpy statements
              (state_rec[idx, :] = y, y += dt*rhs, func(...)); translating it would need a hand-written table saying which
              statements are abstracted to events, i.e. the faithfulness would rest on that table and not on the translator.
  note        a mutation of an argument is visible to the model's caller only through `state` or the returned value.
"""
import ast, hashlib, os, re, sys

VERIF = os.path.dirname(os.path.dirname(os.path.abspath(__file__)))
REPO = os.environ.get("VERIF_REPO", "/repo")
GEN = os.path.join(VERIF, "coq", "gen")
Z, STR, BOOL, DICT, SDICT, ADICT = ("Z",), ("string",), ("bool",), ("dict",), ("sdict",), ("(list (string * list Z))",)
def LIST(t): return ["list", t]
def TUP(*ts): return ("tup", tuple(ts))

TARGETS = [
    dict(name="auto_param_indices", file="pyrates/backend/fortran/fortran_backend.py", cls="FortranBackend",
         func="_auto_param_indices", types={"func_args": LIST(("var", "A")), "blocked": TUP(Z, Z)},
         consts=["_AUTO_BLOCKED_PAR_RANGE"]),
    dict(name="generate_unique_label", file="pyrates/backend/computegraph.py", cls="ComputeGraph",
         func="_generate_unique_label", types={"self__node_names": DICT, "label": STR}, state=["self__node_names"],
         fuel="(S (List.length self__node_names))"),
    dict(name="get_unique_label", file="pyrates/backend/parser.py", cls=None, func="get_unique_label",
         types={"label": STR, "labels": DICT}),
    dict(name="relabel_var", file="pyrates/frontend/template/circuit.py", cls="CircuitTemplate", func="_relabel_var",
         types={"var": STR, "var_map": SDICT}),
    # specialised to the LIST branch: idx : list[int], so `type(idx) is tuple` / `type(idx) is str` fold to False and their bodies
    # are not translated (if the guards change, the bodies are translated and the translation fails closed); var_length : int
    # (None behaves like any negative number: it never equals a length); idx_str : str with "" for None (only its truth value is
    # used); `arg_dict[idx_str] = {...}` is recorded as the pair (idx_str, idx) appended to arg_dict, which is returned as state
    dict(name="get_indexed_var_str", file="pyrates/ir/circuit.py", cls=None, func="_get_indexed_var_str",
         types={"var": STR, "idx": LIST(Z), "var_length": Z, "reduce": BOOL, "idx_str": STR, "arg_dict": ADICT}, state=["arg_dict"],
         dict_effect=dict(var="arg_dict", value="value", rest={"vtype": "'constant'", "dtype": "'int'", "shape": "(len(idx),)"})),
    # string-level solver contract (C20): raise -> None; `return self._m(...)` -> the name "_m" of the method that runs; the DDE test of
    # `_solve` is an opaque bool argument; SUPPORTED_SOLVERS is read from the class attribute (must be a literal tuple/list of str)
    dict(name="validate_solver", file="pyrates/backend/base/base_backend.py", cls="BaseBackend", func="_validate_solver",
         types={"solver": STR}, self_consts=["SUPPORTED_SOLVERS"], returns_none=True),
    dict(name="solve_dispatch", file="pyrates/backend/base/base_backend.py", cls="BaseBackend", func="_solve",
         types={"solver": STR, "has_dde": BOOL}, ignore=["func", "args", "T", "dt", "dts", "y0", "t0", "times"], kwargs_ok=True,
         opaque={"len(args) > 0 and isinstance(args[0], DDEHistory)": "has_dde"}, calls={"_validate_solver": "validate_solver"},
         return_call_names=True),
    dict(name="replace", file="pyrates/backend/parser.py", cls=None, func="replace",
         types={"eq": STR, "term": STR, "replacement": STR, "rhs_only": BOOL, "lhs_only": BOOL}, fuel="(S (S (String.length eq)))"),
]

class Unsupported(Exception): pass
class NeedPartial(Exception): pass

def ty(t):
    if t is None: return "_"
    if t[0] == "list": return f"(list {ty(t[1])})"
    if t[0] == "tup": return "(" + " * ".join(ty(x) for x in t[1]) + ")"
    return t[1] if t[0] == "var" else t[0]
def tyvars(t):
    if t is None: return set()
    if t[0] == "var": return {t[1]}
    if t[0] == "list": return tyvars(t[1])
    return set().union(*[tyvars(x) for x in t[1]]) if t[0] == "tup" else set()
def same(a, b):
    if a is None or b is None: return True
    if a[0] != b[0]: return False
    if a[0] == "list":
        if a[1] is None: a[1] = b[1]
        if b[1] is None: b[1] = a[1]
        return same(a[1], b[1])
    return all(same(x, y) for x, y in zip(a[1], b[1])) and len(a[1]) == len(b[1]) if a[0] == "tup" else a == b
def nm(e):
    if isinstance(e, ast.Name): return e.id
    if isinstance(e, ast.Attribute) and isinstance(e.value, ast.Name) and e.value.id == "self": return "self_" + e.attr
    return None
def base(e):
    return nm(e.value) if isinstance(e, ast.Subscript) else nm(e)
def assigned(stmts):
    out = []
    def add(v):
        if v and v not in out: out.append(v)
    for n in [n for s in stmts for n in ast.walk(s)]:
        if isinstance(n, ast.Assign): [add(base(t)) for t in n.targets]
        elif isinstance(n, ast.AugAssign): add(base(n.target))
        elif isinstance(n, ast.For): [add(x.id) for x in ast.walk(n.target) if isinstance(x, ast.Name)]
        elif isinstance(n, ast.Call) and isinstance(n.func, ast.Attribute) and n.func.attr == "append": add(nm(n.func.value))
    return out
def used(nodes):
    return {nm(n) for s in nodes for n in ast.walk(s) if nm(n)}

class Tr:
    def __init__(self, cfg, partial):
        self.cfg, self.partial, self.env, self.aux, self.k, self.binds = cfg, partial, {}, [], 0, None
        self.total_ctx = False
    def fresh(self, p):
        self.k += 1; return f"{p}{self.k}"
    def need_partial(self, what):
        if self.total_ctx: raise Unsupported(f"partial operation ({what}) inside a for body")
        if not self.partial: raise NeedPartial()
    # ---------------------------------------------------------------- expressions: returns (term, type)
    # Partial operations (d[k], s[i]) are hoisted, in evaluation order, into the bind list of the current scope.  An operand that
    # Python evaluates only conditionally (2nd.. operand of and/or, branches of `a if c else b`) is translated in a scope of its
    # own; if it needs binds the whole and/or/if-expression becomes ONE option-valued computation that is hoisted itself.
    def scoped(self, e):
        saved, self.binds = self.binds, []
        a, ta = self.ex(e)
        b, self.binds = self.binds, saved
        return a, ta, b
    @staticmethod
    def opt(term, binds):
        body = f"Some {term}"
        for t, p in reversed(binds): body = f"py_bind {p} (fun {t} => {body})"
        return f"({body})"
    def hoisted(self, what, term, t):
        self.need_partial(what)
        v = self.fresh("t"); self.binds.append((v, term))
        return v, t
    def ex(self, e):
        if ast.unparse(e) in self.cfg.get("opaque", {}): return self.cfg["opaque"][ast.unparse(e)], BOOL    # a test the model does not interpret
        if isinstance(e, ast.Constant):
            v = e.value
            if isinstance(v, bool): return ("true" if v else "false"), BOOL
            if isinstance(v, int): return f"({v})%Z", Z
            if isinstance(v, str) and all(32 <= ord(c) < 127 and c != '"' for c in v): return f'"{v}"%string', STR
        if nm(e):
            if nm(e) not in self.env: raise Unsupported(f"read of `{nm(e)}`, which is not definitely assigned here")
            return nm(e), self.env[nm(e)]
        if isinstance(e, ast.BinOp):
            (a, ta), (b, tb) = self.ex(e.left), self.ex(e.right)
            op = {ast.Add: "+", ast.Sub: "-", ast.Mult: "*"}.get(type(e.op))
            if op and ta == Z and tb == Z: return f"({a} {op} {b})%Z", Z
            if op == "+" and ta == STR and tb == STR: return f"({a} ++ {b})%string", STR
            if op == "+" and ta[0] == "list" and same(ta, tb): return f"({a} ++ {b})%list", ta
            if isinstance(e.op, ast.Mod) and ta == Z and tb == Z:                       # ZeroDivisionError -> None
                return self.hoisted("a % b", f"(py_mod {a} {b})", Z)
        if isinstance(e, ast.UnaryOp):
            a, ta = self.ex(e.operand)
            if isinstance(e.op, ast.USub) and ta == Z: return f"(- {a})%Z", Z
            if isinstance(e.op, ast.Not) and ta == BOOL: return f"(negb {a})", BOOL
        if isinstance(e, ast.Compare) and len(e.ops) == 1 and isinstance(e.ops[0], ast.Is) and isinstance(e.left, ast.Call) \
                and isinstance(e.left.func, ast.Name) and e.left.func.id == "type" and len(e.left.args) == 1 and nm(e.left.args[0]) in self.env \
                and isinstance(e.comparators[0], ast.Name) and e.comparators[0].id in ("tuple", "str", "list", "int", "bool", "dict"):
            # `type(x) is T` is decided by the declared type of x (the target is specialised to that type)
            t = self.env[nm(e.left.args[0])]
            py = {"Z": "int", "string": "str", "bool": "bool", "list": "list", "tup": "tuple", "dict": "dict", "sdict": "dict"}.get(t[0], "?")
            return ("true" if py == e.comparators[0].id else "false"), BOOL
        if isinstance(e, ast.BoolOp):
            a0, t0 = self.ex(e.values[0])
            if a0 == ("false" if isinstance(e.op, ast.And) else "true"): return a0, BOOL       # statically short-circuited
            rest = [self.scoped(v) for v in e.values[1:]]
            if t0 != BOOL or any(t != BOOL for _, t, _ in rest): raise Unsupported("and/or on non-bool operands")
            conj = isinstance(e.op, ast.And)
            if not any(b for _, _, b in rest):
                return "(" + (" && " if conj else " || ").join([a0] + [a for a, _, _ in rest]) + ")", BOOL
            sc = lambda c, k: f"(if {c} then {k} else Some false)" if conj else f"(if {c} then Some true else {k})"
            term = self.opt(rest[-1][0], rest[-1][2])
            for a, _, b in reversed(rest[:-1]):
                v = self.fresh("t"); term = f"(py_bind {self.opt(a, b)} (fun {v} => {sc(v, term)}))"
            return self.hoisted("and/or with a partial operand", sc(a0, term), BOOL)
        if isinstance(e, ast.IfExp):
            c, tc = self.ex(e.test)
            (a, ta, ba), (b, tb, bb) = self.scoped(e.body), self.scoped(e.orelse)
            if tc != BOOL or not same(ta, tb): raise Unsupported("if-expression: non-bool test or branches of different types")
            if not ba and not bb: return f"(if {c} then {a} else {b})", ta
            return self.hoisted("if-expression with a partial branch", f"(if {c} then {self.opt(a, ba)} else {self.opt(b, bb)})", ta)
        if isinstance(e, ast.Compare):
            terms = [self.ex(e.left) + ([],), self.ex(e.comparators[0]) + ([],)] + [self.scoped(x) for x in e.comparators[1:]]
            if any(t[2] for t in terms): raise Unsupported("partial operation in the tail of a chained comparison")
            return "(" + " && ".join(self.cmp(op, terms[i][:2], terms[i + 1][:2]) for i, op in enumerate(e.ops)) + ")", BOOL
        if isinstance(e, ast.Tuple):
            parts = [self.ex(x) for x in e.elts]
            return "(" + ", ".join(p for p, _ in parts) + ")", TUP(*[t for _, t in parts])
        if isinstance(e, ast.List) and not e.elts: return "[]", LIST(None)
        if isinstance(e, ast.JoinedStr):
            out = []
            for v in e.values:
                if isinstance(v, ast.FormattedValue) and v.conversion == -1 and v.format_spec is None:
                    a, ta = self.ex(v.value)
                    if ta not in (STR, Z) and ta != LIST(Z): raise Unsupported("f-string piece of type " + ty(ta))
                    out.append(a if ta == STR else f"(py_str_Z {a})" if ta == Z else f"(py_str_list_Z {a})")
                else: out.append(self.ex(v)[0])
            return "(" + " ++ ".join(out or ['""']) + ")%string", STR
        if isinstance(e, ast.Subscript):
            a, ta = self.ex(e.value)
            if ta[0] == "tup" and isinstance(e.slice, ast.Constant) and type(e.slice.value) is int and 0 <= e.slice.value < len(ta[1]):
                i, n = e.slice.value, len(ta[1])
                t = a
                for _ in range(n - 1 - i): t = f"(fst {t})"
                return (f"(snd {t})" if i > 0 else t), ta[1][i]
            if ta == STR and isinstance(e.slice, ast.Slice) and e.slice.step is None:        # s[a:b] is total (Python clamps)
                lo, hi = [("None", Z) if x is None else self.ex(x) for x in (e.slice.lower, e.slice.upper)]
                if lo[1] != Z or hi[1] != Z: raise Unsupported("slice bound that is not an int")
                some = lambda x: x if x == "None" else f"(Some {x})"
                return f"(py_slice {a} {some(lo[0])} {some(hi[0])})", STR
            if ta == STR and not isinstance(e.slice, ast.Slice):                               # s[i]: IndexError -> None
                k, tk = self.ex(e.slice)
                if tk != Z: raise Unsupported("string index of type " + ty(tk))
                return self.hoisted("s[i]", f"(py_index {a} {k})", STR)
            if ta[0] == "list" and isinstance(e.slice, ast.Slice) and e.slice.step is None:     # l[a:b] is total
                lo, hi = [("None", Z) if x is None else self.ex(x) for x in (e.slice.lower, e.slice.upper)]
                if lo[1] != Z or hi[1] != Z: raise Unsupported("slice bound that is not an int")
                some = lambda x: x if x == "None" else f"(Some {x})"
                return f"(py_lslice {a} {some(lo[0])} {some(hi[0])})", ta
            if ta[0] == "list" and ta[1] is not None and not isinstance(e.slice, ast.Slice):      # l[i]: IndexError -> None
                k, tk = self.ex(e.slice)
                if tk != Z: raise Unsupported("list index of type " + ty(tk))
                return self.hoisted("l[i]", f"(py_lindex {a} {k})", ta[1])
            if ta in (DICT, SDICT):
                k, tk = self.ex(e.slice)
                if tk != STR: raise Unsupported("dict key of type " + ty(tk))
                return self.hoisted("d[k]", f"({'py_dget' if ta == DICT else 'py_sget'} {a} {k})", Z if ta == DICT else STR)
        if isinstance(e, ast.Call) and isinstance(e.func, ast.Name) and e.func.id == "len" and len(e.args) == 1 and not e.keywords:
            a, ta = self.ex(e.args[0])
            if ta[0] == "list": return f"(Z.of_nat (List.length {a}))", Z
            if ta == STR: return f"(Z.of_nat (String.length {a}))", Z
        if isinstance(e, ast.Call) and isinstance(e.func, ast.Name) and e.func.id == "list" and len(e.args) == 1 and not e.keywords:
            a, ta = self.ex(e.args[0])
            if ta[0] == "list": return a, ta                                  # list(<fresh list>) is a copy of an immutable model value
        if isinstance(e, ast.Call) and not e.keywords and len(e.args) == 2 and (
                (isinstance(e.func, ast.Name) and e.func.id == "range") or
                (isinstance(e.func, ast.Attribute) and e.func.attr == "arange" and nm(e.func.value) == "np")):
            (a, ta), (b, tb) = self.ex(e.args[0]), self.ex(e.args[1])
            if ta == Z and tb == Z: return f"(py_range {a} {b})", LIST(Z)
        if isinstance(e, ast.Call) and isinstance(e.func, ast.Name) and e.func.id == "zip" and len(e.args) == 2 and not e.keywords:
            (a, ta), (b, tb) = self.ex(e.args[0]), self.ex(e.args[1])
            if ta[0] == "list" and tb[0] == "list": return f"(combine {a} {b})", LIST(TUP(ta[1], tb[1]))
        if isinstance(e, ast.Call) and isinstance(e.func, ast.Attribute) and e.func.attr == "find" and len(e.args) == 1 and not e.keywords:
            (a, ta), (b, tb) = self.ex(e.func.value), self.ex(e.args[0])
            if ta == STR and tb == STR: return f"(py_find {a} {b})", Z
        if isinstance(e, ast.Call) and isinstance(e.func, ast.Attribute) and e.func.attr == "split" and len(e.args) == 1 and not e.keywords \
                and isinstance(e.args[0], ast.Constant) and isinstance(e.args[0].value, str) and len(e.args[0].value) == 1 and e.args[0].value not in '"\\':
            a, ta = self.ex(e.func.value)
            if ta == STR: return f'(py_split_char {a} "{e.args[0].value}"%char)', LIST(STR)
        if isinstance(e, ast.Call) and isinstance(e.func, ast.Attribute) and e.func.attr == "join" and len(e.args) == 1 and not e.keywords:
            (a, ta), (b, tb) = self.ex(e.func.value), self.ex(e.args[0])
            if ta == STR and tb == LIST(STR): return f"(py_join {a} {b})", STR
        raise Unsupported("expression " + ast.dump(e)[:120])
    def cmp(self, op, x, y):
        (a, ta), (b, tb) = x, y
        if isinstance(op, (ast.In, ast.NotIn)) and ta == STR and (tb in (DICT, SDICT) or tb == LIST(STR) or tb == STR):
            t = f"(py_din {b} {a})" if tb == DICT else f"(py_sin {b} {a})" if tb == SDICT else f"(py_contains {a} {b})" if tb == STR else f"(py_in_str {a} {b})"
            return t if isinstance(op, ast.In) else f"(negb {t})"
        sym = {ast.Eq: "=?", ast.LtE: "<=?", ast.Lt: "<?", ast.GtE: ">=?", ast.Gt: ">?"}.get(type(op))
        if ta == Z and tb == Z and sym: return f"({a} {sym} {b})%Z"
        if ta == Z and tb == Z and isinstance(op, ast.NotEq): return f"(negb ({a} =? {b})%Z)"
        if ta == STR and tb == STR and isinstance(op, (ast.Eq, ast.NotEq)):
            return f"(String.eqb {a} {b})" if isinstance(op, ast.Eq) else f"(negb (String.eqb {a} {b}))"
        raise Unsupported(f"comparison {type(op).__name__} on {ty(ta)}, {ty(tb)}")
    def sx(self, e, e2=None):
        """expression(s) in statement position: (term, type, wrap); wrap puts the hoisted partial operations around a body"""
        self.binds = []
        a, ta = self.ex(e)
        if e2 is not None: a = (a, self.ex(e2)[0])
        binds = self.binds
        def wrap(body):
            for t, p in reversed(binds): body = f"py_bind {p} (fun {t} =>\n{body})"
            return body
        return a, ta, wrap
    def sxs(self, es):
        self.binds = []
        terms = [self.ex(e)[0] for e in es]
        binds = self.binds
        def wrap(body):
            for t, p in reversed(binds): body = f"py_bind {p} (fun {t} =>\n{body})"
            return body
        return terms, None, wrap
    def bind_var(self, v, t):
        if v in self.env and not same(self.env[v], t): raise Unsupported(f"`{v}` changes type from {ty(self.env[v])} to {ty(t)}")
        if v not in self.env: self.env[v] = t
    def tup(self, vs): return "(" + ", ".join(vs) + ")" if vs else "tt"
    def binders(self, vs, extra=()):
        tv = sorted(set().union(set(), *[tyvars(self.env[v]) for v in vs], *[tyvars(t) for t in extra]))
        return "".join(f" {{{a}}}" for a in tv) + "".join(f" ({v} : {ty(self.env[v])})" for v in vs)
    # ---------------------------------------------------------------- statements; k() produces the term after the block
    def block(self, stmts, k, in_loop=False):
        if not stmts: return k()
        s, rest = stmts[0], stmts[1:]
        go = lambda: self.block(rest, k, in_loop)
        if isinstance(s, ast.Raise):                                   # any exception = None (its message is not translated)
            self.need_partial("raise"); return "None"
        if isinstance(s, ast.Expr) and isinstance(s.value, ast.Call) and isinstance(s.value.func, ast.Attribute) and nm(s.value.func.value) == "self" \
                and s.value.func.attr in self.cfg.get("calls", {}) and not s.value.keywords:
            self.need_partial("call of a partial function")             # another regenerated function, called for its exception only
            args, _, wrap = self.sxs(s.value.args)
            return wrap(f"py_bind ({self.cfg['calls'][s.value.func.attr]} {' '.join(args)}) (fun _ =>\n{go()})")
        if isinstance(s, ast.Return) and self.cfg.get("return_call_names") and isinstance(s.value, ast.Call) and isinstance(s.value.func, ast.Attribute) \
                and nm(s.value.func.value) == "self" and not in_loop:
            return f'Some "{s.value.func.attr}"%string' if self.partial else f'"{s.value.func.attr}"%string'   # which method runs
        if isinstance(s, ast.Return):
            if in_loop or s.value is None: raise Unsupported("return inside a loop / bare return")
            a, _, wrap = self.sx(s.value)
            r = self.tup([a] + self.cfg.get("state", [])) if self.cfg.get("state") else a
            return wrap(f"Some {r}" if self.partial else r)
        if isinstance(s, ast.Assign) and len(s.targets) == 1 and nm(s.targets[0]):
            a, ta, wrap = self.sx(s.value)
            if nm(s.value) and ta[0] in ("list", "dict"): raise Unsupported("aliasing of a mutable value")
            self.bind_var(nm(s.targets[0]), ta)
            return wrap(f"let {nm(s.targets[0])} := {a} in\n{go()}")
        if isinstance(s, ast.AugAssign) and nm(s.target):
            a, _, wrap = self.sx(ast.BinOp(left=s.target, op=s.op, right=s.value))
            return wrap(f"let {nm(s.target)} := {a} in\n{go()}")
        de = self.cfg.get("dict_effect")
        if de and isinstance(s, ast.Assign) and len(s.targets) == 1 and isinstance(s.targets[0], ast.Subscript) and nm(s.targets[0].value) == de["var"] \
                and isinstance(s.value, ast.Dict):
            ent = {kk.value: vv for kk, vv in zip(s.value.keys, s.value.values) if isinstance(kk, ast.Constant)}
            if set(ent) != set(de["rest"]) | {de["value"]} or any(ast.unparse(ent[kk]) != src for kk, src in de["rest"].items()):
                raise Unsupported("the recorded dict literal no longer has the expected entries")
            a, tk, wrap = self.sx(s.targets[0].slice, ent[de["value"]])
            if tk != STR: raise Unsupported("dict key of type " + ty(tk))
            return wrap(f"let {de['var']} := ({de['var']} ++ [({a[0]}, {a[1]})])%list in\n{go()}")
        if isinstance(s, (ast.Assign, ast.AugAssign)) and isinstance(getattr(s, "target", None) or s.targets[0], ast.Subscript):
            tg = s.target if isinstance(s, ast.AugAssign) else s.targets[0]
            d = nm(tg.value)
            if isinstance(s, ast.Assign) and len(s.targets) != 1 or not d or self.env.get(d) != DICT: raise Unsupported("subscript assignment")
            val = ast.BinOp(left=ast.Subscript(value=tg.value, slice=tg.slice, ctx=ast.Load()), op=s.op, right=s.value) if isinstance(s, ast.AugAssign) else s.value
            a, tk, wrap = self.sx(tg.slice, val)
            if tk != STR: raise Unsupported("dict key of type " + ty(tk))
            return wrap(f"let {d} := py_dset {d} {a[0]} {a[1]} in\n{go()}")
        if isinstance(s, ast.Expr) and isinstance(s.value, ast.Call) and isinstance(s.value.func, ast.Attribute) \
                and s.value.func.attr == "append" and len(s.value.args) == 1 and nm(s.value.func.value):
            l = nm(s.value.func.value)
            a, ta, wrap = self.sx(s.value.args[0])
            if l not in self.env or not same(self.env[l], LIST(ta)): raise Unsupported("append to a non-list")
            return wrap(f"let {l} := ({l} ++ [{a}])%list in\n{go()}")
        if isinstance(s, ast.If):
            c, tc, wrap = self.sx(s.test)
            if tc == STR: c, tc = f'(negb (String.eqb {c} ""%string))', BOOL          # `if s:` on a str
            if tc != BOOL: raise Unsupported("truthiness of a non-bool")
            if c in ("false", "true"):                                                 # statically decided: the dead branch is not translated
                return self.block(list(s.body if c == "true" else s.orelse) + rest, k, in_loop)
            env0 = dict(self.env)
            th = self.block(list(s.body) + rest, k, in_loop); self.env = dict(env0)
            el = self.block(list(s.orelse) + rest, k, in_loop); self.env = env0
            return wrap(f"if {c} then (\n{th})\nelse (\n{el})")
        if isinstance(s, ast.Break) and in_loop == "for-with-break":
            return f"let brk__ := true in\n{k()}"                                      # the rest of this iteration and all later ones are skipped
        if isinstance(s, (ast.For, ast.While)) and not s.orelse:
            return self.loop(s, go)
        raise Unsupported("statement " + ast.dump(s)[:120])
    def loop(self, s, go):
        env0 = dict(self.env)
        carried = [v for v in assigned(s.body) if v in env0]
        name = self.fresh(self.cfg["name"] + ("_step" if isinstance(s, ast.For) else "_loop"))
        if isinstance(s, ast.For):
            it = s.iter
            if isinstance(it, ast.Call) and isinstance(it.func, ast.Name) and it.func.id == "enumerate" and len(it.args) == 1 \
                    and isinstance(s.target, ast.Tuple) and len(s.target.elts) == 2 and all(isinstance(x, ast.Name) for x in s.target.elts):
                xs, txs, wrap = self.sx(it.args[0]); pat = [x.id for x in s.target.elts]
                xs, elt = f"(py_enumerate {xs})", TUP(Z, txs[1] if txs[0] == "list" else None)
            elif isinstance(s.target, ast.Tuple) and len(s.target.elts) == 2 and all(isinstance(x, ast.Name) for x in s.target.elts):
                xs, txs, wrap = self.sx(it); pat = [x.id for x in s.target.elts]
                if txs[0] != "list" or not txs[1] or txs[1][0] != "tup" or len(txs[1][1]) != 2: raise Unsupported("for a, b over a non-pair list")
                elt = txs[1]
            elif isinstance(s.target, ast.Name):
                xs, txs, wrap = self.sx(it); pat, elt = [s.target.id], txs[1] if txs[0] == "list" else None
            else: raise Unsupported("for-loop shape")
            if txs[0] != "list" or set(pat) & set(env0): raise Unsupported("for over a non-list / loop variable shadows a live variable")
            if used([it]) & set(carried): raise Unsupported("loop body mutates the sequence it iterates over")
            frees = sorted((used(s.body) & set(env0)) - set(carried))
            brk = any(isinstance(n, ast.Break) for st in s.body for n in ast.walk(st))
            if brk:                                     # `break`: a flag carried through the fold; once set, iterations are no-ops
                if "brk__" in env0 or any(isinstance(n, (ast.For, ast.While)) for st in s.body for n in ast.walk(st)):
                    raise Unsupported("break in a nested loop")
                carried = carried + ["brk__"]; env0["brk__"] = BOOL; self.env["brk__"] = BOOL
            for v, t in zip(pat, elt[1] if len(pat) == 2 else [elt]): self.env[v] = t
            tot, self.total_ctx = self.total_ctx, True
            body = self.block(list(s.body), lambda: self.tup(carried), "for-with-break" if brk else True)
            if brk: body = f"if brk__ then st else (\n{body})"
            self.total_ctx = tot
            self.aux.append(f"Definition {name}{self.binders(frees, [elt])} (st : {ty(TUP(*[env0[v] for v in carried]))}) (x__ : {ty(elt)}) :=\n"
                            f"let '{self.tup(carried)} := st in let '{self.tup(pat)} := x__ in\n{body}.")
            self.env = env0
            pre = "let brk__ := false in\n" if brk else ""
            out = wrap(f"{pre}let '{self.tup(carried)} := fold_left ({name} {' '.join(frees)}) {xs} {self.tup(carried)} in\n{go()}")
            self.env.pop("brk__", None)
            return out
        self.need_partial("while")
        if "fuel" not in self.cfg: raise Unsupported("while loop without a fuel expression in TARGETS")
        frees = sorted((used(s.body + [s.test]) & set(env0)) - set(carried))
        c, tc, wrap = self.sx(s.test)
        if tc != BOOL: raise Unsupported("truthiness of a non-bool")
        body = self.block(list(s.body), lambda: f"{name} fuel' {' '.join(frees)} {self.tup(carried)}", True)
        self.env = env0
        self.aux.append(f"Fixpoint {name} (fuel : nat){self.binders(frees)} (st : {ty(TUP(*[env0[v] for v in carried]))}) {{struct fuel}} :=\n"
                        f"match fuel with O => None | S fuel' =>\nlet '{self.tup(carried)} := st in\n" + wrap(f"if {c} then (\n{body})\nelse Some st") + "\nend.")
        return f"py_bind ({name} {self.cfg['fuel']} {' '.join(frees)} {self.tup(carried)}) (fun '{self.tup(carried)} =>\n{go()})"

def find(tree, cls, func):
    body = tree.body
    if cls:
        c = [n for n in body if isinstance(n, ast.ClassDef) and n.name == cls]
        if not c: raise Unsupported(f"class {cls} not found")
        body = c[0].body
    return body, [n for n in body if isinstance(n, ast.FunctionDef) and n.name == func]

def translate(cfg):
    path = os.path.join(REPO, cfg["file"])
    if not os.path.exists(path): raise Unsupported("no such file " + path)
    text = open(path).read()
    body, fs = find(ast.parse(text), cfg["cls"], cfg["func"])
    if len(fs) != 1: raise Unsupported(f"{len(fs)} definitions of {cfg['func']}")
    fn = fs[0]
    src = ast.get_source_segment(text, fn)
    if fn.args.kwarg and cfg.get("kwargs_ok"): fn.args.kwarg = None
    if [d for d in fn.decorator_list if not (isinstance(d, ast.Name) and d.id == "staticmethod")] or fn.args.vararg or fn.args.kwarg or fn.args.kwonlyargs or not all(isinstance(d, ast.Constant) for d in fn.args.defaults):
        raise Unsupported("decorators / non-constant defaults / *args")
    if set(cfg.get("ignore", [])) - {a.arg for a in fn.args.args}: raise Unsupported("an ignored parameter disappeared")
    params = [a.arg for a in fn.args.args if a.arg != "self" and a.arg not in cfg.get("ignore", [])] + \
             [v for v in cfg["types"] if v.startswith("self_") or v in cfg.get("opaque", {}).values()]
    if set(params) != set(cfg["types"]): raise Unsupported(f"signature changed: {params}")
    params = [v for v in cfg.get("state", [])] + [p for p in params if p not in cfg.get("state", [])]
    stmts = fn.body[1:] if isinstance(fn.body[0], ast.Expr) and isinstance(fn.body[0].value, ast.Constant) else fn.body
    consts = []
    for cn in cfg.get("consts", []):
        cs = [n for n in body if isinstance(n, ast.Assign) and len(n.targets) == 1 and nm(n.targets[0]) == cn]
        if len(cs) != 1: raise Unsupported(f"constant {cn} not found exactly once")
        a, ta = Tr(cfg, False).ex(cs[0].value)
        consts.append(f"Definition {cn.lstrip('_')} : {ty(ta)} := {a}."); src += ast.get_source_segment(text, cs[0])
    cenv = {}
    for cn in cfg.get("self_consts", []):            # class attribute that must be a literal tuple/list of str: self.<cn> : list string
        cs = [n for n in body if isinstance(n, (ast.Assign, ast.AnnAssign)) and nm(n.targets[0] if isinstance(n, ast.Assign) else n.target) == cn]
        v = cs[0].value if len(cs) == 1 else None
        if not isinstance(v, (ast.Tuple, ast.List)) or not all(isinstance(x, ast.Constant) and isinstance(x.value, str) for x in v.elts):
            raise Unsupported(f"class attribute {cn} is not a literal tuple/list of strings")
        consts.append(f"Definition self_{cn} : list string := [" + "; ".join(Tr(cfg, False).ex(x)[0] for x in v.elts) + "].")
        cenv["self_" + cn] = LIST(STR); src += ast.get_source_segment(text, cs[0])
    for partial in (False, True):
        tr = Tr(cfg, partial); tr.env = dict(cfg["types"], **cenv)
        def off_end():
            if cfg.get("returns_none"): return "Some tt" if tr.partial else "tt"
            raise Unsupported("control can reach the end of the function without `return`")
        try:
            main = tr.block(list(stmts), off_end); break
        except NeedPartial: continue
    tr.env = dict(cfg["types"])
    out = ["(* generated by harness/py2v.py from %s (%s%s), sha1 of the translated text %s - do not edit *)"
           % (cfg["file"], (cfg["cls"] + ".") if cfg["cls"] else "", cfg["func"], hashlib.sha1(src.encode()).hexdigest()[:12]),
           "From Coq Require Import ZArith List Bool String Ascii.\nFrom PV Require Import PyLib.\n" +
           "".join(f"From PVG Require Import Gen_{d}.\n" for d in cfg.get("calls", {}).values()) + "Import ListNotations.\nOpen Scope Z_scope.",
           *consts, *tr.aux, f"Definition {cfg['name']}{tr.binders(params)} :=\n{main}."]
    return "\n\n".join(out) + "\n"

def main():
    os.makedirs(GEN, exist_ok=True)
    rc = 0
    for cfg in TARGETS:
        try:
            text = translate(cfg)
        except (Unsupported, SyntaxError, RecursionError, KeyError, IndexError, TypeError, AttributeError) as e:
            reason = re.sub(r'[*"()]', " ", f"{type(e).__name__}: {e}")
            print(f"py2v: FAILED CLOSED on {cfg['name']}: {reason}")
            text = f"(* E2 translation of {cfg['func']} failed: {reason} *)\nDefinition translation_failed : False := I.\n"
            rc = 1
        path = os.path.join(GEN, f"Gen_{cfg['name']}.v")
        if not os.path.exists(path) or open(path).read() != text:
            open(path, "w").write(text)
            print(f"py2v: wrote {path}")
    return rc

if __name__ == "__main__":
    sys.exit(main())
