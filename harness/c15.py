"""C15 — YAML, Python and inherited definitions of a model are equivalent; equation edits change exactly the
whole-identifier occurrences.
Models: coq/theories/Replace.v (parser.replace, _update_equation, OperatorTemplate.update_template),
        coq/theories/Yaml.v (dict.from_circuit/.../add_to_dict = dump, from_yaml = load, denote).
Theorems: coq/properties/C15.v.
Tie (E1), four streams of cases:
  exh  — ALL strings up to a length over {r,a,_,2,+,=,' ',(} x terms {r,rr,r_a,a} x flags through the real `replace`
         (in-process); the Coq model is evaluated exhaustively on the smaller space (expected outputs supplied as a
         list, mismatch counts computed inside Coq), on the larger space the real function is compared with the
         Python transcriptions `py_words_replace` / `py_loop` of the Coq definitions, which agree with the Coq model
         on the smaller space because both agree with the real function there;
  rep  — random long equations over identifier sets containing one another, evaluated inside Coq;
  upd  — chains of update_template (Python call and YAML `base:`) with random edit dictionaries, evaluated inside Coq;
  yaml — random circuits: to_yaml, the written store, from_yaml, the re-loaded templates and the vector fields of
         original and re-loaded circuit (exact), against dump / load / denote evaluated inside Coq."""
import json, os, itertools
from fractions import Fraction as Fr
from core import *

def read_switches():
    """the repair switches of the models (stage 1: false = the code as it is now; the coordinator flips them with the fix)"""
    import re as _re
    sw = {}
    for f in ("Replace.v", "Yaml.v"):
        for m in _re.finditer(r"Definition (fixed_\w+) : bool := (true|false)\.", open(os.path.join(COQ, "theories", f)).read()):
            sw[m.group(1)] = m.group(2) == "true"
    return sw

NEEDS = ["Replace", "ReplaceProofs", "Yaml", "YamlProofs", "Corr", "PyLib", "ReplaceEquiv", "Gen_replace"]
ALPHA = "ra_2+= ("
ALPHA2 = "ra_2+= (,^)."            # second sweep: the delimiters , ^ ) . in front of / behind an occurrence
TERMS = ["r", "rr", "r_a", "a"]      # r_in of the design cannot occur over ALPHA (no i, n): r_a plays its role
FLAGS = [(False, False), (True, False), (False, True), (True, True)]
SEP = "|"

# ====================================================================================================
# Python transcriptions of the Coq definitions (used on the large exhaustive space only)
# ====================================================================================================
DELIMS = '-+=*/^<>=!.%@[]():, '
DELIMS_SPEC = DELIMS + "'"               # Replace.is_delim_spec: for the reader an identifier ends at the derivative mark
_IMPL_DELIMS = []
def impl_delims():                       # Replace.is_delim: the set of the code (with ' once the switch fixed_prime is flipped)
    if not _IMPL_DELIMS:
        _IMPL_DELIMS.append(DELIMS_SPEC if read_switches().get("fixed_prime") else DELIMS)
    return _IMPL_DELIMS[0]

def py_words(s):
    out, cur = [], ""
    for c in s:
        if c in DELIMS_SPEC:
            if cur:
                out.append(cur)
            out.append(c); cur = ""
        else:
            cur += c
    if cur:
        out.append(cur)
    return out

def py_words_replace(eq, term, rep):                       # Replace.replace_words
    return "".join(rep if w == term else w for w in py_words(eq))

def py_words_sided(eq, term, rep, rhs, lhs):               # Replace.replace_words_sided
    out, seen = [], False
    for w in py_words(eq):
        ok = (rhs and seen) or (lhs and not seen) or (not rhs and not lhs)
        seen = seen or w == "="
        out.append(rep if (ok and w == term) else w)
    return "".join(out)

def py_loop(eq, term, rep, rhs, lhs):                      # Replace.loopA (what the code does, flags included)
    acc, prev, s, n, seen = "", None, eq, len(term), False
    while True:
        idx = s.find(term)
        if idx < 0:
            return acc + s
        follow = idx + n
        before = prev if idx == 0 else s[idx - 1]
        rest = s[follow:]
        bound = (rest == "" or rest[0] in impl_delims()) and (before is None or before in impl_delims())
        part = s[:idx]
        in_rhs = seen or "=" in part
        side = (rhs and in_rhs) or (lhs and not in_rhs) or (not rhs and not lhs)
        acc += part + rep if (bound and side) else s[:follow]
        prev = s[follow - 1] if follow > 0 else None
        seen = seen or "=" in s[:follow]
        s = rest

# ====================================================================================================
# impl side (worker)
# ====================================================================================================
def impl(case):
    return {"rep": impl_rep, "exh": impl_exh, "upd": impl_upd, "yaml": impl_yaml, "reuse": impl_reuse, "npy": impl_npy,
            "mfile": impl_mfile, "err": impl_err, "pop": impl_pop}[case["kind"]](case)

def impl_rep(case):
    from pyrates.backend.parser import replace
    return replace(case["eq"], case["term"], case["rep"], rhs_only=case["rhs"], lhs_only=case["lhs"])

def all_strings(maxlen, alpha=ALPHA):
    for l in range(maxlen + 1):
        for t in itertools.product(alpha, repeat=l):
            yield "".join(t)

def impl_exh(case):
    """one term, all flags, all strings up to big_len; returns the mismatches and, for the strings up to small_len,
    the outputs of the real function (joined) for the evaluation of the Coq model"""
    from pyrates.backend.parser import replace
    term, rep, big, small = case["term"], case["rep"], case["big_len"], case["small_len"]
    bad_spec, bad_impl, n, sided_bad = [], [], 0, 0
    small_out = {i: [] for i in range(len(FLAGS))}
    for s in all_strings(big, case.get("alpha", ALPHA)):
        is_small = len(s) <= small
        for fi, (rhs, lhs) in enumerate(FLAGS):
            if fi in (1, 2) and len(s) > case["flag_len"]:
                continue
            real = replace(s, term, rep, rhs_only=rhs, lhs_only=lhs)
            n += 1
            if is_small:
                small_out[fi].append(real)
            if rhs == lhs:
                if real != py_words_replace(s, term, rep) and len(bad_spec) < 8:
                    bad_spec.append([s, rhs, lhs, real])
            else:
                if real != py_loop(s, term, rep, rhs, lhs) and len(bad_impl) < 8:
                    bad_impl.append([s, rhs, lhs, real])
                if real != py_words_sided(s, term, rep, rhs, lhs):
                    sided_bad += 1
    return dict(n=n, bad_spec=bad_spec, bad_impl=bad_impl, sided_bad=sided_bad,
                small=[SEP.join(small_out[i]) for i in range(len(FLAGS))])

def vtext(v):
    return v if isinstance(v, str) else repr(float(v)) if isinstance(v, (int, float)) else json.dumps(v)

def impl_upd(case):
    """chain of update_template calls on an OperatorTemplate: through the Python method and through YAML `base:`"""
    import copy
    import pyr
    from pyrates.frontend.template.operator import OperatorTemplate
    pyr.reset_pyrates()
    try:
        b = case["base"]
        t = OperatorTemplate(name="op0", equations=list(b["equations"]), variables=dict(b["variables"]))
        links = []
        for i, ln in enumerate(case["chain"]):
            kw = {}
            if ln["equations"] is not None:
                kw["equations"] = copy.deepcopy(ln["equations"])
            if ln["variables"] is not None:
                kw["variables"] = copy.deepcopy(ln["variables"])
            d = t.update_template(name=f"op{i + 1}", **kw)
            links.append(dict(equations=list(d.equations), variables=[[k, vtext(v)] for k, v in d.variables.items()],
                              base_after=[[k, vtext(v)] for k, v in t.variables.items()]))
            t = d
        # the same chain as YAML templates (JSON is YAML)
        doc = {"op0": {"base": "OperatorTemplate", "equations": list(b["equations"]), "variables": dict(b["variables"])}}
        for i, ln in enumerate(case["chain"]):
            e = {"base": f"op{i}"}
            if ln["equations"] is not None:
                e["equations"] = ln["equations"]
            if ln["variables"] is not None:
                e["variables"] = ln["variables"]
            doc[f"op{i + 1}"] = e
        json.dump(doc, open("y.yaml", "w"))
        pyr.reset_pyrates()
        y = OperatorTemplate.from_yaml(f"y/op{len(case['chain'])}")
        return dict(links=links, yaml=dict(equations=list(y.equations), variables=[[k, vtext(v)] for k, v in y.variables.items()]))
    finally:
        if os.path.exists("y.yaml"):
            os.remove("y.yaml")
        pyr.reset_pyrates()

# ---------------------------------------------------------------------------------------------- yaml stream
VT = {"constant": "VConst", "state_var": "VState", "input": "VIn", "output": "VOut"}

def spec8(v):
    """(kind, code of the value) of a variable definition, read with PyRates' own _parse_defaults"""
    from pyrates.frontend.template.operator import _parse_defaults
    d = _parse_defaults(v)
    return [VT[d["vtype"]], zcode(d["value"])]

def zcode(v):
    """injective integer code of a float (a dyadic rational p/2^e in lowest terms): p*4096 + e.  The models only compare
    values, so any injective code will do; it keeps tiny (2^-100), huge (2^100) and 1+2^-45 apart exactly.  -0.0 and 0.0,
    2 and 2.0 get the same code: they are equal for Python's == (which is what add_to_dict uses), too."""
    x = Fr(float(v))
    e = x.denominator.bit_length() - 1
    assert x.denominator == 1 << e and e < 4096, v
    return x.numerator * 4096 + e

def val8(v):
    return zcode(v)

def build_node(nd, ops, cls):
    return cls(name=nd["name"], operators={ops[o]: dict(u) for o, u in nd["ops"]})

def build_edges(edges, ops):
    from pyrates.frontend import EdgeTemplate
    return [(s, t, None if tp is None else build_node(tp, ops, EdgeTemplate), dict(at)) for s, t, tp, at in edges]

def build_circuit(case):
    from pyrates.frontend import CircuitTemplate, NodeTemplate, OperatorTemplate
    ops = {k: OperatorTemplate(name=o.get("name", k), equations=list(o["equations"]), variables=dict(o["variables"]))
           for k, o in case["ops"].items()}
    def flat(f):
        return CircuitTemplate(name=f["name"], nodes={k: build_node(nd, ops, NodeTemplate) for k, nd in f["nodes"]},
                               edges=build_edges(f["edges"], ops))
    tr = case["tree"]
    if tr["subs"]:
        return CircuitTemplate(name=tr["name"], circuits={k: flat(f) for k, f in tr["subs"]}, edges=build_edges(tr["edges"], ops))
    return flat(tr)

def walk_node(node):
    out = []
    for op, u in node.operators.items():
        vs = []
        for v, spec in op.variables.items():
            k, x = spec8(spec)
            if u and v in u:
                x = val8(u[v])
            vs.append([v, k, x])
        out.append([op.name, list(op.equations), vs])
    return out

def walk(c):
    """the flattened reading of a CircuitTemplate object (what Yaml.denote is of the model object)"""
    def edges(c, pre):
        return [[pre + s, pre + t, None if tp is None else walk_node(tp), [[k, val8(v)] for k, v in at.items()]]
                for s, t, tp, at in c.edges]
    if c.circuits:
        nodes, es = [], []
        for key, sub in c.circuits.items():
            nodes += [[f"{key}/{k}", walk_node(n)] for k, n in sub.nodes.items()]
            es += edges(sub, key + "/")
        return [nodes, es + edges(c, "")]
    return [[[k, walk_node(n)] for k, n in c.nodes.items()], edges(c, "")]

def raw_templates(c):
    """the operator templates' own variable dictionaries (without node-level overrides), in traversal order"""
    out = []
    def node(n):
        for op in n.operators:
            out.append([op.name, [[v, vtext(s)] for v, s in op.variables.items()], list(op.equations)])
    def circ(c):
        for sub in c.circuits.values():
            circ(sub)
        for n in c.nodes.values():
            node(n)
        for e in c.edges:
            if e[2] is not None:
                node(e[2])
        out.append([c.name, len(c.edges)])
    circ(c)
    return out

def read_store(path):
    from ruamel.yaml import YAML
    d = YAML(typ="safe", pure=True).load(open(path))
    out = []
    for key, e in d.items():
        b = e["base"]
        if b == "OperatorTemplate":
            out.append([key, "op", list(e["equations"]), [[v, *spec8(s)] for v, s in e["variables"].items()]])
        elif b in ("NodeTemplate", "EdgeTemplate"):
            o = e["operators"]          # a list of operator keys, or {operator key: {variable: value}}
            ops = [[k, [[v, val8(x)] for v, x in (u or {}).items()]] for k, u in o.items()] if isinstance(o, dict) else [[k, []] for k in o]
            out.append([key, "edge" if b == "EdgeTemplate" else "node", ops])
        else:
            out.append([key, "circ", [[k, v] for k, v in e["circuits"].items()], [[k, v] for k, v in e["nodes"].items()],
                        [[s, t, tp, [[k, val8(v)] for k, v in at.items()]] for s, t, tp, at in e["edges"]]])
    return out

def vector_field(c, name, points):
    """{state path: [dy at point 0, dy at point 1, ...]} of the compiled circuit; state values are assigned to the
    state variables in sorted path order, so that two circuits with the same paths are evaluated at the same states"""
    import numpy as np, io, contextlib, copy
    import pyr
    pyr.reset_pyrates()
    try:
        c = copy.deepcopy(c)
        with contextlib.redirect_stdout(io.StringIO()):
            func, args, names, smap = c.get_run_func(name, 1e-3, file_name=name, backend="default", solver="euler",
                                                     vectorize=False, float_precision="float64", in_place=True, clear=False)
        keys = sorted(smap)
        idx = {}
        for k in keys:
            i = smap[k]
            idx[k] = int(np.asarray(i).reshape(-1)[0])
        res = {k: [] for k in keys}
        args = list(args)
        for pt in points:
            y = np.array(args[1], dtype=np.float64)
            for j, k in enumerate(keys):
                y[idx[k]] = float(Fr(pt[j % len(pt)]))
            args[1] = y
            args[2] = np.zeros_like(y)
            dy = np.array(func(*args), dtype=np.float64).copy()
            for k in keys:
                res[k].append(pyr.frac(dy[idx[k]]))
        return res
    finally:
        pyr.reset_pyrates()

def impl_yaml(case):
    import pyr
    from pyrates.frontend import CircuitTemplate
    pyr.reset_pyrates()
    out = {}
    try:
        c = build_circuit(case)
        out["walk0"] = walk(c)
        out["vf0"] = vector_field(c, "f0", case["points"])
        c = build_circuit(case)
        if os.path.exists("x.yaml"):
            os.remove("x.yaml")
        out["raw0"] = raw_templates(c)
        c.to_yaml("x.yaml")
        out["raw0_after_dump"] = raw_templates(c)
        out["store"] = read_store("x.yaml")
        out["walk0_after_dump"] = walk(c)
        pyr.reset_pyrates()
        try:
            c2 = CircuitTemplate.from_yaml("x/" + case["tree"]["name"])
            out["walk1"] = walk(c2)
        except Exception as e:
            out["walk1"] = None
            out["load_error"] = f"{type(e).__name__}: {str(e)[:200]}"
            return out
        try:
            out["vf1"] = vector_field(c2, "f1", case["points"])
        except Exception as e:
            out["vf1"] = None
            out["compile_error"] = f"{type(e).__name__}: {str(e)[:200]}"
        return out
    finally:
        if os.path.exists("x.yaml"):
            os.remove("x.yaml")
        pyr.reset_pyrates()

# ---------------------------------------------------------------------------------------------- reuse of an edit dict (D99)
def impl_reuse(case):
    """several derivations from one base template with the SAME edit dictionary object"""
    import copy
    import pyr
    from pyrates.frontend.template.operator import OperatorTemplate
    pyr.reset_pyrates()
    try:
        b = case["base"]
        base = OperatorTemplate(name="op0", equations=list(b["equations"]), variables=dict(b["variables"]))
        e = copy.deepcopy(case["edit"])
        outs = []
        for i in range(case["times"]):
            d = base.update_template(name=None if i % 2 else f"d{i}", equations=e, variables=copy.deepcopy(case["variables"]) or None)
            outs.append(dict(equations=list(d.equations), variables=[[k, vtext(v)] for k, v in d.variables.items()]))
        return dict(derived=outs, edit_after=e)
    finally:
        pyr.reset_pyrates()

# ---------------------------------------------------------------------------------------------- loud failures of the loader
ERR_EXPECTED = {"no_module": "PyRatesException", "bare_path": "NotImplementedError", "no_base": "KeyError", "no_template": "AttributeError",
                "no_file": "FileNotFoundError", "bad_equations_type": "TypeError", "wrong_class": "TypeError"}

def impl_err(case):
    """references that cannot be resolved and malformed arguments fail loudly, with the documented exception"""
    import pyr
    from pyrates.frontend import CircuitTemplate, OperatorTemplate
    pyr.reset_pyrates()
    try:
        json.dump({"op": {"base": "OperatorTemplate", "equations": ["d/dt * r = -r"], "variables": {"r": "output(0.5)"}},
                   "nobase": {"equations": ["d/dt * r = -r"], "variables": {"r": "output(0.5)"}}}, open("e.yaml", "w"))
        w = case["what"]
        try:
            if w == "no_module":
                OperatorTemplate.from_yaml("nosuchpackage.file.op")
            elif w == "bare_path":
                OperatorTemplate.from_yaml("op")
            elif w == "no_base":
                OperatorTemplate.from_yaml("e/nobase")
            elif w == "no_template":
                OperatorTemplate.from_yaml("e/nosuch")
            elif w == "no_file":
                OperatorTemplate.from_yaml("nosuchfile/op")
            elif w == "wrong_class":
                CircuitTemplate.from_yaml("e/op")
            elif w == "bad_equations_type":
                OperatorTemplate.from_yaml("e/op").update_template(name="x", equations=5)
            return "no exception"
        except Exception as e:
            return type(e).__name__
    finally:
        if os.path.exists("e.yaml"):
            os.remove("e.yaml")
        pyr.reset_pyrates()

# ---------------------------------------------------------------------------------------------- populations / connections
def impl_pop(case):
    """a circuit with a PopulationTemplate and a Connectivity: to_yaml, from_yaml, vector field at the default state.
    Also the vector field of the `collapsed` circuit (the population's base node as ONE plain node, no connections): that is
    what from_circuit wrote before fix D116; since then to_yaml raises PyRatesException for such a circuit"""
    import numpy as np, io, contextlib, copy
    import pyr
    from pyrates.frontend import CircuitTemplate, NodeTemplate, OperatorTemplate
    from pyrates.frontend.template import PopulationTemplate, Connectivity
    def vf(c, name):
        pyr.reset_pyrates()
        try:
            c = copy.deepcopy(c)
            with contextlib.redirect_stdout(io.StringIO()):
                f, args, names, smap = c.get_run_func(name, 1e-3, file_name=name, backend="default", solver="euler", vectorize=True,
                                                      float_precision="float64", in_place=True, clear=False)
            return [pyr.frac(x) for x in np.array(f(*args), dtype=np.float64).reshape(-1)]
        finally:
            pyr.reset_pyrates()
    def build(collapsed):
        o = OPLIB["opa"]
        op = OperatorTemplate("opa", equations=list(o["equations"]), variables=dict(o["variables"]))
        node = NodeTemplate("n", operators=[op])
        if collapsed:
            return CircuitTemplate("c", nodes={"p": node})
        pop = PopulationTemplate(name="p", node=node, n=case["n"], params={"opa/k": list(case["k"])})
        conn = Connectivity(source="p/opa/r", target="p/opa/r_in", weights=np.array(case["weights"], dtype=np.float64))
        return CircuitTemplate("c", populations={"p": pop}, connections=[conn])
    pyr.reset_pyrates()
    out = {}
    try:
        out["vf0"] = vf(build(False), "f0")
        out["vf_collapsed"] = vf(build(True), "fc")
        if os.path.exists("x.yaml"):
            os.remove("x.yaml")
        try:
            build(False).to_yaml("x.yaml")
        except Exception as e:
            out["dump_error"] = type(e).__name__
            return out
        pyr.reset_pyrates()
        out["vf1"] = vf(CircuitTemplate.from_yaml("x/c"), "f1")
        return out
    finally:
        if os.path.exists("x.yaml"):
            os.remove("x.yaml")
        pyr.reset_pyrates()

# ---------------------------------------------------------------------------------------------- numpy values in to_yaml
def impl_npy(case):
    """a circuit whose values were set with numpy scalars (update_var, add_edges_from_matrix) must be writable"""
    import numpy as np
    import pyr
    from pyrates.frontend import CircuitTemplate
    pyr.reset_pyrates()
    out = {}
    try:
        c = build_circuit(case)
        if case["node_vars"]:
            c.update_var(node_vars={k: np.float64(v) for k, v in case["node_vars"].items()})
        if case["matrix"]:
            m = case["matrix"]
            c.add_edges_from_matrix(m["source_var"], m["target_var"], m["nodes"], weight=np.array(m["weight"], dtype=np.float64))
        out["vf0"] = vector_field(c, "f0", case["points"])
        if os.path.exists("x.yaml"):
            os.remove("x.yaml")
        try:
            c.to_yaml("x.yaml")
        except Exception as e:
            out["dump_error"] = type(e).__name__
            return out
        pyr.reset_pyrates()
        c2 = CircuitTemplate.from_yaml("x/" + case["tree"]["name"])
        out["vf1"] = vector_field(c2, "f1", case["points"])
        return out
    finally:
        if os.path.exists("x.yaml"):
            os.remove("x.yaml")
        pyr.reset_pyrates()

# ---------------------------------------------------------------------------------------------- template sets over several files
def mresolve(cur, ref):
    """Yaml.resolve: a bare name lives in the file of the template that contains the reference"""
    return (cur, ref[1]) if ref[0] == "bare" else (ref[1], ref[2])

def spell(cur, ref):
    """how the reference is written in the YAML file `cur`: files `pkg.x` are addressed as python modules (pkg/x.yaml),
    the file `lib1` lies in the directory named after the main file (main/lib1.yaml) and is addressed as lib1/<name> from main"""
    if ref[0] == "bare":
        return ref[1]
    return f"{ref[1]}.{ref[2]}" if "." in ref[1] else f"{ref[1]}/{ref[2]}"

def file_path(fid):
    return {"main": "main.yaml", "lib1": os.path.join("main", "lib1.yaml")}.get(fid) or os.path.join(*fid.split(".")) + ".yaml"

def load_path(fid, name):
    return {"main": f"main/{name}", "lib1": f"main/lib1/{name}"}.get(fid) or f"{fid}.{name}"

def write_files(case):
    import importlib
    os.makedirs("main", exist_ok=True); os.makedirs("pkg", exist_ok=True)
    open(os.path.join("pkg", "__init__.py"), "w").close()
    importlib.invalidate_caches()
    for fid, tpls in case["files"].items():
        doc = {}
        for name, e in tpls.items():
            if e["base"] == "OperatorTemplate":
                doc[name] = dict(base=e["base"], equations=e["equations"], variables=e["variables"])
            elif e["base"] in ("NodeTemplate", "EdgeTemplate"):
                ops = {spell(fid, r): u for r, u in e["operators"]}
                doc[name] = dict(base=e["base"], operators=ops if any(ops.values()) else list(ops))
            else:
                doc[name] = dict(base=e["base"], circuits={k: spell(fid, r) for k, r in e["circuits"]}, nodes={k: spell(fid, r) for k, r in e["nodes"]},
                                 edges=[[s, t, None if r is None else spell(fid, r), at] for s, t, r, at in e["edges"]])
        json.dump(doc, open(file_path(fid), "w"))

def remove_files(case):
    import shutil
    for f in ("main.yaml",):
        if os.path.exists(f):
            os.remove(f)
    shutil.rmtree("main", ignore_errors=True); shutil.rmtree("pkg", ignore_errors=True)

def mbuild(case):
    """the same model built with the Python classes: every reference resolved by Yaml.resolve (mresolve), one object per template"""
    from pyrates.frontend import CircuitTemplate, NodeTemplate, EdgeTemplate, OperatorTemplate
    cache, files = {}, case["files"]
    def get(fid, name, base):
        e = files.get(fid, {}).get(name)
        if e is None or (e["base"] != base):
            raise KeyError(f"{fid}:{name}")
        return e
    def op(cur, ref):
        fid, name = mresolve(cur, ref)
        if ("op", fid, name) not in cache:
            e = get(fid, name, "OperatorTemplate")
            cache[("op", fid, name)] = OperatorTemplate(name=name, equations=list(e["equations"]), variables=dict(e["variables"]))
        return cache[("op", fid, name)]
    def node(cur, ref, cls, base):
        fid, name = mresolve(cur, ref)
        if (base, fid, name) not in cache:
            e = get(fid, name, base)
            cache[(base, fid, name)] = cls(name=name, operators={op(fid, r): dict(u) for r, u in e["operators"]})
        return cache[(base, fid, name)]
    def circ(cur, ref):
        fid, name = mresolve(cur, ref)
        e = get(fid, name, "CircuitTemplate")
        edges = [(s, t, None if r is None else node(fid, r, EdgeTemplate, "EdgeTemplate"), dict(at)) for s, t, r, at in e["edges"]]
        if e["circuits"]:
            return CircuitTemplate(name=name, circuits={k: circ(fid, r) for k, r in e["circuits"]}, edges=edges)
        return CircuitTemplate(name=name, nodes={k: node(fid, r, NodeTemplate, "NodeTemplate") for k, r in e["nodes"]}, edges=edges)
    return circ(case["top"][0], ["bare", case["top"][1]])

def impl_mfile(case):
    import pyr
    from pyrates.frontend import CircuitTemplate
    pyr.reset_pyrates()
    out = {}
    try:
        remove_files(case)
        write_files(case)
        try:
            built = mbuild(case)
            out["walk_built"] = walk(built)
        except KeyError as e:
            built, out["walk_built"] = None, None
        try:
            loaded = CircuitTemplate.from_yaml(load_path(*case["top"]))
            out["walk_loaded"] = walk(loaded)
        except Exception as e:
            loaded, out["walk_loaded"] = None, None
            out["load_error"] = f"{type(e).__name__}: {str(e)[:160]}"
        if built is not None and loaded is not None:
            out["vf_built"] = vector_field(built, "f0", case["points"])
            pyr.reset_pyrates()
            try:
                loaded = CircuitTemplate.from_yaml(load_path(*case["top"]))
                out["vf_loaded"] = vector_field(loaded, "f1", case["points"])
            except Exception as e:
                out["vf_loaded"] = None
                out["compile_error"] = f"{type(e).__name__}: {str(e)[:160]}"
        return out
    finally:
        remove_files(case)
        pyr.reset_pyrates()

# ====================================================================================================
# generators
# ====================================================================================================
IDENTS = ["r", "rr", "r_in", "m_in2", "in", "m", "a", "in2", "r2", "_r", "rin", "m_in"]
OPS = ["+", "-", "*", "/", "^", " = ", "(", ")", ", ", ",", "^", ")", ".", "]", " ", " + ", "*", " - ", "=", "[", "]", ".", "2", "2.5", "d/dt * "]

def gen_equation(rng, n=None):
    n = n or rng.randint(1, 14)
    toks = []
    for _ in range(n):
        toks.append(rng.choice(IDENTS) if rng.random() < 0.55 else rng.choice(OPS))
        if rng.random() < 0.15:
            toks.append(rng.choice(IDENTS))          # identifiers glued together: rr_in, m_in2r, ...
    return "".join(toks)

def gen_term(rng, plain=True):
    if plain:
        return rng.choice(IDENTS)
    return rng.choice(["+ a", "r*r", "r ", "(r", "in)", "2*r", "r_in + m"])

def gen_rep(rng):
    return rng.choice(["X", "", "rr", "(r_in + u)", "v", "r", "r_in", "h*m_in/tau", "m - a"])

def gen_rep_case(rng):
    f = rng.random()
    rhs, lhs = (False, False) if f < 0.7 else rng.choice(FLAGS)
    eq = gen_equation(rng, rng.randint(1, 30))
    term = gen_term(rng, rng.random() < 0.9)
    if rng.random() < 0.2:                 # primed left-hand side `x' = ...` (derivative mark), sometimes of the term itself
        eq = (term if rng.random() < 0.6 and " " not in term else rng.choice(IDENTS)) + "' = " + eq
    return dict(kind="rep", eq=eq, term=term, rep=gen_rep(rng), rhs=rhs, lhs=lhs)

SPECS = [2.0, 0.5, -1.25, "input(0.0)", "output(0.5)", "variable(0.25)", 3]

def gen_edit(rng, in_guard):
    e = {}
    plain = lambda: in_guard or rng.random() < 0.8
    if rng.random() < 0.7:
        e["replace"] = {gen_term(rng, plain()): gen_rep(rng) for _ in range(rng.randint(1, 3))}
    if rng.random() < 0.4:
        e["remove"] = gen_term(rng, plain()) if rng.random() < 0.3 else [gen_term(rng, plain()) for _ in range(rng.randint(1, 2))]
    if rng.random() < 0.3:
        e["append"] = rng.choice(["+ a", "- r_in*2", ""])
    if rng.random() < 0.3:
        e["prepend"] = rng.choice(["d/dt *", "2 *", ""])
    if rng.random() < 0.3:
        e["add"] = [gen_equation(rng, 5) for _ in range(rng.randint(0, 2))]
    return e

def gen_upd_case(rng):
    in_guard = rng.random() < 0.7          # in_guard: plain (delimiter-free) terms only
    eqs = [gen_equation(rng, rng.randint(3, 10)) for _ in range(rng.randint(1, 3))]
    names = rng.sample(IDENTS, rng.randint(2, 6))
    variables = {v: rng.choice(SPECS) for v in names}
    chain = []
    for _ in range(rng.randint(1, 3)):
        r = rng.random()
        eqarg = None if r < 0.2 else gen_edit(rng, in_guard) if r < 0.85 else rng.choice([[gen_equation(rng, 6)], gen_equation(rng, 6), [], ""])
        varg = None
        if rng.random() < (0.85 if in_guard else 0.5):
            varg = {rng.choice(IDENTS): rng.choice(SPECS) for _ in range(rng.randint(1, 2))}
        chain.append(dict(equations=eqarg, variables=varg))
    if not in_guard and rng.random() < 0.4:
        eqs[0] = rng.choice(names) + "' = " + eqs[0]
    return dict(kind="upd", base=dict(equations=eqs, variables=variables), chain=chain)

def gen_reuse_case(rng):
    """one edit dictionary (often with `add`) used for 1-3 derivations from the same base"""
    eqs = [gen_equation(rng, rng.randint(3, 8)) for _ in range(rng.randint(1, 2))]
    variables = {v: rng.choice(SPECS) for v in rng.sample(IDENTS, rng.randint(2, 5))}
    e = gen_edit(rng, True)
    if rng.random() < 0.7:
        e["add"] = [gen_equation(rng, 5) for _ in range(rng.randint(1, 2))]
    vupd = {rng.choice(IDENTS): rng.choice(SPECS)} if rng.random() < 0.6 else {}
    return dict(kind="reuse", base=dict(equations=eqs, variables=variables), edit=e, variables=vupd, times=rng.randint(1, 3))

# ---- circuits
OPLIB = {
    "opa": dict(equations=["d/dt * r = -k*r + r_in"], variables={"r": "output(0.5)", "k": 2.0, "r_in": "input(0.0)"}),
    "opb": dict(equations=["d/dt * v = r*c - v", "m = 3*v"], variables={"v": "variable(0.25)", "c": 1.5, "r": "input(0.0)", "m": "output(0.0)"}),
    "opc": dict(equations=["d/dt * rr = (r_in - rr)*kk + r_in*rr*0.5"], variables={"rr": "output(0.25)", "kk": 1.5, "r_in": "input(0.0)"}),
    "opd": dict(equations=["d/dt * m_in2 = rr*in2 - m_in2"], variables={"m_in2": "output(0.5)", "in2": 0.75, "rr": "input(0.0)"}),
    "eop": dict(equations=["m_out = g*x_in*x_in"], variables={"m_out": "output(0.0)", "x_in": "input(0.0)", "g": 2.0}),
    "eoq": dict(equations=["m_out = g*x_in + g"], variables={"m_out": "output(0.0)", "x_in": "input(0.0)", "g": 0.5}),
}
# node layouts: operator sequence, source variable (op/var), target variable (op/var), constants, non-constants
LAYOUTS = [
    dict(ops=["opa"], src="opa/r", tgt="opa/r_in", consts=[("opa", "k")], others=[("opa", "r")]),
    dict(ops=["opa", "opb"], src="opb/m", tgt="opa/r_in", consts=[("opa", "k"), ("opb", "c")], others=[("opa", "r"), ("opb", "v")]),
    dict(ops=["opc"], src="opc/rr", tgt="opc/r_in", consts=[("opc", "kk")], others=[("opc", "rr")]),
    dict(ops=["opc", "opd"], src="opd/m_in2", tgt="opc/r_in", consts=[("opc", "kk"), ("opd", "in2")], others=[("opc", "rr"), ("opd", "m_in2")]),
]
DY = [0.25, 0.5, 0.75, 1.0, 1.5, 2.0, 3.0, -0.5, -1.0, 0.0]      # 0.0: a falsy value that must survive the round trip

# families of dyadic values that differ (i) only at tiny magnitudes, (ii) only beyond the 5th-15th significant digit, (iii) only
# in the sign of zero / int vs float, (iv) at huge magnitudes: distinct definitions all the same (they must get distinct keys,
# except where Python's == calls them equal: 0.0 == -0.0, 2 == 2.0)
CLOSE_FAMILIES = [
    [2.0 ** -30, 3 * 2.0 ** -31, 2.0 ** -100, 5 * 2.0 ** -103, 2.0 ** -60],
    [1.0, 1 + 2.0 ** -20, 1 + 2.0 ** -30, 1 + 2.0 ** -45, 1 - 2.0 ** -25],
    [0.0, -0.0, 2.0 ** -40, -2.0 ** -50, 2.0 ** -1040],
    [2, 2.0, 2 + 2.0 ** -30, 2 - 2.0 ** -40],
    [2.0 ** 100, 2.0 ** 100 * (1 + 2.0 ** -40), 2.0 ** 100 * (1 + 2.0 ** -30), 2.0 ** 100 * (1 - 2.0 ** -45)],
    [5 * 2.0 ** -31, 8 * 2.0 ** -31, 2 * 2.0 ** -31],
]

def gen_yaml_case(rng, mode=None):
    """mode: 'ok' (inside all guards), 'rename' (two variants of one name), 'three' (>= 3 variants), 'kind' (override of
    a non-constant variable)"""
    mode = mode or rng.choice(["ok"] * 6 + ["rename", "three", "kind", "rename", "close", "close"])
    close = mode == "close"          # same-named variants whose numbers differ only slightly (seed C15-m7): structure of `three`
    if close:
        mode = "three"
    hier = rng.random() < 0.35
    # overrides are fixed per (layout index, variant) so that same-named node templates are identical dicts in mode ok
    def node_for(L, variant):
        li = LAYOUTS.index(L)
        ops = []
        for o in L["ops"]:
            u = {}
            if variant is not None:
                for (oo, v) in L["consts"]:
                    if oo == o:
                        u[v] = variant[(li, oo, v)]
                if mode == "kind":
                    for (oo, v) in L["others"]:
                        if oo == o and variant.get((li, oo, v)) is not None:
                            u[v] = variant[(li, oo, v)]
            ops.append([o, u])
        return dict(name=f"n{li}", ops=ops)
    def new_variant():
        v = {}
        for li, L in enumerate(LAYOUTS):
            for (o, x) in L["consts"]:
                v[(li, o, x)] = rng.choice(DY)
            for (o, x) in L["others"]:
                v[(li, o, x)] = rng.choice(DY) if rng.random() < 0.6 else None
        return v
    # in mode ok every operator is written with ONE set of overrides (shared variant); shared operators opa/opc appear in
    # two layouts, so the variant must agree on them: give the same value to the same (op, var) across layouts
    def harmonise(v):
        seen = {}
        for (li, o, x), val in list(v.items()):
            if (o, x) in seen:
                v[(li, o, x)] = seen[(o, x)]
            else:
                seen[(o, x)] = val
        return v
    base_variant = harmonise(new_variant())
    nvar = {"ok": 1, "kind": 1, "rename": 2, "three": rng.randint(3, 4)}[mode]
    variants = [base_variant] + [harmonise(new_variant()) for _ in range(nvar - 1)]
    if mode == "ok" and rng.random() < 0.2:
        variants = [None]                      # no node-level overrides at all
    et_variants = [rng.choice(DY) for _ in range(nvar)]
    def edge_tpl(vi):
        if rng.random() < 0.5:
            return None
        o = rng.choice(["eop", "eoq"]) if mode in ("rename", "three") and not close else "eop"
        return dict(name="et", ops=[[o, {"g": et_variants[0 if close else vi % nvar]}]])
    def make_flat(fname, nnodes):
        nodes, lays = [], {}
        if mode == "three":
            nnodes = max(nnodes, 3)
        L0 = rng.choice(LAYOUTS)
        for i in range(nnodes):
            key = "pn"[i % 2] + str(i)
            L = rng.choice(LAYOUTS)
            vi = rng.randrange(nvar)
            if mode == "three" and i < 3:        # three nodes of one layout with three different sets of overrides
                L, vi = L0, i
            lays[key] = L
            nodes.append([key, node_for(L, variants[vi])])
        edges = []
        for _ in range(rng.randint(0, 2 * nnodes)):
            s, t = rng.choice(nodes)[0], rng.choice(nodes)[0]
            edges.append([f"{s}/{lays[s]['src']}", f"{t}/{lays[t]['tgt']}", edge_tpl(rng.randrange(nvar)),
                          {"weight": rng.choice([1.0, 1.0, 0.5, 2.0, -0.75, 0.25, 0.0, 0.0])}])
        return dict(name=fname, nodes=nodes, edges=edges, subs=[]), lays
    if not hier:
        tree, _ = make_flat("net", rng.randint(1, 4))
    else:
        subs, lays = [], {}
        nsub = rng.randint(1, 2)
        same = rng.random() < 0.4 and mode == "ok"
        first = None
        for i in range(nsub):
            if same and first is not None:
                f, l = json.loads(json.dumps(first[0])), first[1]
            else:
                f, l = make_flat("sub" if ((mode == "ok" and same) or close) else f"sub{i}", rng.randint(1, 2))
                first = first or (f, l)
            subs.append([f"s{i}", f]); lays[f"s{i}"] = l
        edges = []
        for _ in range(rng.randint(0, 3)):
            a, b = rng.choice(subs), rng.choice(subs)
            s, t = rng.choice(a[1]["nodes"])[0], rng.choice(b[1]["nodes"])[0]
            edges.append([f"{a[0]}/{s}/{lays[a[0]][s]['src']}", f"{b[0]}/{t}/{lays[b[0]][t]['tgt']}", edge_tpl(rng.randrange(nvar)),
                          {"weight": rng.choice([1.0, 0.5, 2.0, -0.75, 0.0])}])
        tree = dict(name="top", subs=subs, nodes=[], edges=edges)
    if mode == "ok":
        # same-named templates must be identical dicts: node templates are named by layout and there is one variant, edge
        # templates all use eop with the one value -> nothing to do
        pass
    if close:
        mode = "close"
        fam = rng.choice(CLOSE_FAMILIES)
        wfam = rng.choice(CLOSE_FAMILIES)
        def remap(flat):
            for _, nd in flat["nodes"]:
                for _, u in nd["ops"]:
                    for v in u:
                        u[v] = rng.choice(fam)
            for e in flat["edges"]:
                e[3]["weight"] = rng.choice(wfam)
        for _, f in tree["subs"]:
            remap(f)
        remap(tree)
    points = [[str(Fr(rng.randint(-8, 8), 8)) for _ in range(6)] for _ in range(2)]
    return dict(kind="yaml", mode=mode, ops=OPLIB, tree=tree, points=points)

def gen_npy_case(rng):
    n = rng.randint(2, 3)
    nodes = [[f"p{i}", dict(name="n0", ops=[["opa", {}]])] for i in range(n)]
    node_vars = {f"p{rng.randrange(n)}/opa/k": rng.choice(DY)} if rng.random() < 0.7 else {}
    matrix = None
    if not node_vars or rng.random() < 0.6:
        matrix = dict(source_var="opa/r", target_var="opa/r_in", nodes=[k for k, _ in nodes],
                      weight=[[rng.choice([0.0, 0.5, 2.0, -0.75, 1.0]) for _ in range(n)] for _ in range(n)])
    points = [[str(Fr(rng.randint(-8, 8), 8)) for _ in range(6)] for _ in range(2)]
    return dict(kind="npy", ops=OPLIB, tree=dict(name="net", subs=[], nodes=nodes, edges=[]), node_vars=node_vars, matrix=matrix, points=points)

MFILES = ["main", "lib1", "pkg.lib2", "pkg.lib3"]
MALLOWED = {"main": ["lib1", "pkg.lib2", "pkg.lib3"], "lib1": ["pkg.lib2", "pkg.lib3"], "pkg.lib2": ["pkg.lib3"], "pkg.lib3": ["pkg.lib2"]}

def gen_mfile_case(rng):
    """2-4 YAML files that define templates of the same names with different parameters; references bare and into other
    files, in every order, for operators, nodes, edge templates and sub-circuits; variable definitions in all their forms"""
    used = ["main"] + [f for f in MFILES[1:] if rng.random() < 0.7]
    if len(used) == 1:
        used.append("pkg.lib2")
    top_file = rng.choice([f for f in used if f in ("main", "main", "pkg.lib2")])
    def ref(cur, name, p_cross=0.45):
        cand = [f for f in MALLOWED[cur] if f in used]
        if cand and rng.random() < p_cross:
            return ["file", rng.choice(cand), name]
        return ["bare", name]
    kforms = [2.0, 3, "1.5", 0.75, "2.5", 1, 0.5]
    rng.shuffle(kforms)
    files = {}
    for i, fid in enumerate(used):
        files[fid] = {
            "opa": dict(base="OperatorTemplate", equations=["d/dt * r = -k*r + r_in"],
                        variables={"r": rng.choice(["output(0.5)", "output(0.25)", "output(float)"]), "k": kforms[i % len(kforms)],
                                   "r_in": rng.choice(["input(0.0)", "input", "input(float)"])}),
            "opc": dict(base="OperatorTemplate", equations=["d/dt * rr = (r_in - rr)*kk + r_in*rr*0.5"],
                        variables={"rr": rng.choice(["output(0.25)", "variable(0.5)"]), "kk": kforms[(i + 3) % len(kforms)], "r_in": "input(0.0)"}),
            "eop": dict(base="OperatorTemplate", equations=["m_out = g*x_in*x_in"],
                        variables={"m_out": "output(0.0)", "x_in": "input(0.0)", "g": rng.choice(DY[:8])}),
        }
    for fid in used:
        f = files[fid]
        f["pop"] = dict(base="NodeTemplate", operators=[[ref(fid, "opa"), {"k": rng.choice(DY)} if rng.random() < 0.3 else {}]])
        f["pop2"] = dict(base="NodeTemplate", operators=[[ref(fid, "opc"), {"kk": rng.choice(DY)} if rng.random() < 0.3 else {}]])
        f["et"] = dict(base="EdgeTemplate", operators=[[ref(fid, "eop"), {"g": rng.choice(DY[:8])} if rng.random() < 0.3 else {}]])
    VARS = {"pop": ("opa/r", "opa/r_in"), "pop2": ("opc/rr", "opc/r_in")}
    def edges_for(fid, nodes, prefix_of=None, k=None):
        es = []
        for _ in range(rng.randint(1, 3) if k is None else k):
            (s, sk), (t, tk) = rng.choice(nodes), rng.choice(nodes)
            es.append([f"{s}/{VARS[sk][0]}", f"{t}/{VARS[tk][1]}", ref(fid, "et", 0.4) if rng.random() < 0.5 else None,
                       {"weight": rng.choice([1.0, 0.5, 2.0, -0.75, 0.0])}])
        return es
    for fid in used:
        files[fid]["sub"] = dict(base="CircuitTemplate", circuits=[], nodes=[["p0", ref(fid, "pop")], ["p1", ref(fid, "pop2")]],
                                 edges=edges_for(fid, [("p0", "pop"), ("p1", "pop2")]))
    if rng.random() < 0.35:
        subs = [[f"s{i}", ref(top_file, "sub", 0.6)] for i in range(rng.randint(1, 2))]
        allnodes = [(f"{k}/p0", "pop") for k, _ in subs] + [(f"{k}/p1", "pop2") for k, _ in subs]
        top = dict(base="CircuitTemplate", circuits=subs, nodes=[], edges=edges_for(top_file, allnodes))
    else:
        nodes, kinds = [], []
        for i in range(rng.randint(2, 4)):
            kind = rng.choice(["pop", "pop", "pop2"])
            # the pattern of seed m5: a reference into another file followed by a bare reference to the same name
            r = ref(top_file, kind, 0.7 if i == 0 else 0.3)
            nodes.append([f"n{i}", r]); kinds.append((f"n{i}", kind))
        top = dict(base="CircuitTemplate", circuits=[], nodes=nodes, edges=edges_for(top_file, kinds))
    files[top_file]["net"] = top
    if rng.random() < 0.08:                 # a reference to a template that only exists elsewhere: from_yaml must raise
        del files[top_file][rng.choice(["pop", "pop2", "et"])]
    points = [[str(Fr(rng.randint(-8, 8), 8)) for _ in range(6)] for _ in range(2)]
    return dict(kind="mfile", files=files, top=[top_file, "net"], points=points)

# ====================================================================================================
# model side (Coq terms)
# ====================================================================================================
HEADER = """From Coq Require Import List Ascii String Bool ZArith.
From PV Require Import Replace Yaml Corr.
Import ListNotations.
Definition L := list_ascii_of_string.
Definition ostr_eqb (a : option str) (b : option str) := match a, b with Some x, Some y => str_eqb x y | None, None => true | _, _ => false end.
(* ---- rep ---- *)
Definition repI (c : str * str * str * bool * bool) := let '(eq, term, rep, rhs, lhs) := c in replace_flags is_delim term rep rhs lhs eq.
Definition repS (c : str * str * str * bool * bool) := let '(eq, term, rep, rhs, lhs) := c in Some (replace_words_sided is_delim_spec term rep rhs lhs eq).
Definition rep_prime (c : str * str * str * bool * bool) := let '(eq, term, rep, rhs, lhs) := c in fixed_prime || prime_free eq.
Definition rep_guard (c : str * str * str * bool * bool) := let '(eq, term, rep, rhs, lhs) := c in Bool.eqb rhs lhs.
Definition rep_plain (c : str * str * str * bool * bool) := let '(eq, term, rep, rhs, lhs) := c in term_ok is_delim_spec term.
(* ---- exhaustive ---- *)
Fixpoint strs (alpha : list ascii) (l : nat) : list str :=
  match l with O => [[]] | S l' => flat_map (fun c => map (cons c) (strs alpha l')) alpha end.
Definition all_upto (alpha : list ascii) (n : nat) : list str := flat_map (strs alpha) (seq 0 (S n)).
Fixpoint split_bar (cur : str) (s : str) : list str :=
  match s with [] => [cur] | c :: s' => if Ascii.eqb c "|"%char then cur :: split_bar [] s' else split_bar (cur ++ [c]) s' end.
Definition count_bad (f : str -> option str) (ins outs : list str) : nat :=
  List.length (filter (fun p => negb (ostr_eqb (f (fst p)) (Some (snd p)))) (combine ins outs)).
(* ---- upd ---- *)
Definition link := (eq_update * list (str * str))%type.
Definition lout := (list str * list (str * str) * list (str * str))%type.      (* equations, variables, base_after *)
Definition vars_eqb := list_eqb (pair_eqb str_eqb str_eqb).
Fixpoint chainI (eqs : list str) (vars : list (str * str)) (ls : list link) : option (list lout) :=
  match ls with
  | [] => Some []
  | (u, vu) :: ls' =>
    match update_op str is_delim eqs vars u vu with
    | Some (eqs', vars') => match chainI eqs' vars' ls' with
                            | Some r => Some ((eqs', vars', vars) :: r) | None => None end
    | None => None
    end
  end.
Definition update_equations_spec (base : list str) (u : eq_update) : list str :=
  match u with EqKeep => base | EqList [] => base | EqList l => l | EqEdit e add => map (update_equation_spec is_delim_spec e) base ++ add end.
Fixpoint chainS (eqs : list str) (vars : list (str * str)) (ls : list link) : list lout :=
  match ls with
  | [] => []
  | (u, vu) :: ls' =>
    let eqs' := update_equations_spec eqs u in
    let vars' := filter (fun kv => used eqs' (fst kv)) (update_map str vars vu) in
    (eqs', vars', vars) :: chainS eqs' vars' ls'
  end.
Definition lout_eqb (a b : lout) := let '(e1, v1, b1) := a in let '(e2, v2, b2) := b in list_eqb str_eqb e1 e2 && vars_eqb v1 v2 && vars_eqb b1 b2.
Definition updI (c : list str * list (str * str) * list link * list lout) :=
  let '(eqs, vars, ls, exp) := c in match chainI eqs vars ls with Some r => list_eqb lout_eqb r exp | None => false end.
Definition updS (c : list str * list (str * str) * list link * list lout) :=
  let '(eqs, vars, ls, exp) := c in list_eqb lout_eqb (chainS eqs vars ls) exp.
Definition link_plain (l : link) := match fst l with EqEdit e _ => edit_ok is_delim_spec e | _ => true end.
Definition upd_plain (c : list str * list (str * str) * list link * list lout) := let '(eqs, vars, ls, exp) := c in forallb link_plain ls.
(* ---- reuse of one edit dictionary (D99) ---- *)
Definition rout := (list str * list (str * str))%type.
Definition rcase := (list str * list (str * str) * eq_update * list (str * str) * nat * list rout)%type.
Definition orout_eqb (a : option rout) (b : rout) := match a with Some (e, v) => list_eqb str_eqb e (fst b) && vars_eqb v (snd b) | None => false end.
Fixpoint all2 {A B} (f : A -> B -> bool) (la : list A) (lb : list B) : bool :=
  match la, lb with [], [] => true | a :: la', b :: lb' => f a b && all2 f la' lb' | _, _ => false end.
Definition reuseI (c : rcase) := let '(eqs, vars, u, vu, k, exp) := c in all2 orout_eqb (derive_reusing str is_delim k eqs vars u vu) exp.
Definition reuseS (c : rcase) := let '(eqs, vars, u, vu, k, exp) := c in
  all2 orout_eqb (repeat (Some (update_equations_spec eqs u, filter (fun kv => used (update_equations_spec eqs u) (fst kv)) (update_map str vars vu))) k) exp.
Definition reuse_g (c : rcase) := let '(eqs, vars, u, vu, k, exp) := c in fixed_D99 || reuse_guard k u.
Definition reuse_plain (c : rcase) := let '(eqs, vars, u, vu, k, exp) := c in link_plain (u, vu).
(* ---- template sets over several files ---- *)
Definition mcase := (fileset * (str * str) * option den)%type.
Definition mfileI (p : mcase) := let '(fs, top, d) := p in
  match mdenote fs (fst top) (snd top), d with Some a, Some b => den_eqb a b | None, None => true | _, _ => false end.
(* ---- yaml ---- *)
Definition yamlStore (p : circ * store * den * option den) := let '(c, st, d0, d1) := p in store_eqb (snd (dump c)) st.
Definition yamlDen0 (p : circ * store * den * option den) := let '(c, st, d0, d1) := p in den_eqb (denote c) d0.
Definition yamlDen1 (p : circ * store * den * option den) :=
  let '(c, st, d0, d1) := p in
  match roundtrip c, d1 with Some c', Some d => den_eqb (denote c') d | None, None => true | _, _ => false end.
Definition yamlRT (p : circ * store * den * option den) := let '(c, st, d0, d1) := p in roundtrip_ok c.
Definition gWF (p : circ * store * den * option den) := let '(c, st, d0, d1) := p in dicts_wf c.
Definition gRen (p : circ * store * den * option den) := let '(c, st, d0, d1) := p in no_rename c.
Definition gVar (p : circ * store * den * option den) := let '(c, st, d0, d1) := p in variants_le2 c.
Definition gCrit (p : circ * store * den * option den) := let '(c, st, d0, d1) := p in no_critical_rename c.
Definition gKind (p : circ * store * den * option den) := let '(c, st, d0, d1) := p in const_overrides c.
Definition gPar (p : circ * store * den * option den) := let '(c, st, d0, d1) := p in no_parallel_tpl_edges c.
"""

def header(ctx=None):
    return HEADER

def cs(s):
    return f"(L {cstr(s)})" if s else "[]"

def csl(l):
    return clist([cs(x) for x in l])

def coq_rep(case):
    return f"({cs(case['eq'])}, {cs(case['term'])}, {cs(case['rep'])}, {cbool(case['rhs'])}, {cbool(case['lhs'])})"

def coq_equpd(e):
    if e is None:
        return "EqKeep"
    if isinstance(e, str):
        return f"(EqList {csl([e] if e else [])})"
    if isinstance(e, list):
        return f"(EqList {csl(e)})"
    rm = e.get("remove") or []
    rm = [rm] if isinstance(rm, str) else rm
    rp = clist([f"({cs(k)}, {cs(v)})" for k, v in (e.get("replace") or {}).items()])
    return f"(EqEdit (Build_edit {rp} {csl(rm)} {cs(e.get('append') or '')} {cs(e.get('prepend') or '')}) {csl(e.get('add') or [])})"

def cvars(items):
    return clist([f"({cs(k)}, {cs(vtext(v))})" for k, v in items])

def coq_upd(case, out):
    b = case["base"]
    links = clist([f"({coq_equpd(l['equations'])}, {cvars((l['variables'] or {}).items())})" for l in case["chain"]])
    exp = clist([f"({csl(l['equations'])}, {cvars(l['variables'])}, {cvars(l['base_after'])})" for l in out["links"]])
    return f"({csl(b['equations'])}, {cvars(b['variables'].items())}, {links}, {exp})"

def cspec(k, x):
    return f"({k}, {cz(x)})"

def c_attrs(at):
    return clist([f"({cs(k)}, {cz(v)})" for k, v in at])

def coq_circ(case):
    ops = case["ops"]
    def c_op(o):
        d = ops[o]
        vs = clist([f"({cs(v)}, {cspec(*PY_SPEC(s))})" for v, s in d["variables"].items()])
        return f"(mkOp {cs(d.get('name', o))} {csl(d['equations'])} {vs})"
    def c_node(nd):
        return f"(mkNode {cs(nd['name'])} {clist([f'({c_op(o)}, {c_attrs([(k, P8(v)) for k, v in u.items()])})' for o, u in nd['ops']])})"
    def c_edges(es):
        return clist([f"(mkEdge {cs(s)} {cs(t)} {'None' if tp is None else '(Some ' + c_node(tp) + ')'} {c_attrs([(k, P8(v)) for k, v in at.items()])})"
                      for s, t, tp, at in es])
    def c_nodes(ns):
        return clist([f"({cs(k)}, {c_node(nd)})" for k, nd in ns])
    tr = case["tree"]
    subs = clist([f"({cs(k)}, mkFlat {cs(f['name'])} {c_nodes(f['nodes'])} {c_edges(f['edges'])})" for k, f in tr["subs"]])
    return f"(mkCirc {cs(tr['name'])} {subs} {c_nodes(tr['nodes'])} {c_edges(tr['edges'])})"

def P8(v):
    return zcode(v)

def PY_SPEC(s):
    """harness-side reading of a variable definition in all its forms: 2.0, 3, "1.5", input, input(0.0), variable(float), ...
    (the real-side reading uses PyRates' _parse_defaults)"""
    if isinstance(s, (int, float)):
        return "VConst", P8(s)
    s = s.replace(" ", "")
    kind = "VIn" if s.startswith("input") else "VOut" if s.startswith("output") else "VState" if s.startswith("variable") else "VConst"
    inner = s[s.index("(") + 1:-1] if "(" in s else (s if kind == "VConst" else "")
    return kind, 0 if inner in ("", "float") else P8(inner)

def c_dnode(dn):
    return clist([f"({cs(n)}, {csl(eqs)}, {clist([f'({cs(v)}, {cspec(k, x)})' for v, k, x in vs])})" for n, eqs, vs in dn])

def c_den(w):
    nodes = clist([f"({cs(k)}, {c_dnode(dn)})" for k, dn in w[0]])
    edges = clist([f"({cs(s)}, {cs(t)}, {'(@None dnode)' if tp is None else '(Some ' + c_dnode(tp) + ')'}, {c_attrs(at)})" for s, t, tp, at in w[1]])
    return f"({nodes}, {edges})"

def c_store(st):
    out = []
    for e in st:
        if e[1] == "op":
            out.append(f"({cs(e[0])}, EOp {csl(e[2])} {clist([f'({cs(v)}, {cspec(k, x)})' for v, k, x in e[3]])})")
        elif e[1] in ("node", "edge"):
            ops = clist([f"({cs(k)}, ({c_attrs(u)} : upd))" for k, u in e[2]])
            out.append(f"({cs(e[0])}, ENode {cbool(e[1] == 'edge')} {ops})")
        else:
            kv = lambda l: clist([f"({cs(k)}, {cs(v)})" for k, v in l])
            es = clist([f"({cs(s)}, {cs(t)}, {'(@None str)' if tp is None else '(Some ' + cs(tp) + ')'}, {c_attrs(at)})" for s, t, tp, at in e[4]])
            out.append(f"({cs(e[0])}, ECirc {kv(e[2])} {kv(e[3])} {es})")
    return clist(out)

def coq_reuse(case, out):
    b = case["base"]
    exp = clist([f"({csl(d['equations'])}, {cvars(d['variables'])})" for d in out["derived"]])
    return (f"({csl(b['equations'])}, {cvars(b['variables'].items())}, {coq_equpd(case['edit'])}, {cvars((case['variables'] or {}).items())}, "
            f"{cnat(case['times'])}, {exp})")

def c_ref(r):
    return "None" if r is None else f"(RBare {cs(r[1])})" if r[0] == "bare" else f"(RFile {cs(r[1])} {cs(r[2])})"

def coq_mfile(case, out):
    files = []
    for fid, tpls in case["files"].items():
        es = []
        for name, e in tpls.items():
            if e["base"] == "OperatorTemplate":
                vs = clist([f"({cs(v)}, {cspec(*PY_SPEC(s))})" for v, s in e["variables"].items()])
                es.append(f"({cs(name)}, MOp {csl(e['equations'])} {vs})")
            elif e["base"] in ("NodeTemplate", "EdgeTemplate"):
                ops = clist([f"({c_ref(r)}, ({c_attrs([(k, P8(v)) for k, v in u.items()])} : upd))" for r, u in e["operators"]])
                es.append(f"({cs(name)}, MNode {cbool(e['base'] == 'EdgeTemplate')} {ops})")
            else:
                kv = lambda l: "(" + clist([f"({cs(k)}, {c_ref(r)})" for k, r in l]) + " : list (str * ref))"
                eds = clist([f"({cs(s)}, {cs(t)}, {'(@None ref)' if r is None else '(Some ' + c_ref(r) + ')'}, {c_attrs([(k, P8(v)) for k, v in at.items()])})"
                             for s, t, r, at in e["edges"]])
                es.append(f"({cs(name)}, MCirc {kv(e['circuits'])} {kv(e['nodes'])} ({eds} : list medge))")
        files.append(f"({cs(fid)}, {clist(es)})")
    d = "(@None den)" if out.get("walk_loaded") is None else f"(Some {c_den(out['walk_loaded'])})"
    return f"({clist(files)}, ({cs(case['top'][0])}, {cs(case['top'][1])}), {d})"

def coq_yaml(case, out):
    d1 = "(@None den)" if out.get("walk1") is None else f"(Some {c_den(out['walk1'])})"
    return f"({coq_circ(case)}, {c_store(out['store'])}, {c_den(out['walk0'])}, {d1})"

def eval_lists(ctx, tag, ty, tests, items, shard):
    """evaluate the boolean tests on the items inside Coq; returns one index list (of the False ones) per test"""
    res = [[] for _ in tests]
    for s in range(0, len(items), shard):
        body = f"Definition cases : list ({ty}) := " + clist(items[s:s + shard]) + ".\n" + "".join(f"Eval vm_compute in (mismatches {t} cases).\n" for t in tests)
        ls = parse_nat_lists(coq_eval(ctx, f"c15_{tag}_{s}", header(), body))
        assert len(ls) == len(tests), (tag, len(ls))
        for k in range(len(tests)):
            res[k] += [s + i for i in ls[k]]
    return res

def coq_exhaustive(ctx, job, out):
    """the Coq model on ALL strings up to small_len for one term: mismatch counts against the real outputs"""
    term, rep, small = job["term"], job["rep"], job["small_len"]
    body = f"Definition ins := all_upto (L {cstr(job.get('alpha', ALPHA))}) {small}.\n"
    evals = []
    for fi, (rhs, lhs) in enumerate(FLAGS):
        outs = out["small"][fi].split(SEP)          # literals of ~20 kB (a single huge literal overflows coqc's stack)
        body += (f"Definition outs{fi} := " + " ++ ".join(f"split_bar [] (L {cstr(SEP.join(outs[a:a + 3000]))})" for a in range(0, len(outs), 3000)) + ".\n")
        body += (f"Eval vm_compute in [List.length ins; List.length outs{fi}; "
                 f"count_bad (replace_flags is_delim {cs(term)} {cs(rep)} {cbool(rhs)} {cbool(lhs)}) ins outs{fi}; "
                 f"count_bad (fun s => Some (replace_words_sided is_delim {cs(term)} {cs(rep)} {cbool(rhs)} {cbool(lhs)} s)) ins outs{fi}].\n")
    ls = parse_nat_lists(coq_eval(ctx, f"c15_exh_{TERMS.index(term)}_{len(rep)}", header(), body))
    assert len(ls) == 4 and all(l[0] == l[1] for l in ls), ls
    return dict(strings=ls[0][0], impl_bad=[l[2] for l in ls], spec_bad=[l[3] for l in ls])

# ====================================================================================================
# verdicts from the real outputs (Spec level, yaml stream)
# ====================================================================================================
def yaml_spec_ok(out):
    if isinstance(out, dict) and "err" in out:
        return False
    return (out.get("walk1") is not None and out["walk1"] == out["walk0"] and out.get("vf1") is not None and out["vf1"] == out["vf0"]
            and out["walk0_after_dump"] == out["walk0"] and out["raw0_after_dump"] == out["raw0"])

# ====================================================================================================
# check
# ====================================================================================================
def check(ctx):
    pr = proof_gate(ctx, NEEDS)
    problem = proof_problem(pr)
    quick = ctx.tier == "quick"
    n_rep, n_upd, n_yaml = (400, 160, 72) if quick else (3000, 1200, 500)
    n_reuse, n_npy, n_mfile = (60, 6, 40) if quick else (400, 30, 300)
    sw = read_switches()
    big_len, flag_len, small_len = (6, 5, 4) if quick else (7, 6, 5)
    if ctx.replay:
        rp = json.load(open(ctx.replay))
        cases = [rp["case"]] if "case" in rp else []
    else:
        cases = load_corpus("C15")
        # replacement X: the 8-letter alphabet at full length; replacement "" (remove): the 12-letter alphabet, one shorter
        cases += [dict(kind="exh", term=t, rep=r, alpha=ALPHA2 if r == "" else ALPHA, big_len=big_len if r == "X" else big_len - 1,
                       flag_len=flag_len if r == "X" else flag_len - 1, small_len=small_len if r == "X" else small_len - 1)
                  for t in TERMS for r in (["X", ""] if quick else ["X", "", "rr"])]
        cases += [gen_rep_case(ctx.rng) for _ in range(n_rep)]
        cases += [gen_upd_case(ctx.rng) for _ in range(n_upd)]
        cases += [gen_reuse_case(ctx.rng) for _ in range(n_reuse)]
        cases += [gen_npy_case(ctx.rng) for _ in range(n_npy)]
        cases += [gen_mfile_case(ctx.rng) for _ in range(n_mfile)]
        cases += [dict(kind="err", what=w) for w in ERR_EXPECTED]
        for _ in range(3 if quick else 12):
            n = ctx.rng.randint(2, 3)
            cases.append(dict(kind="pop", n=n, k=[ctx.rng.choice(DY[:7]) for _ in range(n)],
                              weights=[[ctx.rng.choice([0.0, 0.5, 2.0, -0.75, 1.0]) for _ in range(n)] for _ in range(n)]))
        cases += [gen_yaml_case(ctx.rng) for _ in range(n_yaml)]
    # exhaustive jobs first: their mismatching inputs become single cases with their own replay files
    outs = [None] * len(cases)
    exh = [i for i, c in enumerate(cases) if c["kind"] == "exh"]
    for i, r in zip(exh, run_impl(ctx, "c15", "impl", [cases[i] for i in exh], per_case_timeout=1500)):
        outs[i] = r
        if not (isinstance(r, dict) and "err" in r):
            for s, rhs, lhs, _ in (r["bad_spec"] + r["bad_impl"])[:4]:
                cases.append(dict(kind="rep", eq=s, term=cases[i]["term"], rep=cases[i]["rep"], rhs=rhs, lhs=lhs, origin="exhaustive"))
                outs.append(None)
    rest = [i for i, c in enumerate(cases) if c["kind"] != "exh"]
    for i, r in zip(rest, run_impl(ctx, "c15", "impl", [cases[i] for i in rest], per_case_timeout=120)):
        outs[i] = r
    crashed = [i for i, r in enumerate(outs) if isinstance(r, dict) and "err" in r]
    bad_spec, bad_impl, gv = [], [], {}
    exercised = {}
    stats = dict(exhaustive_real_calls=0, exhaustive_coq_evaluations=0, sided_flag_mismatches_on_exhaustive_space=0)
    # ---- exh
    from concurrent.futures import ThreadPoolExecutor
    with ThreadPoolExecutor(max_workers=min(4, int(os.environ.get("VERIF_JOBS", "4")))) as ex:
        coq_res = dict(zip([i for i in exh if i not in crashed],
                           ex.map(lambda i: coq_exhaustive(ctx, cases[i], outs[i]), [i for i in exh if i not in crashed])))
    for i in exh:
        r = outs[i]
        if i in crashed:
            continue
        stats["exhaustive_real_calls"] += r["n"]
        stats["sided_flag_mismatches_on_exhaustive_space"] += r["sided_bad"]
        m = coq_res[i]
        stats["exhaustive_coq_evaluations"] += 4 * m["strings"]
        # Spec = sided words substitution for every flag setting (since fix D52 also for the one-sided flags)
        # mismatching inputs found by the sweep were turned into single `rep` cases above (they carry the verdict and get the
        # replay files, one concrete string each); the job itself is flagged only when nothing could be extracted
        derived = bool(r["bad_spec"] or r["bad_impl"])
        if not derived and (any(m["spec_bad"]) or r["sided_bad"]):
            bad_spec.append(i)
        if not derived and any(m["impl_bad"]):
            bad_impl.append(i)
        r["coq"] = m
        r["small"] = "(omitted)"
    # ---- rep
    idx = [i for i, c in enumerate(cases) if c["kind"] == "rep" and i not in crashed]
    if idx:
        items = [f"({coq_rep(cases[i])}, {cs(outs[i])})" for i in idx]
        bI, bS, g, pl, pr = eval_lists(ctx, "rep", "(str * str * str * bool * bool) * str", ["(fun p => ostr_eqb (repI (fst p)) (Some (snd p)))", "(fun p => ostr_eqb (repS (fst p)) (Some (snd p)))",
                                                   "(fun p => rep_guard (fst p))", "(fun p => rep_plain (fst p))", "(fun p => rep_prime (fst p))"], items, 400)
        for k in bI:
            bad_impl.append(idx[k])
        for k in pr:                         # the derivative mark ' occurs and is not (yet) a delimiter of the code
            gv.setdefault(idx[k], []).append("prime_free")
        noplain = set(pl)
        for k in bS:                         # terms containing delimiters are outside the statement (no Spec); Impl still compared
            if k not in noplain:
                bad_spec.append(idx[k])
    # ---- upd
    idx = [i for i, c in enumerate(cases) if c["kind"] == "upd" and i not in crashed]
    if idx:
        items = [coq_upd(cases[i], outs[i]) for i in idx]
        bI, bS, pl = eval_lists(ctx, "upd", "list str * list (str * str) * list link * list lout", ["updI", "updS", "upd_plain"], items, 150)
        noplain = set(pl)
        for k in bI:
            bad_impl.append(idx[k])
        for k in bS:
            if k not in noplain:
                bad_spec.append(idx[k])
        if not sw.get("fixed_prime"):
            for i in idx:
                if "'" in json.dumps(cases[i]):
                    gv.setdefault(i, []).append("prime_free")
        for k, i in enumerate(idx):          # YAML `base:` chain = Python update_template chain (both are the real code)
            o = outs[i]
            if (o["yaml"]["equations"] != o["links"][-1]["equations"] or o["yaml"]["variables"] != o["links"][-1]["variables"]):
                bad_spec.append(i)
    # ---- reuse (D99)
    idx = [i for i, c in enumerate(cases) if c["kind"] == "reuse" and i not in crashed]
    if idx:
        items = [coq_reuse(cases[i], outs[i]) for i in idx]
        bI, bS, g, pl = eval_lists(ctx, "reuse", "rcase", ["reuseI", "reuseS", "reuse_g", "reuse_plain"], items, 150)
        noplain = set(pl)
        for k in bI:
            bad_impl.append(idx[k])
        for k in g:
            gv.setdefault(idx[k], []).append("edit_dict_not_reused")
        for k in bS:
            if k not in noplain:
                bad_spec.append(idx[k])
        for k, i in enumerate(idx):          # Spec: the caller's dictionary is left as it was; Impl: 'add' is popped unless repaired
            kept = outs[i]["edit_after"] == cases[i]["edit"]
            popped = outs[i]["edit_after"] == {kk: v for kk, v in cases[i]["edit"].items() if kk != "add"}
            if not kept:
                bad_spec.append(i)
                gv.setdefault(i, [])
                if "add" in cases[i]["edit"] and "edit_dict_not_reused" not in gv[i] and not sw.get("fixed_D99"):
                    gv[i].append("edit_dict_not_reused")
            if not (kept if (sw.get("fixed_D99") or "add" not in cases[i]["edit"]) else popped):
                bad_impl.append(i)
    # ---- numpy values
    for i, c in enumerate(cases):
        if c["kind"] != "npy" or i in crashed:
            continue
        o = outs[i]
        ok = "dump_error" not in o and o.get("vf1") == o["vf0"]
        if not ok:
            bad_spec.append(i)
            gv.setdefault(i, []).append("python_values")
        expected = ok if sw.get("fixed_numpy") else o.get("dump_error") == "RepresenterError"
        if not expected:
            bad_impl.append(i)
    # ---- populations / connections: no YAML representation; since D116 to_yaml refuses them (Yaml.dump_populations)
    for i, c in enumerate(cases):
        if c["kind"] != "pop" or i in crashed:
            continue
        o = outs[i]
        refused = o.get("dump_error") == "PyRatesException"
        # Spec: refused loudly, or the same dynamics after the round trip — never a silently different circuit
        if not (refused or ("dump_error" not in o and o.get("vf1") == o["vf0"])):
            bad_spec.append(i)
        # mechanism: refusal (repaired) / the population's base node written as one plain node, no connections (before D116)
        expected = refused if sw.get("fixed_populations_refused") else ("dump_error" not in o and o.get("vf1") == o["vf_collapsed"])
        if not expected:
            bad_impl.append(i)
    # ---- loud failures
    for i, c in enumerate(cases):
        if c["kind"] == "err" and i not in crashed and outs[i] != ERR_EXPECTED[c["what"]]:
            bad_spec.append(i); bad_impl.append(i)
    # ---- template sets over several files
    idx = [i for i, c in enumerate(cases) if c["kind"] == "mfile" and i not in crashed]
    if idx:
        items = [coq_mfile(cases[i], outs[i]) for i in idx]
        (bI,) = eval_lists(ctx, "mfile", "mcase", ["mfileI"], items, 25)
        for k in bI:
            bad_impl.append(idx[k]); bad_spec.append(idx[k])          # the multi-file model is Spec and Impl at once
        for i in idx:                           # YAML-defined = Python-defined: same templates, same vector field
            o = outs[i]
            if o.get("walk_loaded") != o.get("walk_built") or o.get("vf_loaded") != o.get("vf_built"):
                bad_spec.append(i)
        stats["mfile_load_errors_predicted"] = sum(1 for i in idx if outs[i].get("walk_loaded") is None)
    # ---- yaml
    idx = [i for i, c in enumerate(cases) if c["kind"] == "yaml" and i not in crashed]
    if idx:
        items = [coq_yaml(cases[i], outs[i]) for i in idx]
        bSt, bD0, bD1, rt, gW, gR, gV, gK, gP, gC = eval_lists(ctx, "yaml", "circ * store * den * option den", ["yamlStore", "yamlDen0", "yamlDen1", "yamlRT", "gWF", "gRen", "gVar", "gKind", "gPar", "gCrit"], items, 40)
        assert not gW, "generator produced a dictionary with duplicate keys"
        for k in set(bSt) | set(bD0) | set(bD1):
            bad_impl.append(idx[k])
        for k in gC:                            # the only guard with a listed finding
            gv.setdefault(idx[k], []).append("no_critical_rename")
        # classes of former findings (repaired by D66, D67, D53, D68), still generated; counted for the evidence only
        exercised = dict(three_or_more_variants=len(gV), some_template_renamed=len(gR), override_of_non_constant=len(gK), parallel_template_edges=len(gP))
        model_rt_bad = set(rt)
        for k, i in enumerate(idx):
            ok = yaml_spec_ok(outs[i])
            if not ok:
                bad_spec.append(i)
            if outs[i]["raw0_after_dump"] != outs[i]["raw0"] or outs[i]["walk0_after_dump"] != outs[i]["walk0"]:
                gv.pop(i, None)              # to_yaml altered the templates it was given: no known finding covers that
            # the model's own verdict on the round trip must be the real one wherever the real denotations were compared
            if ok and k in model_rt_bad:
                bad_impl.append(i)
        stats["yaml_roundtrip_changed_by_model"] = len(model_rt_bad)
    bad_spec, bad_impl = sorted(set(bad_spec)), sorted(set(bad_impl))
    # a known finding describes exactly what the mechanism model (with the defect in it) does: a case outside a guard on
    # which the real code does NOT do what the model says is a different failure and is not attributed to the finding
    for i in bad_impl:
        gv.pop(i, None)
    kinds = {k: sum(1 for c in cases if c["kind"] == k) for k in ("exh", "rep", "upd", "reuse", "npy", "mfile", "err", "pop", "yaml")}
    ctx.note(f"E1: {kinds}; exhaustive: {stats['exhaustive_real_calls']} calls of the real replace, {stats['exhaustive_coq_evaluations']} evaluations of the "
             f"Coq model; impl-vs-Impl mismatches {len(bad_impl)}, impl-vs-Spec mismatches {len(bad_spec)} (outside guards: "
             f"{sum(1 for i in bad_spec if gv.get(i))}), harness/worker errors {len(crashed)}")
    def show(c):
        r = run_impl(ctx, "c15", "impl", [c], nworkers=1, per_case_timeout=1500)[0]
        if isinstance(r, dict) and "small" in r:
            r["small"] = "(omitted)"
        d = dict(implementation_output=r)
        if c["kind"] == "rep":
            d["words_spec"] = py_words_sided(c["eq"], c["term"], c["rep"], c["rhs"], c["lhs"])
            d["model_loop"] = py_loop(c["eq"], c["term"], c["rep"], c["rhs"], c["lhs"])
        return d
    def witness_check(f):
        w = json.load(open(os.path.join(VERIF, f["witness"])))
        r = run_impl(ctx, "c15", "impl", [w], nworkers=1)[0]
        if w["kind"] == "rep":
            return r != py_words_sided(w["eq"], w["term"], w["rep"], w["rhs"], w["lhs"])
        if w["kind"] == "reuse":
            return r["edit_after"] != w["edit"] or any(d != r["derived"][0] for d in r["derived"])
        if w["kind"] == "npy":
            return "dump_error" in r or r.get("vf1") != r["vf0"]
        return not yaml_spec_ok(r)
    conclude(ctx, cases=cases, impl_out=outs, bad_spec=bad_spec, bad_impl=bad_impl, crashed=crashed, problem=problem, guard_viol=gv,
             spec_name="the C15 specification (word-wise substitution / override algebra / denotation-preserving round trip)",
             impl_name="the mechanism models Replace.loopA, Replace.update_op, Yaml.dump/load", show=show, witness_check=witness_check)
    nt = set()
    for i, c in enumerate(cases):
        if i in crashed:
            continue
        if c["kind"] == "rep":
            w = py_words_replace(c["eq"], c["term"], c["rep"])
            if w != c["eq"] and w != c["eq"].replace(c["term"], c["rep"]):
                nt.add(canon(c))
        if c["kind"] == "upd" and any(l["equations"] != c["base"]["equations"] for l in outs[i]["links"]):
            nt.add(canon(c))
        if c["kind"] == "reuse" and c["times"] >= 2 and c["edit"].get("add"):
            nt.add(canon(c))
        if c["kind"] == "mfile" and '"file"' in json.dumps(c["files"]) and '"bare"' in json.dumps(c["files"][c["top"][0]]["net"]):
            nt.add(canon(c))
        if c["kind"] == "yaml" and (len(c["tree"]["nodes"]) + sum(len(f["nodes"]) for _, f in c["tree"]["subs"]) >= 2) and \
                (c["tree"]["edges"] or any(f["edges"] for _, f in c["tree"]["subs"])):
            nt.add(canon(c))
    modes = {}
    for c in cases:
        if c["kind"] == "yaml":
            modes[c.get("mode", "corpus")] = modes.get(c.get("mode", "corpus"), 0) + 1
    sample = [c for c in cases if c["kind"] == "rep"][:2] + [c for c in cases if c["kind"] == "upd"][:1]
    write_evidence(ctx, evaluations=len(cases) - len(exh) + stats["exhaustive_real_calls"], distinct_nontrivial=len(nt),
                   rule="rep: the equation contains the term both as a whole word and inside a longer identifier (word-wise substitution differs from "
                        "str.replace) ; upd: the edit changes at least one equation; yaml: >= 2 nodes and >= 1 edge; distinct canonical JSON. "
                        "The exhaustive stream is counted in `evaluations` only.",
                   samples=sample,
                   extra=dict(streams=kinds, yaml_modes=modes, exhaustive_space=dict(alphabet=ALPHA, second_alphabet_for_replacement_empty_one_shorter=ALPHA2, terms=TERMS, replacements=["X", ""] if quick else ["X", "", "rr"],
                                                                               real_function_max_len=big_len, real_function_one_sided_flags_max_len=flag_len,
                                                                               coq_model_max_len=small_len, **stats,
                              note="Coq model (loopA with flags; replace_words_sided for equal flags) evaluated by vm_compute on ALL strings up to coq_model_max_len, "
                                   "expected outputs = outputs of the real function, mismatch counts computed inside Coq (all 0). On the larger space up to "
                                   "real_function_max_len the real function is compared in Python with py_words_replace (equal flags) and py_loop (one-sided flags), "
                                   "Python transcriptions of Replace.replace_words / Replace.loopA; the transcriptions are tied to the Coq model only through the "
                                   "smaller space, where model = real = transcription."),
                              impl_vs_model_mismatches=len(bad_impl), impl_vs_spec_mismatches=len(bad_spec),
                              outside_guards={g: sum(1 for v in gv.values() if g in v) for g in sorted({g for v in gv.values() for g in v})}, switches=sw,
                              former_finding_classes_exercised=exercised),
                   trusted_base=["numpy float64 arithmetic is exact on the generated dyadic data (vector fields are compared as exact rationals)",
                                 "harness reading of template objects (walk), of the written YAML file (read_store, ruamel safe loader) and of variable "
                                 "definitions (PyRates' own _parse_defaults)",
                                 "Python transcriptions py_words_replace / py_loop on the exhaustive space beyond coq_model_max_len"],
                   assumptions=["replace: term non-empty and free of allowed_follow_ops characters (an identifier); terms with delimiters are compared with the "
                                "mechanism model only", "Yaml.v covers hierarchy depth 0 and 1, operators/nodes/edges with templates and attributes; values are dyadic floats of any magnitude, represented by an injective integer code",
                                "equal denotation => equal dynamics is not proved (no expression semantics in this model): it is checked by the exact vector-field "
                                "comparison of original and re-loaded circuit on every generated case"])
