#!/venv/bin/python
"""Diagnostic (not a check): which statements of the code a property is anchored in do the implementation runs of its
check execute?  Usage:  VERIF_COVERAGE=/some/dir ./check Cnn ;  harness/anchor_coverage.py Cnn /some/dir
The anchors of properties.jsonl give line ranges at the pinned commit; they are mapped to the enclosing functions there and
those functions are looked up by qualified name in the current tree.  Prints, per anchored function, the statements missed."""
import ast, json, os, re, subprocess, sys

VERIF = os.path.dirname(os.path.dirname(os.path.abspath(__file__)))
REPO = os.environ.get("VERIF_REPO", "/repo")
PINNED = json.load(open("/root/.vp/BASELINE.json")).get("commit", "faf2d7a") if os.path.exists("/root/.vp/BASELINE.json") else "faf2d7a"


def funcs(src):
    out = []
    def walk(node, prefix):
        for ch in ast.iter_child_nodes(node):
            if isinstance(ch, (ast.FunctionDef, ast.AsyncFunctionDef, ast.ClassDef)):
                q = prefix + ch.name
                if not isinstance(ch, ast.ClassDef):
                    out.append((q, ch.lineno, ch.end_lineno))
                walk(ch, q + ".")
    walk(ast.parse(src), "")
    return out


def pinned_src(path):
    for c in (PINNED, "faf2d7a"):
        r = subprocess.run(["git", "-C", REPO, "show", f"{c}:{path}"], capture_output=True, text=True)
        if r.returncode == 0:
            return r.stdout
    return None


def anchored_functions(pid):
    prop = next(json.loads(l) for l in open(os.path.join(VERIF, "properties.jsonl")) if json.loads(l)["id"] == pid)
    wanted = {}
    items = prop["anchors"].get("state", []) + prop["anchors"].get("mechanism", [])
    default_file = None
    for it in items:
        for part in it.get("where", "").split(";"):
            part = part.strip()
            m = re.match(r"(?:(\S+\.py):)?([\d,\-\s]+)$", part)
            if not m:
                continue
            f = m.group(1) or default_file
            if f and not f.startswith("pyrates/"):
                # bare file name: resolve against the files list
                cands = [x for x in prop["anchors"]["files"] if x.endswith("/" + f)] or \
                        [x for x in subprocess.run(["git", "-C", REPO, "ls-files", f"*/{f}"], capture_output=True, text=True).stdout.split()]
                f = cands[0] if cands else None
            if not f:
                continue
            default_file = f
            src = pinned_src(f)
            if src is None:
                continue
            fl = funcs(src)
            for rng in m.group(2).split(","):
                rng = rng.strip()
                if not rng:
                    continue
                a, _, b = rng.partition("-")
                a = int(a); b = int(b or a)
                for q, lo, hi in fl:
                    if lo <= b and a <= hi:
                        # innermost functions only: skip an enclosing function if a nested one also matches fully
                        wanted.setdefault(f, set()).add(q)
    return wanted


def main():
    pid, cov = sys.argv[1], sys.argv[2]
    import coverage
    c = coverage.Coverage(data_file=os.path.join(cov, ".coverage"), config_file=os.path.join(cov, "coveragerc"))
    c.combine(keep=True)
    c.load()
    total_s = total_m = 0
    lines = []
    if pid == "ALL":  # union over all properties: statements no check's implementation run executes
        anchored = {}
        for l in open(os.path.join(VERIF, "properties.jsonl")):
            for f, qs in anchored_functions(json.loads(l)["id"]).items():
                anchored.setdefault(f, set()).update(qs)
    else:
        anchored = anchored_functions(pid)
    for f, qs in sorted(anchored.items()):
        path = os.path.join(REPO, f)
        if not os.path.exists(path):
            continue
        try:
            _, stmts, _, missing, _ = c.analysis2(path)
        except Exception as e:
            lines.append(f"{f}: not measured ({e})")
            stmts, missing = [], []
            continue
        cur = {q: (lo, hi) for q, lo, hi in funcs(open(path).read())}
        for q in sorted(qs):
            if q not in cur:
                lines.append(f"{f}::{q}: no longer present under this name")
                continue
            lo, hi = cur[q]
            s = [x for x in stmts if lo <= x <= hi]
            m = [x for x in missing if lo <= x <= hi]
            total_s += len(s); total_m += len(m)
            lines.append(f"{f}::{q} [{lo}-{hi}] statements={len(s)} missed={len(m)}" + (f" lines={m}" if m else ""))
    print(f"{pid}: anchored statements {total_s}, executed {total_s - total_m}, missed {total_m}")
    print("\n".join(lines))


if __name__ == "__main__":
    main()
