"""C09 — discrete edge delays shift the source by round(delay/dt) steps.
Model: coq/theories/Ring.v (Impl: `_collect_delays_from_edges` / `_add_edge_buffer` bookkeeping + ring-buffer machine + Euler/Heun
loop; Spec: delayed recurrence); theorems: coq/properties/C09.v.
Tie: E1 — run(solver='euler'|'heun') of random two-layer delayed circuits (sources x' = k, targets v' = r_in), exact rationals."""
import json, os
from fractions import Fraction as Fr
from core import *

NEEDS = ["Ring", "RingProofs", "Corr", "Gamma"]      # Gamma: the guard of the adaptive-solver support stream

# ---------------------------------------------------------------------------------------------- impl side (worker)
def impl(case):
    """case: dt, steps, vectorize, solver, nodes=[{kind:'s'|'t', cls:0|1, k, x0}], edges=[[src, tgt, w, dspec]]
    dspec: 'nokey' (edge dict has no delay entry) | 'none' (delay: None written out) | 'p/q' (delay in time units).
    Returns the trajectory rows [[value of node 0, node 1, ...] per stored step] as exact rationals, or {"raised": class}."""
    import warnings
    warnings.filterwarnings("ignore")
    import numpy as np
    from pyr import reset_pyrates, frac
    reset_pyrates()
    try:
        from pyrates import CircuitTemplate, NodeTemplate, OperatorTemplate
        from pyrates.ir.circuit import PyRatesException
        NCLS = 4
        opname = {(kd, c): f"{kd}{'abcd'[c]}" for kd in "st" for c in range(NCLS)}
        ops = {}
        for c in range(NCLS):
            ops[("s", c)] = OperatorTemplate(opname[("s", c)], equations=["x' = " + " + ".join(["k"] * (c + 1))],
                                             variables={"x": "output(0.0)", "k": 1.0})
            ops[("t", c)] = OperatorTemplate(opname[("t", c)], equations=["x' = " + " + ".join(["r_in"] * (c + 1))],
                                             variables={"x": "output(0.0)", "r_in": "input(0.0)"})
        # a "tap": a second operator on the source node that reads x through the operator graph (w' = x)
        tap_op = OperatorTemplate("tp", equations=["w' = x"], variables={"w": "variable(0.0)", "x": "input(0.0)"})
        tapped = {s_: w0 for s_, w0 in case.get("taps", [])}
        nodes, outs = {}, {}
        # a relay: an ALGEBRAIC output z = g * r_in (kind 'r')
        relay_op = OperatorTemplate("ra", equations=["z = g * r_in"], variables={"z": "output(0.0)", "r_in": "input(0.0)", "g": 1.0})
        ops[("r", 0)] = relay_op; opname[("r", 0)] = "ra"
        # twins: two model source nodes (ix, iu) that are the two state variables x, u of ONE operator on ONE node
        twin_op = OperatorTemplate("tw", equations=["x' = k + k + k", "u' = m + m + m + m"],
                                   variables={"x": "output(0.0)", "u": "variable(0.0)", "k": 1.0, "m": 1.0})
        twin_u = {iu: ix for ix, iu in case.get("twins", [])}; twin_x = {ix: iu for ix, iu in case.get("twins", [])}
        for i, n in enumerate(case["nodes"]):
            if i in twin_u:
                outs[f"n{i}"] = f"n{twin_u[i]}/tw/u"
                continue
            if i in twin_x:
                nu = case["nodes"][twin_x[i]]
                nodes[f"n{i}"] = NodeTemplate(f"N{i}", operators={twin_op: {"x": float(Fr(n["x0"])), "k": float(Fr(n["k"])),
                                                                             "u": float(Fr(nu["x0"])), "m": float(Fr(nu["k"]))}})
                outs[f"n{i}"] = f"n{i}/tw/x"
                continue
            key = (n["kind"], n["cls"])
            vals = {"x": float(Fr(n["x0"]))}
            if n["kind"] == "s":
                vals["k"] = float(Fr(n["k"]))
            if n["kind"] == "r":
                vals = {"g": float(Fr(n["g"]))}
            opd = {ops[key]: vals}
            if i in tapped:
                opd[tap_op] = {"w": float(Fr(tapped[i]))}
            nodes[f"n{i}"] = NodeTemplate(f"N{i}", operators=opd)
            if n["kind"] != "r":          # (an algebraic variable cannot be requested as an output of run())
                outs[f"n{i}"] = f"n{i}/{opname[key]}/x"
        for j, (s_, w0) in enumerate(case.get("taps", [])):
            outs[f"tap{j}"] = f"n{s_}/tp/w"
        edges = []
        for s, t, w, ds in case["edges"]:
            d = {"weight": float(Fr(w))}
            if ds == "none":
                d["delay"] = None
            elif ds != "nokey":
                d["delay"] = int(Fr(ds)) if case.get("int_delays") and Fr(ds).denominator == 1 else float(Fr(ds))
            tk = opname[(case["nodes"][t]["kind"], case["nodes"][t]["cls"])]
            if s in twin_u or s in twin_x:
                src = f"n{twin_u.get(s, s)}/tw/{'u' if s in twin_u else 'x'}"
            else:
                sk = opname[(case["nodes"][s]["kind"], case["nodes"][s]["cls"])]
                src = f"n{s}/{sk}/{'z' if case['nodes'][s]['kind'] == 'r' else 'x'}"
            edges.append((src, f"n{t}/{tk}/r_in", None, d))
        # spread sinks: extra integrator nodes fed over (delay, spread) edges; they are not observed and not part of the model — they
        # only make the source variable carry a gamma-kernel edge next to its discrete delays (which must keep their delays: D114)
        for j, (s_, d_, sp_) in enumerate(case.get("spread_sinks", [])):
            nodes[f"snk{j}"] = NodeTemplate(f"SNK{j}", operators={ops[("t", 0)]: {"x": 0.0}})
            sk = opname[(case["nodes"][s_]["kind"], case["nodes"][s_]["cls"])]
            edges.append((f"n{s_}/{sk}/x", f"snk{j}/{opname[('t', 0)]}/r_in", None,
                          {"weight": 1.0, "delay": float(Fr(d_)), "spread": float(Fr(sp_))}))
        dt = float(Fr(case["dt"]))
        c = CircuitTemplate("c", nodes=nodes, edges=edges)
        # the documented `decorator=` option of run() / get_run_func(): a pass-through wrapper must not change anything (in particular
        # it must not make the vector field run an extra time: the ring buffers of discrete delays are its only state)
        # backend: default (numpy) or Fortran (f2py build, needs /venv/bin on PATH; a file name of its own per circuit: a second
        # Fortran build under one name in one process would hand back the first routine)
        backend_kw = {"backend": "default"}
        if case.get("backend") == "fortran":
            import hashlib
            backend_kw = {"backend": "fortran", "file_name": "f" + hashlib.sha1(json.dumps(case, sort_keys=True).encode()).hexdigest()[:10]}
        deco_kw = {}
        if case.get("decorator"):
            def passthrough(f, tag=None):
                def wrapped(*args):
                    return f(*args)
                return wrapped
            deco_kw = {"decorator": passthrough}
            if case["decorator"] == "kwargs":
                deco_kw["decorator_kwargs"] = {"tag": 1}
        try:
            r = c.run(simulation_time=case["steps"] * dt, step_size=dt, solver=case["solver"], outputs=outs,
                      vectorize=case["vectorize"], float_precision="float64", clear=True, verbose=False,
                      in_place=False, **backend_kw, **deco_kw)
        except (IndexError, ValueError, KeyError, TypeError, AttributeError, NameError, PyRatesException) as e:
            return {"raised": type(e).__name__, "msg": str(e)[:160]}
        cols = [f"n{i}" for i, n in enumerate(case["nodes"]) if n["kind"] != "r"] + [f"tap{j}" for j in range(len(case.get("taps", [])))]
        rows = []
        for j in range(len(r.index)):
            rows.append([frac(np.asarray(r[cname].values[j]).reshape(-1)[0]) for cname in cols])
        return rows
    finally:
        reset_pyrates()

def impl_conn(case):
    """source population p (x' = k_j; first ns nodes) -> target populations q and (optionally) r (integrators), one
    Connectivity(weights, delays) per target population (case['conns'] = [{tgt: 0|1, W: rows, d: delay}], case['pops'] =
    [ns, nq, nr]); the case's `edges` list is the expansion, one edge per matrix entry."""
    import warnings
    warnings.filterwarnings("ignore")
    import numpy as np
    from pyr import reset_pyrates, frac
    reset_pyrates()
    try:
        from pyrates import CircuitTemplate, NodeTemplate, OperatorTemplate
        from pyrates.frontend.template.population import PopulationTemplate, Connectivity
        nodes = case["nodes"]; ns, nq, nr = case["pops"]
        sop = OperatorTemplate("sa", equations=["x' = k"], variables={"x": "output(0.0)", "k": 1.0})
        top = OperatorTemplate("ta", equations=["x' = r_in + m"], variables={"x": "output(0.0)", "r_in": "input(0.0)", "m": 0.0})
        tnode = NodeTemplate("TN", operators=[top])
        taps = case.get("taps", [])
        sops, sparams = [sop], {"sa/k": [float(Fr(n["k"])) for n in nodes[:ns]], "sa/x": [float(Fr(n["x0"])) for n in nodes[:ns]]}
        if taps:          # a second operator on the source population's node that reads x through the operator graph
            sops.append(OperatorTemplate("tp", equations=["w' = x + m"], variables={"w": "variable(0.0)", "x": "input(0.0)", "m": 0.0}))
            sparams["tp/w"] = [float(Fr(w0)) for _, w0 in taps]
        pops = {"p": PopulationTemplate("p", NodeTemplate("SN", operators=sops), ns, params=sparams),
                "q": PopulationTemplate("q", tnode, nq, params={"ta/x": [float(Fr(n["x0"])) for n in nodes[ns:ns + nq]]})}
        outs = {"p": "p/sa/x", "q": "q/ta/x"}
        if nr:
            pops["r"] = PopulationTemplate("r", tnode, nr, params={"ta/x": [float(Fr(n["x0"])) for n in nodes[ns + nq:]]})
            outs["r"] = "r/ta/x"
        if taps:
            outs["w"] = "p/tp/w"
        conns = [Connectivity(source="p/sa/x", target=("q", "r")[cn["tgt"]] + "/ta/r_in",
                              weights=np.array([[float(Fr(w)) for w in row] for row in cn["W"]]), delays=float(Fr(cn["d"])))
                 for cn in case["conns"]]
        c = CircuitTemplate("c", populations=pops, connections=conns)
        dt = float(Fr(case["dt"]))
        try:
            r = c.run(simulation_time=case["steps"] * dt, step_size=dt, solver="euler", outputs=outs,
                      float_precision="float64", backend="default", clear=True, verbose=False)
        except (IndexError, ValueError, KeyError, TypeError, AttributeError, NameError) as e:
            return {"raised": type(e).__name__, "msg": str(e)[:160]}
        cols = [np.asarray(r[k].values).reshape(case["steps"], n) for k, n in (("p", ns), ("q", nq), ("r", nr), ("w", ns if taps else 0)) if n]
        return [[frac(v) for blk in cols for v in blk[j]] for j in range(case["steps"])]
    finally:
        reset_pyrates()

def gen_conn(rng):
    """Connectivity(weights, delays) without spread: the discrete (Ns, d+1) ring buffer of _add_matrix_delay; one source population
    with distinct dyadic rates projecting to one or two target populations with different delays (each delayed Connectivity has
    its own buffer since fix D54). Not generated (loud on the current tree, outside C09): two Connectivity objects between the same two variables (ValueError at compile time)."""
    dt = Fr(1, rng.choice([4, 8, 16]))
    ns = rng.randint(1, 4); nq = rng.randint(1, 3); nr = rng.choice([0, 0, rng.randint(1, 3)])       # incl. the 1 x 1 matrix (fixes D92/D93)
    ks = rng.sample([Fr(j, 2) for j in range(1, 9)], ns)
    nodes = [dict(kind="s", cls=0, k=str(ks[j]), x0=str(Fr(rng.randint(1, 8), 4))) for j in range(ns)]
    nodes += [dict(kind="t", cls=0, k="0", x0=str(Fr(rng.randint(-8, 8), 4))) for _ in range(nq + nr)]
    conns, edges = [], []
    for tgt, (off, nt) in enumerate(((ns, nq), (ns + nq, nr))):
        if not nt:
            continue
        while True:
            W = [[str(Fr(rng.choice([-4, -3, -2, -1, 0, 0, 1, 2, 3, 4]), 4)) for _ in range(ns)] for _ in range(nt)]
            if any(Fr(w) != 0 for row in W for w in row):
                break
        d = _delay(rng, dt, 2)
        if rhe(d / dt) < 2:
            d += dt
        conns.append(dict(tgt=tgt, W=W, d=str(d)))
        edges += [[s, off + t, W[t][s], str(d)] for t in range(nt) for s in range(ns)]
    maxd = max(rhe(Fr(cn["d"]) / dt) for cn in conns)
    case = dict(dt=str(dt), steps=maxd + rng.randint(3, 6), vectorize=True, solver="euler", nodes=nodes, edges=edges, conns=conns,
                pops=[ns, nq, nr])
    if rng.random() < 0.4:
        case["taps"] = [[j, str(Fr(rng.randint(-4, 4), 4))] for j in range(ns)]
    return case

# ---------------------------------------------------------------------------------------------- generator
def _delay(rng, dt, kmin=1):
    while True:
        k = rng.randint(kmin, 6); q = rng.choice([0, 0, 1, 2, 3])
        d = (k + Fr(q, 4)) * dt
        if d > 0:
            return d

def rhe(q):
    fl = q.numerator // q.denominator
    r = q - fl
    if r != Fr(1, 2):
        return fl if r < Fr(1, 2) else fl + 1
    return fl if fl % 2 == 0 else fl + 1

def gen_case(rng, kind="valid"):
    """kind: valid | sibling (mixed delayed/undelayed fan-out: valid since D70) | parallel (D18 rest) | heun (D7) |
    none (delay: None written out: valid since D69) | short (out of scope)"""
    ns = rng.randint(1, 3); nt = rng.randint(1, 5)
    kinds = ["s"] * ns + ["t"] * nt
    rng.shuffle(kinds)
    twocls = rng.random() < 0.5
    nodes = []
    for kd in kinds:
        ncls = (rng.choice([2, 3, 4]) if kd == "t" else 2) if twocls else 1
        n = dict(kind=kd, cls=rng.randrange(ncls), x0=str(Fr(rng.randint(-8, 8), 4)), k="0")
        if kd == "s":
            n["k"] = str(Fr(rng.randint(1, 6), 2))
            if n["x0"] == "0" and rng.random() < 0.8:
                n["x0"] = "3/4"          # a non-zero start makes "zero before the simulation started" observable
        nodes.append(n)
    fan = kind == "valid" and rng.random() < 0.25
    if fan:
        # one source class fanning out (delayed) into >= 3 structurally different target classes: >= 3 graph edges on one
        # buffered source variable, i.e. >= 3 slices of the `buffered` vector
        nodes = [dict(kind="s", cls=0, x0=str(Fr(rng.randint(1, 8), 4)), k=str(Fr(rng.randint(1, 6), 2))) for _ in range(rng.randint(1, 3))]
        nodes += [dict(kind="t", cls=c, x0=str(Fr(rng.randint(-8, 8), 4)), k="0") for c in rng.sample(range(4), rng.randint(3, 4))]
        rng.shuffle(nodes)
    S = [i for i, n in enumerate(nodes) if n["kind"] == "s"]; T = [i for i, n in enumerate(nodes) if n["kind"] == "t"]
    dt = Fr(1, rng.choice([4, 8, 16]))
    vec = rng.random() < 0.5 or fan
    key = (lambda i: nodes[i]["cls"]) if vec else (lambda i: i)
    p_undelayed = {"valid": 0.3, "sibling": 0.4, "parallel": 0.3, "heun": 0.2, "none": 0.4, "short": 0.2, "tap": 0.3, "mixnone": 0.6, "twin": 0.3, "spreadsib": 0.2}[kind]
    uform = "none" if kind == "none" else "nokey"
    edges = []
    for j in range(len(T) + rng.randint(0, 3) if fan else rng.randint(1, 7)):
        s = rng.choice(S); t = T[j] if fan and j < len(T) else rng.choice(T)
        w = str(Fr(rng.choice([-8, -6, -5, -4, -3, -2, -1, 1, 2, 3, 4, 5, 6, 8]), 4))
        if rng.random() < p_undelayed:
            ds = uform
        elif kind == "short" and rng.random() < 0.6:
            ds = str(Fr(rng.choice([1, 2, 3, 4, 5]), 4) * dt)       # rounds to 0 or 1 step
        else:
            ds = str(_delay(rng, dt, 2 if rng.random() < 0.7 else 1))
            if rhe(Fr(ds) / dt) < 2:
                ds = str(Fr(ds) + dt)
        edges.append([s, t, w, ds])
    zero = lambda e: e[3] in ("nokey", "none") or rhe(Fr(e[3]) / dt) == 0
    if kind == "parallel":
        # vectorize=False, a buffered source with two edges of 0 steps to one target (what is left of D18), or other parallel pairs
        vec = False
        e = rng.choice(edges)
        if rng.random() < 0.6:
            edges.append([e[0], e[1], str(Fr(rng.randint(1, 8), 4)), "nokey"])
            edges.append([e[0], e[1], str(Fr(rng.randint(1, 8), 4)), "nokey"])
            edges.append([e[0], rng.choice(T), "1", str(_delay(rng, dt, 2))])
        else:
            edges.append([e[0], e[1], str(Fr(rng.randint(1, 8), 4)), rng.choice(["nokey", str(_delay(rng, dt, 2))])])
    if kind in ("valid", "heun"):
        # non-vectorized: at most one edge of 0 steps per variable pair on a buffered source (the remaining loud class)
        buffered = {key(e[0]) for e in edges if not zero(e) and rhe(Fr(e[3]) / dt) > 1}
        out, seen = [], set()
        for e in edges:
            if not vec and key(e[0]) in buffered and zero(e):
                if (e[0], e[1]) in seen:
                    continue
                seen.add((e[0], e[1]))
            out.append(e)
        edges = out
    maxd = max([rhe(Fr(e[3]) / dt) for e in edges if e[3] not in ("nokey", "none")] + [0])
    if kind == "none":
        maxd = max(maxd, int(1 / dt))
    steps = maxd + rng.randint(3, 7)
    if kind == "mixnone":
        # `delay: None` written out on some undelayed edges and no delay entry on others (vectorized: they share an edge group, D103)
        vec = True
        for e in edges:
            if e[3] == "nokey" and rng.random() < 0.5:
                e[3] = "none"
    case = dict(dt=str(dt), steps=steps, vectorize=vec, solver="heun" if kind == "heun" else "euler", nodes=nodes, edges=edges)
    if kind in ("valid", "twin") and rng.random() < (1.0 if kind == "twin" else 0.2):
        # twins: one node whose operator has TWO state variables x' = 3k, u' = 4m, both with out-edges (mostly delayed); in the model
        # they are two source nodes of classes 2 and 3
        case["twins"] = []
        for _ in range(rng.randint(1, 2)):
            ix = len(nodes); nodes.append(dict(kind="s", cls=2, x0=str(Fr(rng.randint(1, 8), 4)), k=str(Fr(rng.randint(1, 4), 2))))
            iu = len(nodes); nodes.append(dict(kind="s", cls=3, x0=str(Fr(rng.randint(1, 8), 4)), k=str(Fr(rng.randint(1, 4), 2))))
            case["twins"].append([ix, iu])
            for src in (ix, iu):
                used = set()
                for _ in range(rng.randint(1, 2)):
                    t_ = rng.choice(T)
                    if (src, t_) in used:
                        continue
                    used.add((src, t_))
                    edges.append([src, t_, str(Fr(rng.choice([-4, -2, -1, 1, 2, 3]), 4)),
                                  "nokey" if rng.random() < 0.2 else str(_delay(rng, dt, 2) if True else 0)])
        for e in edges:
            if e[3] not in ("nokey", "none") and rhe(Fr(e[3]) / dt) < 2:
                e[3] = str(Fr(e[3]) + dt)
        case["steps"] = max(case["steps"], max([rhe(Fr(e[3]) / dt) for e in edges if e[3] not in ("nokey", "none")] + [0]) + 3)
    if kind in ("valid", "spreadsib") and "twins" not in case and rng.random() < (1.0 if kind == "spreadsib" else 0.15):
        # a gamma-kernel edge (delay, spread) from some sources to unobserved sink nodes, next to their discrete delays
        srcs_d = sorted({e[0] for e in edges if e[3] not in ("nokey", "none")}) or S
        case["spread_sinks"] = [[rng.choice(srcs_d), str(rng.choice([Fr(1), Fr(2)])), str(rng.choice([Fr(1, 2), Fr(1)]))]
                                for _ in range(rng.randint(1, 2))]
    if kind in ("valid", "sibling", "tap"):
        # taps: every source node of some structural classes carries a second operator w' = x (a node with another operator list is
        # another class, so a class is tapped as a whole); integer-valued delays written as Python ints
        tcls = [c_ for c_ in sorted({nodes[i]["cls"] for i in S}) if rng.random() < (1.0 if kind == "tap" else 0.3)]
        if tcls:
            case["taps"] = [[i, str(Fr(rng.randint(-4, 4), 4))] for i in S if nodes[i]["cls"] in tcls]
        if rng.random() < 0.3 and dt >= Fr(1, 8):
            case["int_delays"] = True
            for e in case["edges"]:
                if e[3] not in ("nokey", "none") and rng.random() < 0.5:
                    e[3] = str(rng.randint(1, 2))
            case["steps"] = max(case["steps"], max([rhe(Fr(e[3]) / dt) for e in case["edges"] if e[3] not in ("nokey", "none")] + [0]) + 3)
    if kind in ("valid", "sibling", "spreadsib") and rng.random() < 0.25:
        case["decorator"] = rng.choice([True, "kwargs"])
    return case

def gen_fortran(rng):
    """valid delayed circuits (several delays, shared sources / targets) compiled and run with backend='fortran' (vectorize=False, Euler,
    float64): the statement is about the code as run on any backend; the ring-buffer write / read indices are emitted per backend"""
    while True:
        c = gen_case(rng, "valid")
        if c.get("taps") or c.get("twins") or c.get("spread_sinks") or c.get("decorator") or c.get("int_delays"):
            continue
        if not any(e[3] not in ("nokey", "none") for e in c["edges"]):
            continue
        return dict(c, vectorize=False, backend="fortran", steps=min(c["steps"], 16))

def gen_relay(rng):
    """three layers: state sources -> algebraic relays (x = g * r_in) -> integrator targets, node declaration order permuted (relays
    may be declared before the sources that drive them), relays fed over delayed and undelayed edges, mixed delayed / undelayed
    fan-out from relays and from sources, vectorize mostly on.  The meaning is the specification's on the FLATTENED circuit: a path
    source -(w1, s1 steps)-> relay -(w2, s2 steps)-> target is an edge source -> target of weight w1*g*w2 and s1+s2 steps."""
    while True:
        dt = Fr(1, rng.choice([4, 8, 16]))
        ns, nr, nt = rng.randint(1, 2), rng.randint(1, 2), rng.randint(2, 3)
        nodes = [dict(kind="s", cls=0, x0=str(Fr(rng.randint(1, 8), 4)), k=str(Fr(rng.randint(1, 6), 2))) for _ in range(ns)]
        nodes += [dict(kind="r", cls=0, x0="0", k="0", g=str(Fr(rng.choice([1, 2, 3, 4, 6]), 2))) for _ in range(nr)]
        nodes += [dict(kind="t", cls=0, x0=str(Fr(rng.randint(-8, 8), 4)), k="0") for _ in range(nt)]
        rng.shuffle(nodes)
        S = [i for i, n in enumerate(nodes) if n["kind"] == "s"]; R = [i for i, n in enumerate(nodes) if n["kind"] == "r"]
        T = [i for i, n in enumerate(nodes) if n["kind"] == "t"]
        wq = lambda: str(Fr(rng.choice([-4, -3, -2, -1, 1, 2, 3, 4]), 2))
        dl = lambda p: "nokey" if rng.random() < p else str(rng.randint(2, 5) * dt)
        edges = []
        for r in R:                                   # every relay is driven by one source (delayed mostly) ...
            edges.append([rng.choice(S), r, wq(), dl(0.2)])
            outs = rng.sample(T, rng.randint(2, len(T)))   # ... and fans out with a mixture of delayed and undelayed edges
            forms = ["nokey", str(rng.randint(2, 5) * dt)] + [dl(0.4) for _ in outs[2:]]
            rng.shuffle(forms)
            edges += [[r, t, wq(), f] for t, f in zip(outs, forms)]
        for _ in range(rng.randint(0, 2)):
            edges.append([rng.choice(S), rng.choice(T), wq(), dl(0.3)])
        vec = rng.random() < 0.8
        if not vec:                                   # non-vectorized: parallel edges on one pair are another stream's business
            seen, out = set(), []
            for e in edges:
                if (e[0], e[1]) not in seen:
                    seen.add((e[0], e[1])); out.append(e)
            edges = out
        rng.shuffle(edges)
        st = lambda f: 0 if f == "nokey" else rhe(Fr(f) / dt)
        maxd = max([st(a[3]) + st(b[3]) for a in edges for b in edges if a[1] == b[0]] + [st(e[3]) for e in edges])
        case = dict(dt=str(dt), steps=maxd + rng.randint(3, 6), vectorize=vec, solver="euler", nodes=nodes, edges=edges, relay=True)
        if rng.random() < 0.25:
            case["decorator"] = rng.choice([True, "kwargs"])
        return case

def flatten(case):
    """the two-layer circuit (sources, targets) that a relay circuit means; node j of the flattened circuit is the j-th non-relay node"""
    dt = Fr(case["dt"]); nodes = case["nodes"]
    keep = [i for i, n in enumerate(nodes) if n["kind"] != "r"]; new = {i: j for j, i in enumerate(keep)}
    st = lambda f: 0 if f == "nokey" else rhe(Fr(f) / dt)
    form = lambda k: "nokey" if k == 0 else str(k * dt)
    edges = []
    for s_, t_, w, f in case["edges"]:
        if nodes[s_]["kind"] == "s" and nodes[t_]["kind"] == "t":
            edges.append([new[s_], new[t_], w, form(st(f))])
        elif nodes[s_]["kind"] == "s":               # source -> relay -> every target of the relay
            for r_, t2, w2, f2 in case["edges"]:
                if r_ == t_:
                    edges.append([new[s_], new[t2], str(Fr(w) * Fr(nodes[t_]["g"]) * Fr(w2)), form(st(f) + st(f2))])
    return dict(case, nodes=[nodes[i] for i in keep], edges=edges, relay=False)

def gen_decimal(rng):
    """step sizes like 0.1 whose delay/dt quotients are not exact float integers (0.3/0.1 = 2.9999999999999996): values are not
    exactly representable, so the observable is, per node, the first stored step at which its value differs from the start (each
    target has one incoming edge, positive weight, positive source: the first change happens at step d+1). dt and the delays are
    given to the model as the exact rationals of the floats; the model's step count is round_half_even of their exact quotient."""
    from decimal import Decimal
    while True:
        dts = rng.choice(["0.1", "0.1", "0.05", "0.2", "0.01", "0.3", "0.7"])
        dt = float(dts)
        ns, nt = rng.randint(1, 2), rng.randint(1, 3)
        nodes = [dict(kind="s", cls=0, x0=str(rng.randint(1, 2)), k=str(rng.randint(1, 2))) for _ in range(ns)]
        nodes += [dict(kind="t", cls=rng.randrange(2), x0="0", k="0") for _ in range(nt)]
        rng.shuffle(nodes)
        S = [i for i, n in enumerate(nodes) if n["kind"] == "s"]; T = [i for i, n in enumerate(nodes) if n["kind"] == "t"]
        edges, ok, nmax = [], True, 0
        for t in T:
            n = rng.randint(2, 7)
            d = float(Decimal(dts) * n)
            if abs(d / dt - n) > 1e-9 or rhe(Fr(d) / Fr(dt)) != n:
                ok = False
            nmax = max(nmax, n)
            edges.append([rng.choice(S), t, str(rng.randint(1, 2)), str(Fr(d))])
        if ok:
            inexact = any(float(Fr(e[3])) / dt != round(float(Fr(e[3])) / dt) for e in edges)
            return dict(dt=str(Fr(dt)), steps=nmax + 3, vectorize=rng.random() < 0.5, solver="euler", nodes=nodes, edges=edges,
                        observe="first_change", inexact_quotient=inexact)

def first_change(rows):
    return [next((j for j in range(len(rows)) if Fr(rows[j][i]) != Fr(rows[0][i])), len(rows)) for i in range(len(rows[0]))]

def decimal_compare(ctx, cases, outs, tag):
    """-> (bad vs Impl, bad vs Spec, guards false) on the first-change observable"""
    terms = []
    for c, o in zip(cases, outs):
        exp = clist([cnat(x) for x in first_change(o)]) if not isinstance(o, dict) else "[]"
        terms.append(f"({coq_circuit(c)}, {cnat(c['steps'])}, {exp})")
    body = ("Definition cases := " + clist(terms) + ".\n"
            "Eval vm_compute in (mismatches fcI cases).\nEval vm_compute in (mismatches fcS cases).\n"
            "Eval vm_compute in (mismatches (fun p => let '(c, n, r) := p in wf c && guards c) cases).\n")
    ls = parse_nat_lists(coq_eval(ctx, f"c09_dec_{tag}", HEADER_FC, body))
    assert len(ls) == 3, ls
    return ls

def nontrivial(case):
    dt = Fr(case["dt"])
    return any(e[3] not in ("nokey", "none") and rhe(Fr(e[3]) / dt) >= 2 for e in case["edges"])

# ---------------------------------------------------------------------------------------------- model side
GUARDS = ["g_euler", "g_no_undelayed_sibling", "g_no_parallel_buffered", "g_delays_ge2", "g_uniform_keys", "g_no_tap_on_buffered", "g_no_twin_collision"]
HEADER = """From Coq Require Import List ZArith QArith Qcanon Bool Arith.
From PV Require Import Ring Corr.
Import ListNotations.
Definition okI (p : circuit * nat * res) := let '(c, n, r) := p in res_eqb (impl_run c n) r.
Definition okS (p : circuit * nat * res) := let '(c, n, r) := p in res_eqb (Ok (spec_run c n)) r.
Definition gd (g : circuit -> bool) (p : circuit * nat * res) := let '(c, n, r) := p in g c.
"""

HEADER_FC = HEADER + """
Fixpoint fc_from (v0 : Qc) (i : nat) (rows : list (list Qc)) : nat :=
  match rows with [] => O | r :: rest => if Qceqb (nth i r 0%Qc) v0 then S (fc_from v0 i rest) else O end.
Definition first_change (rows : list (list Qc)) : list nat :=
  map (fun i => fc_from (nth i (hd [] rows) 0%Qc) i rows) (seq 0 (length (hd [] rows))).
Definition list_nat_eqb (a b : list nat) : bool := Nat.eqb (length a) (length b) && forallb (fun p => Nat.eqb (fst p) (snd p)) (combine a b).
Definition fcI (p : circuit * nat * list nat) := let '(c, n, r) := p in
  match impl_run c n with Ok rows => list_nat_eqb (first_change rows) r | ErrIndex => false end.
Definition fcS (p : circuit * nat * list nat) := let '(c, n, r) := p in list_nat_eqb (first_change (spec_run c n)) r.
"""

def expand(case):
    """a tap on source node s = an extra integrator node (appended after the real nodes) + an edge without delay of weight 1 from s
    to it (appended after the real edges); -> (nodes, edges, positions of the tap edges)"""
    nodes = list(case["nodes"]); edges = list(case["edges"]); pos = []
    for s_, w0 in case.get("taps", []):
        nodes.append(dict(kind="t", cls=0, k="0", x0=w0))
        pos.append(len(edges)); edges.append([s_, len(nodes) - 1, "1", "nokey"])
    return nodes, edges, pos

def coq_circuit(case):
    if case.get("relay"):
        case = flatten(case)
    cnodes, cedges, _ = expand(case)
    nodes = clist([f"mkNode {cbool(n['kind'] == 's')} {cnat(n['cls'])} {cq(n.get('k', '0'))} {cq(n['x0'])}" for n in cnodes])
    def dsp(ds):
        return "NoKey" if ds == "nokey" else "ExplNone" if ds == "none" else f"(Delay {cq(ds)})"
    edges = clist([f"mkEdge {cnat(s)} {cnat(t)} {cq(w)} {dsp(ds)}" for s, t, w, ds in cedges])
    return f"(mkC {cq(case['dt'])} {cbool(case['vectorize'])} {cbool(case['solver'] == 'heun')} {nodes} {edges})"

def coq_case(case, out):
    if isinstance(out, dict):
        exp = "ErrIndex" if out.get("raised") == "IndexError" else "(Ok [])"      # any other exception matches nothing
    else:
        exp = "(Ok " + clist([clist([cq(x) for x in row]) for row in out]) + ")"
    return f"({coq_circuit(case)}, {cnat(case['steps'])}, {exp})"

def model_compare(ctx, cases, outs, tag):
    """-> (bad vs Impl, bad vs Spec, not wf, {guard: indices where the guard is false})"""
    badI, badS, nwf = [], [], []
    gfalse = {g: [] for g in GUARDS}
    shard = 40
    for s in range(0, len(cases), shard):
        terms = [coq_case(c, o) for c, o in zip(cases[s:s + shard], outs[s:s + shard])]
        taps = clist([clist([cnat(i) for i in expand(c)[2]]) for c in cases[s:s + shard]])
        body = ("Definition cases := " + clist(terms) + ".\nDefinition taps : list (list nat) := " + taps + ".\n"
                "Eval vm_compute in (mismatches okI cases).\nEval vm_compute in (mismatches okS cases).\n"
                "Eval vm_compute in (mismatches (gd wf) cases).\n" +
                "".join(f"Eval vm_compute in (mismatches (gd {g}) cases).\n" for g in GUARDS if g not in ("g_no_tap_on_buffered", "g_no_twin_collision")) +
                "Eval vm_compute in (mismatches (fun p => gd (g_no_tap_on_buffered (snd p)) (fst p)) (combine cases taps)).\n"
                "Definition twins : list (list (nat * nat)) := " + clist([clist([f"({cnat(a)}, {cnat(b)})" for a, b in c.get("twins", [])]) for c in cases[s:s + shard]]) + ".\n"
                "Eval vm_compute in (mismatches (fun p => gd (g_no_twin_collision (snd p)) (fst p)) (combine cases twins)).\n")
        ls = parse_nat_lists(coq_eval(ctx, f"c09_{tag}_{s}", HEADER, body))
        assert len(ls) == 3 + len(GUARDS), ls
        badI += [s + i for i in ls[0]]; badS += [s + i for i in ls[1]]; nwf += [s + i for i in ls[2]]
        for g, l in zip([g for g in GUARDS if g not in ("g_no_tap_on_buffered", "g_no_twin_collision")] + ["g_no_tap_on_buffered", "g_no_twin_collision"], ls[3:]):
            gfalse[g] += [s + i for i in l]
    return badI, badS, nwf, gfalse

def model_outputs(ctx, case, tag):
    body = (f"Definition c := {coq_circuit(case)}.\nEval vm_compute in (impl_run c {cnat(case['steps'])}).\n"
            f"Eval vm_compute in (spec_run c {cnat(case['steps'])}).\n")
    try:
        return coq_eval(ctx, f"c09_show_{tag}", HEADER, body)[:5000]
    except Exception as e:
        return f"(model evaluation failed: {e})"

# ---------------------------------------------------------------------------------------------- shrinking
def to_c11(case):
    """the same circuit in c11's case format (plain delays only): used for the adaptive-solver support stream, whose worker, closed-form
    reference and verdict live in c11.py"""
    edges = [[s_, t_, w, "nokey" if ds in ("nokey", "none") else [ds]] for s_, t_, w, ds in case["edges"]]
    return dict(dt=case["dt"], steps=case["steps"], vectorize=case["vectorize"], dde=0, nodes=case["nodes"], edges=edges, adaptive=True)

def gen_adaptive(rng):
    """two-layer delayed circuits (plain delays of >= 2 dt, undelayed edges, several delays per source, two classes) for solver='scipy'"""
    while True:
        c = gen_case(rng, rng.choice(["valid", "sibling"]))
        if c.get("taps") or c.get("twins") or c.get("int_delays") or c.get("spread_sinks"):
            continue
        if any(n["cls"] > 1 for n in c["nodes"]):          # c11's worker knows the classes 0 and 1
            continue
        dt = Fr(c["dt"])
        if any(e[3] == "none" or (e[3] != "nokey" and Fr(e[3]) <= dt) for e in c["edges"]):
            continue                                        # (delays <= dt are dropped under adaptive steps: C10's threshold F4)
        return dict(c, steps=min(c["steps"], 14), adaptive=True)

def fails(ctx, case, tag):
    if case.get("adaptive"):
        import c11
        r = run_impl(ctx, "c11", "impl_adaptive", [to_c11(case)], nworkers=1, per_case_timeout=180)[0]
        return ("err" in r) or c11.adaptive_verdict(to_c11(case), r) is not None, r
    r = run_impl(ctx, "c09", "impl_conn" if case.get("conns") else "impl", [case], nworkers=1)[0]
    if isinstance(r, dict) and "err" in r:
        return True, r
    _, badS, _, _ = model_compare(ctx, [case], [r], tag)
    return bool(badS), r

def shrink(ctx, case):
    best, budget = case, 14
    i = 0
    while i < len(best["edges"]) and budget > 0 and len(best["edges"]) > 1:
        cand = dict(best, edges=best["edges"][:i] + best["edges"][i + 1:])
        budget -= 1
        if fails(ctx, cand, f"s{budget}")[0]:
            best = cand
        else:
            i += 1
    return best

# ---------------------------------------------------------------------------------------------- check
def check(ctx):
    pr = proof_gate(ctx, NEEDS)
    problem = proof_problem(pr)
    quick = ctx.tier == "quick"
    n_valid, n_viol = (150, 12) if quick else (2500, 120)
    if problem:
        n_valid *= 4
    if ctx.replay:
        rp = json.load(open(ctx.replay))
        cases = [rp["case"]] if "case" in rp else []
    else:
        cases = [c["case"] if "case" in c else c for c in load_corpus("C09")]
        cases += [gen_case(ctx.rng, "valid") for _ in range(n_valid)]
        for kind in ("sibling", "parallel", "heun", "none", "short", "tap", "mixnone", "twin", "spreadsib"):
            cases += [gen_case(ctx.rng, kind) for _ in range(n_viol)]
        cases += [gen_relay(ctx.rng) for _ in range(n_valid // 5)]
        cases += [gen_fortran(ctx.rng) for _ in range(3 if quick else 20)]
        cases += [gen_conn(ctx.rng) for _ in range(n_valid // 5)]
    acases = [c for c in cases if c.get("adaptive")]; cases = [c for c in cases if not c.get("adaptive")]
    if not ctx.replay:
        acases += [gen_adaptive(ctx.rng) for _ in range(n_valid // 6)]
    if acases:
        import c11
        a11 = [to_c11(c) for c in acases]
        aouts = run_impl(ctx, "c11", "impl_adaptive", a11, per_case_timeout=180)
        anotes = []
        verdicts = [("worker error: " + str(o.get("err"))) if "err" in o else c11.adaptive_verdict(c, o, anotes) for c, o in zip(a11, aouts)]
        gfa = set(c11.adaptive_guards(ctx, a11, "c09"))
        listed = {f.get("guard") for f in known_findings("C09")}
        fresh = [i for i, v in enumerate(verdicts) if v and not (i in gfa and "g_dde_slots_aligned" in listed)]
        ctx.note(f"adaptive-solver stream, closed form of delayed ramps (note only, never deciding): {len(anotes)} circuits deviate by more than "
                 f"{c11.ADAPTIVE_TOL} relative" + (f" (worst {max(anotes):.2e})" if anotes else ""))
        ctx.note(f"adaptive-solver stream (solver='scipy', vectorized and not; deciding: exceptions, vec vs non-vec beyond {c11.VEC_TOL} relative"
                 f"): {len(acases)} circuits, {sum(1 for v in verdicts if v)} failing, {len(gfa)} outside Gamma.g_dde_slots_aligned "
                 f"({sum(1 for i in gfa if verdicts[i])} of them failing), unexplained failures {len(fresh)}")
        for i in fresh[:2]:
            violation(ctx, write_replay(ctx, "counterexample", dict(case=acases[i], what=verdicts[i], implementation_output=aouts[i])))
    dec_cases = [] if ctx.replay else [gen_decimal(ctx.rng) for _ in range(n_valid // 5)]
    if ctx.replay and cases and cases[0].get("observe") == "first_change":
        dec_cases, cases = cases, []
    dec_bad = []
    if dec_cases:
        douts = run_impl(ctx, "c09", "impl", dec_cases, per_case_timeout=120)
        dI, dS, dG = decimal_compare(ctx, dec_cases, douts, "main")
        assert not dG, f"decimal stream produced guard-violating cases: {dG[:5]}"
        dec_bad = sorted(set(dI) | set(dS) | {i for i, o in enumerate(douts) if isinstance(o, dict)})
        ctx.note(f"decimal-step stream: {len(dec_cases)} circuits with dt like 0.1 ({sum(1 for c in dec_cases if c['inexact_quotient'])} with a "
                 f"delay/dt float quotient that is not an integer); first-change step per node vs Impl: {len(dI)} mismatches, vs Spec: {len(dS)}")
        for i in dec_bad[:2]:
            violation(ctx, write_replay(ctx, "counterexample", dict(case=dec_cases[i], implementation_output=douts[i],
                      first_change_observed=None if isinstance(douts[i], dict) else first_change(douts[i]),
                      what="the step at which a delayed edge first delivers differs from round(delay/dt)+1 (decimal step sizes)")))
    ci = [i for i, c in enumerate(cases) if c.get("conns")]; ei = [i for i, c in enumerate(cases) if not c.get("conns")]
    outs = [None] * len(cases)
    for i, r in zip(ei, run_impl(ctx, "c09", "impl", [cases[i] for i in ei], per_case_timeout=120)):
        outs[i] = r
    for i, r in zip(ci, run_impl(ctx, "c09", "impl_conn", [cases[i] for i in ci], per_case_timeout=120)):
        outs[i] = r
    if ci:
        ctx.note(f"Connectivity(weights, delays) stream: {len(ci)} population circuits (discrete matrix ring buffer), compared with the "
                 f"expansion into one edge per matrix entry")
    harness_err = [i for i, r in enumerate(outs) if isinstance(r, dict) and "err" in r]
    good = [i for i in range(len(cases)) if i not in harness_err]
    badI, badS, nwf, gfalse = model_compare(ctx, [cases[i] for i in good], [outs[i] for i in good], "main")
    badI = [good[i] for i in badI]; badS = [good[i] for i in badS]; nwf = [good[i] for i in nwf]
    assert not nwf, f"generator produced ill-formed circuits: {nwf[:5]}"
    guard_viol = {}
    for g in GUARDS:
        if g == "g_delays_ge2":
            continue
        for i in gfalse[g]:
            guard_viol.setdefault(good[i], []).append(g)
    # delays that round to fewer than two steps are outside the property (deliberately neglected by the implementation):
    # such cases are compared with the mechanism model only
    out_of_scope = {good[i] for i in gfalse["g_delays_ge2"]}
    badS = [i for i in badS if i not in out_of_scope]
    in_guard = [i for i in good if i not in guard_viol and i not in out_of_scope]
    ctx.note(f"E1: {len(cases)} circuits ({len(in_guard)} inside all guards, {len(guard_viol)} guard-violating on purpose, "
             f"{len(out_of_scope)} with delays below two steps: mechanism model only); impl-vs-Impl mismatches {len(badI)}, "
             f"impl-vs-Spec mismatches {len(badS)} (of which inside the guards {len([i for i in badS if i in in_guard])}), "
             f"harness/worker errors {len(harness_err)}")
    def witness_check(f):
        w = json.load(open(os.path.join(VERIF, f["witness"])))
        wc = w["case"] if "case" in w else w
        return fails(ctx, wc, "w" + f["id"].replace("-", "_"))[0]
    res = conclude(ctx, cases=cases, impl_out=outs, bad_spec=badS, bad_impl=badI, crashed=harness_err, problem=problem,
                   guard_viol=guard_viol, spec_name="Ring.spec_run (delayed recurrence read off the edge list)",
                   impl_name="Ring.impl_run", shrink=lambda c: shrink(ctx, c), witness_check=witness_check,
                   show=lambda c: dict(implementation_output=fails(ctx, c, "show")[1], model_output=model_outputs(ctx, c, "show")))
    nt = {canon(c) for i, c in enumerate(cases) if nontrivial(c) and i in in_guard}
    dt_of = lambda c: Fr(c["dt"])
    frac_q = lambda c: sorted({str((Fr(e[3]) / dt_of(c)) % 1) for e in c["edges"] if e[3] not in ("nokey", "none")})
    hist = dict(fortran_backend=sum(1 for c in cases if c.get("backend") == "fortran"), with_decorator=sum(1 for c in cases if c.get("decorator")), adaptive_stream=len(acases), with_spread_sibling=sum(1 for c in cases if c.get("spread_sinks")), relay_circuits=sum(1 for c in cases if c.get("relay")), with_taps=sum(1 for c in cases if c.get("taps")), int_delays=sum(1 for c in cases if c.get("int_delays")), connectivity_stream=len(ci), decimal_step_stream=len(dec_cases), decimal_inexact_quotient=sum(1 for c in dec_cases if c["inexact_quotient"]),
                vectorized=sum(1 for c in cases if c["vectorize"]), heun=sum(1 for c in cases if c["solver"] == "heun"),
                in_guard=len(in_guard), guard_violating={g: len(gfalse[g]) for g in GUARDS},
                raised=sum(1 for o in outs if isinstance(o, dict) and "raised" in o),
                delay_fraction_of_step=sorted({q for c in cases for q in frac_q(c)}),
                several_delays_per_source=sum(1 for c in cases if any(
                    len({e[3] for e in c["edges"] if e[0] == s and e[3] != "nokey"}) > 1 for s in range(len(c["nodes"])))),
                edges=sum(len(c["edges"]) for c in cases), attributed=res["attributed"])
    write_evidence(ctx, evaluations=len(cases) + len(dec_cases), distinct_nontrivial=len(nt),
                   rule="random two-layer delayed circuits (1-3 sources x' = k with non-zero start, 1-4 integrator targets, two structural "
                        "classes, 1-8 edges, dt in {1/4,1/8,1/16}, delays (k+q/4)*dt, vectorize on/off, Euler) run with run(); all "
                        "trajectories compared as exact rationals with Ring.impl_run and Ring.spec_run evaluated inside Coq; a case is "
                        "non-trivial when it is inside all guards and some delay rounds to >= 2 steps; distinct = distinct canonical JSON",
                   samples=[cases[0], cases[len(cases) // 2]],
                   extra=dict(input_distribution=hist, impl_vs_model_mismatches=len(badI), impl_vs_spec_mismatches=len(badS)),
                   trusted_base=["numpy float64 arithmetic is exact on the generated dyadic data (results are compared as exact rationals)",
                                 "the summation order of the edge contributions is not modelled (exact arithmetic makes it irrelevant)"],
                   assumptions=["circuits are two-layer (sources x' = k, targets pure integrators): the delivered value reveals the delay exactly",
                                "delays rounding to fewer than two steps are outside the property; matrix (Connectivity) delays are not modelled",
                                "guards: " + ", ".join(GUARDS[:-1]) + " (each is the failing class of a listed finding)"])
