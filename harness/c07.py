"""C07 — parameter and initial-value overrides reach exactly their targets; nodes sharing template objects stay independent.
Model: coq/theories/Heap.v (object store, deepcopy), Values.v (Impl `runI` on the store, Spec `runS` on the unshared tree);
theorems: coq/properties/C07.v.
Tie: E1 — random histories of update_var (scalar / per-node array values, wildcard paths, constants and initial values),
apply(node_values=...) and edge-weight updates on circuits with deliberately shared OperatorTemplate / NodeTemplate /
CircuitTemplate objects; observable = parameter values, initial state and edge sums of the compiled function."""
import json, os
from fractions import Fraction as Fr
from core import *

NEEDS = ["Heap", "Values", "ValuesProofs", "Corr"]

# operator library: ONE OperatorTemplate object per name in a circuit (D26); every operator has exactly one state variable
# and at most one input variable, and is affine in the input so that edge sums can be read off dy exactly
# since fix D90 two OperatorTemplate objects may share a name and differ in their default values (the generator does that);
# every operator still has exactly one state variable and at most one input variable
OPLIB = {
    "op": dict(eq="d/dt * x = k*r + g + u", state="x", kind="output", consts=["k", "r", "g"], inp="u"),
    "oq": dict(eq="d/dt * z = a + v", state="z", kind="variable", consts=["a"], inp="v"),
    "os": dict(eq="d/dt * s = b*s + c", state="s", kind="variable", consts=["b", "c"], inp=None),
}
INPUTS = ["u", "v"]

# ---------------------------------------------------------------------------------------------- impl side (worker)
def build(case):
    from pyrates.frontend import OperatorTemplate, NodeTemplate, CircuitTemplate, EdgeTemplate
    # edge template with a second input that is addressed by a variable path held as a string-valued edge attribute
    eop = OperatorTemplate("eop", equations=["m = s_in + t_ref"], variables={"m": "output(0.0)", "s_in": "input(0.0)", "t_ref": "input(0.0)"})
    etpl = EdgeTemplate("et", operators=[eop])
    def mk_edge(e):
        if len(e) > 3:
            return (e[0], e[1], etpl, {"weight": float(Fr(e[2])), "et/eop/s_in": "source", "et/eop/t_ref": e[3]})
        return (e[0], e[1], None, {"weight": float(Fr(e[2]))})
    ops = []
    for o in case["ops"]:
        lib = OPLIB[o["name"]]
        variables = {}
        for var, v in o["defs"]:
            f = float(Fr(v))
            if var == lib["state"]:
                variables[var] = f"{lib['kind']}({f!r})"
            elif var == lib["inp"]:
                variables[var] = f"input({f!r})"
            elif var in o.get("intform", []):    # declared by a bare Python int (dtype 'int'): finding D97
                variables[var] = int(Fr(v))
            elif var in o.get("dictform", []):   # explicit declaration {'vtype','dtype','shape','value'}
                variables[var] = {"vtype": "constant", "dtype": "float", "shape": (1,), "value": f}
            else:
                variables[var] = f
        ops.append(OperatorTemplate(o["name"], equations=[lib["eq"]], variables=variables))
    nodes = []
    for i, n in enumerate(case["nodes"]):
        nodes.append(NodeTemplate(f"n{i}", operators={ops[oi]: {var: float(Fr(v)) for var, v in vs} for oi, vs in n["ops"]}))
    circs = []
    for i, c in enumerate(case["circs"]):
        edges = [mk_edge(e) for e in c["edges"]]
        if c["leaf"]:
            circs.append(CircuitTemplate(f"ct{i}", nodes={k: nodes[j] for k, j in c["children"]}, edges=edges))
        else:
            circs.append(CircuitTemplate(f"ct{i}", circuits={k: circs[j] for k, j in c["children"]}, edges=edges))
    return circs[-1]


def _value(v):
    import numpy as np
    if isinstance(v, list):
        return np.array([float(Fr(x)) for x in v], dtype=np.float64)
    return float(Fr(v))


def _read(func, args, names, smap):
    """observation of a compiled function: values of every non-input node variable, summed edge weights"""
    import numpy as np
    from pyr import frac
    keys = []
    y0 = np.asarray(args[1], dtype=np.float64)
    for name, a in zip(names[3:], args[3:]):
        parts = name.split("/")
        if len(parts) < 3 or parts[-2] not in OPLIB or parts[-1] in INPUTS:
            continue
        a = np.asarray(a, dtype=np.float64)
        assert a.size == 1, (name, a.shape)
        keys.append(["/".join(parts[:-2]), parts[-2], parts[-1], frac(a.reshape(-1)[0])])
    slots = {}
    for name, idx in smap.items():
        parts = name.split("/")
        idx = int(np.asarray(idx).reshape(-1)[0])
        keys.append(["/".join(parts[:-2]), parts[-2], parts[-1], frac(y0[idx])])
        slots[name] = idx
    def dy(y):
        buf = np.zeros_like(y0)
        return np.array(func(0.0, y, buf, *args[3:]), dtype=np.float64).copy()
    base = dy(np.zeros_like(y0))
    pairs = []
    for s, si in sorted(slots.items()):
        e = np.zeros_like(y0); e[si] = 1.0
        col = dy(e) - base
        for t, ti in sorted(slots.items()):
            lib = OPLIB[t.split("/")[-2]]
            if lib["inp"] is None:
                continue
            tin = "/".join(t.split("/")[:-1] + [lib["inp"]])
            if col[ti] != 0.0:          # pairs not listed have coefficient 0 (the model may not have an edge there)
                pairs.append([s, tin, frac(col[ti])])
    return dict(keys=sorted(keys), pairs=pairs)


def observe_final(c):
    import pyr
    pyr.reset_pyrates()
    try:
        func, args, names, smap = c.get_run_func("f", 1e-3, in_place=False, float_precision="float64", vectorize=False,
                                                 backend="default", verbose=False, clear=False)
        return _read(func, args, names, smap)
    finally:
        pyr.reset_pyrates()


def observe_apply(c, nv, ev=()):
    """apply(node_values=nv, edge_values=ev) on the template object itself (this is where D17 leaked into shared templates)"""
    import pyr
    pyr.reset_pyrates()
    try:
        kwargs = dict(float_precision="float64", node_values={k: _value(v) for k, v in nv})
        if ev:
            kwargs["edge_values"] = {(s, t): {"weight": float(Fr(w))} for s, t, w in ev}
        c.apply(adaptive_steps=False, verbose=False, backend="default", step_size=1e-3, vectorize=False, **kwargs)
        func, args, names, svi = c._ir.get_run_func(func_name="f", step_size=1e-3, **kwargs)
        smap = {c._ir.get_frontend_varname(v): idx for v, idx in svi.items()}
        mapped = []
        for a in names:
            try:
                mapped.append(c._ir.get_frontend_varname(a))
            except (ValueError, KeyError):
                mapped.append(a)
        return _read(func, args, mapped, smap)
    finally:
        try:
            c._ir = None
        except Exception:
            pass
        pyr.reset_pyrates()


def impl(case):
    c = build(case)
    outs = []
    bases = []          # templates left behind by `c = c.update_template(...)`, newest first
    for h in case["hist"] + [["obs"]]:
        try:
            if h[0] == "upd":
                c.update_var(node_vars={f"{pat}/{op}/{var}": _value(v) for pat, op, var, v in h[1]})
                outs.append("ok")
            elif h[0] == "edge":
                c.update_var(edge_vars=[(h[1], h[2], {"weight": float(Fr(h[3]))})])
                outs.append("ok")
            elif h[0] == "apply":
                outs.append(observe_apply(c, [(f"{pat}/{op}/{var}", v) for pat, op, var, v in h[1]], h[2] if len(h) > 2 else ()))
            elif h[0] == "updtpl":
                # update_template(nodes={name: an existing NodeTemplate object}, edges=[...]); without in_place the user's
                # variable follows the returned template (a chain c = c.update_template(...))
                kw = {}
                if h[2]:
                    kw["nodes"] = {name: c.get_node_template(path) for name, path in h[2]}
                if h[3]:
                    kw["edges"] = [(s, t, None, {"weight": float(Fr(w))}) for s, t, w in h[3]]
                res = c.update_template(in_place=bool(h[1]), **kw)
                if not h[1]:
                    bases.insert(0, c)
                    c = res
                outs.append("ok")
            elif h[0] == "obsbase":
                outs.append(observe_final(bases[h[1]]) if h[1] < len(bases) else {"raised": "IndexError"})
            else:
                outs.append(observe_final(c))
        except (KeyError, IndexError) as e:
            outs.append({"raised": type(e).__name__})
        except ValueError as e:      # compile of an array-valued parameter ("Shapes of state variable ... do not match"); nodes= on a hierarchy
            outs.append({"raised": "ValueError"})
    return outs

# ---------------------------------------------------------------------------------------------- generator
def dy8(rng, lo=-32, hi=32):
    if rng.random() < 0.12:                      # integer values as well (int overrides of float declarations and vice versa)
        return str(Fr(rng.randint(-4 if lo < 0 else 1, max(1, hi // 8))))
    return str(Fr(rng.randint(lo, hi), 8))


def tree_nodes(case, ci, prefix=()):
    """all node paths below circuit ci, in dict order, with the node index: [(path tuple, node idx)]"""
    c = case["circs"][ci]
    out = []
    for k, j in c["children"]:
        if c["leaf"]:
            out.append((prefix + (k,), j))
        else:
            out += tree_nodes(case, j, prefix + (k,))
    return out


def collect(case, ci, prefix=""):
    """collect_edges on the name tree"""
    c = case["circs"][ci]
    out = [[prefix + s, prefix + t, w] for s, t, w in c["edges"]]
    if not c["leaf"]:
        for k, j in c["children"]:
            out += collect(case, j, prefix + k + "/")
    return out


def node_has(case, nj, op, var=None):
    for oi, _ in case["nodes"][nj]["ops"]:
        o = case["ops"][oi]
        if o["name"] == op and (var is None or var in [d[0] for d in o["defs"]]):
            return True
    return False


def resolve(case, pat):
    """Spec-side pattern resolution on the name tree (None = the code raises KeyError)"""
    def go(ci, pat):
        c = case["circs"][ci]
        if c["leaf"]:
            if len(pat) != 1:
                return None
            names = [k for k, _ in c["children"]]
            if pat[0] in names:
                return [((pat[0],), dict(c["children"])[pat[0]])]
            if pat[0] == "all":
                return [((k,), j) for k, j in c["children"]]
            return []
        if len(pat) < 2:
            return None
        res = []
        if pat[0] == "all":
            for k, j in c["children"]:
                r = go(j, pat[1:])
                if r is None:
                    return None
                res += [((k,) + p, nj) for p, nj in r]
            return res
        ch = dict(c["children"])
        if pat[0] not in ch:
            return []              # fix D73: a level the circuit does not have matches no node
        r = go(ch[pat[0]], pat[1:])
        return None if r is None else [((pat[0],) + p, nj) for p, nj in r]
    return go(len(case["circs"]) - 1, list(pat))


def gen_case(rng, maxlen):
    depth = rng.choice([0, 0, 1, 1, 1, 2, 2, 3])      # up to four template levels; aliasing of sub-circuit objects at every level
    opnames = ["op"] + rng.sample(["oq", "os"], rng.randint(0, 2))
    if rng.random() < 0.3:
        # a SECOND OperatorTemplate object of an existing name with other default values (possible since fix D90: the
        # compiler's operator cache is keyed by the definition, no longer by the name)
        opnames.append(rng.choice(opnames))
    ops = []
    for n in opnames:
        lib = OPLIB[n]
        defs = [[lib["state"], dy8(rng)]] + [[k, dy8(rng)] for k in lib["consts"]] + ([[lib["inp"], "0"]] if lib["inp"] else [])
        o_ = dict(name=n, defs=defs, dictform=[k for k in lib["consts"] if rng.random() < 0.25])
        # constants declared by a bare integer (dtype 'int'; finding D97: a non-integral override is truncated)
        o_["intform"] = [k for k in lib["consts"] if k not in o_["dictform"] and rng.random() < 0.12]
        for dv in defs:
            if dv[0] in o_["intform"]:
                dv[1] = str(rng.randint(-4, 4))
        ops.append(o_)
    nodes = []
    for _ in range(rng.randint(1, 3)):
        byname = {}
        for i, o in enumerate(ops):
            byname.setdefault(o["name"], []).append(i)
        chosen = [rng.choice(byname["op"])] + [rng.choice(ix) for nm, ix in byname.items() if nm != "op" and rng.random() < 0.6]
        rng.shuffle(chosen)
        nops = []
        for oi in chosen:
            lib = OPLIB[ops[oi]["name"]]
            cand = [lib["state"]] + lib["consts"]
            vs = [[v, dy8(rng)] for v in cand if rng.random() < 0.35]
            nops.append([oi, vs])
        nodes.append(dict(ops=nops))
    node_names = ["A", "B", "C", "D"]
    circs = []
    def leaf():
        names = node_names[:rng.randint(2, 4)] if rng.random() < 0.8 else rng.sample(node_names, 2)
        children = [[k, rng.randrange(len(nodes))] for k in names]
        c = dict(leaf=True, children=children, edges=[])
        circs.append(c)
        return len(circs) - 1
    def add_edges(ci, n):
        case_tmp = dict(circs=circs, nodes=nodes, ops=ops)
        ns = tree_nodes(case_tmp, ci)
        # sources: op/x only (two different source variables of one node into one target variable is defect D3 of C01)
        srcs = ["/".join(p) + "/op/x" for p, j in ns if node_has(case_tmp, j, "op")]
        tgts = ["/".join(p) + "/op/u" for p, j in ns if node_has(case_tmp, j, "op")] + \
               ["/".join(p) + "/oq/v" for p, j in ns if node_has(case_tmp, j, "oq")]
        for _ in range(n):
            if srcs and tgts:
                e = [rng.choice(srcs), rng.choice(tgts), dy8(rng, 1, 32)]
                if circs[ci]["leaf"] or e[0].split("/")[0] != e[1].split("/")[0] or rng.random() < 0.5:
                    circs[ci]["edges"].append(e)
    allpool = {}        # level -> circuits of that level created so far (shared ACROSS parents as well)
    def inner(level):
        """a circuit whose children are circuits of hierarchy depth level-1 (objects may be shared: D27 class)"""
        kids = []
        pool = []
        for k in ["c1", "c2", "c3"][:rng.randint(2, 3) if depth < 3 else (2 if level == 1 else rng.randint(1, 2))]:
            if pool and rng.random() < 0.15:
                kids.append([k, rng.choice(pool)])
            elif allpool.get(level - 1) and rng.random() < 0.25:
                kids.append([k, rng.choice(allpool[level - 1])])       # an object that (also) belongs to another parent
            else:
                j = leaf() if level == 1 else inner(level - 1)
                if circs[j]["leaf"]:
                    add_edges(j, rng.randint(0, 2))
                pool.append(j)
                allpool.setdefault(level - 1, []).append(j)
                kids.append([k, j])
        circs.append(dict(leaf=False, children=kids, edges=[]))
        ci = len(circs) - 1
        add_edges(ci, rng.randint(1, 3))
        return ci
    if depth == 0:
        r = leaf(); add_edges(r, rng.randint(1, 4))
    else:
        inner(depth)
    case = dict(ops=ops, nodes=nodes, circs=circs, depth=depth, hist=[])
    root = len(circs) - 1
    import copy as _copy
    cur = dict(case, circs=_copy.deepcopy(circs))      # structure as the history goes on (update_template adds nodes / edges)
    def rand_pattern(strict=True):
        p, _ = rng.choice(tree_nodes(cur, root))
        pat = [("all" if rng.random() < 0.4 else x) for x in p]
        if rng.random() < 0.08:
            pat[-1] = rng.choice(node_names)          # possibly absent in some branch: skipped (leaf level)
        if depth >= 1 and rng.random() < 0.04:
            pat[0] = "c9"                              # absent at an inner level: matches nothing (fix D73)
        return pat
    def rand_target(need_all):
        for _ in range(20):
            pat = rand_pattern()
            res = resolve(cur, pat)
            oi = rng.randrange(len(ops)); lib = OPLIB[ops[oi]["name"]]
            var = rng.choice([lib["state"]] + lib["consts"]) if rng.random() < 0.8 else rng.choice(lib["consts"])
            if res is None:
                if need_all:
                    continue
                return pat, ops[oi]["name"], var, dy8(rng), None
            hit = [p for p, j in res if node_has(cur, j, ops[oi]["name"], var)]
            if need_all and (len(hit) != len(res) or not res):
                continue
            n = len(res) if need_all else len(hit)
            if n >= 1 and var != lib["state"] and rng.random() < 0.09:      # (a misfitting array as INITIAL VALUE makes a vector-valued state: not modelled)
                m = rng.choice([k for k in (n - 1, n + 1, n + 2) if k >= 2])   # length differs from the number of addressed nodes
                return pat, ops[oi]["name"], var, [dy8(rng) for _ in range(m)], n
            if n >= 1 and rng.random() < 0.4:
                vals = [dy8(rng) for _ in range(n)]
                if len(set(vals)) < n:
                    vals = [str(Fr(i + 1, 8) + Fr(vals[i])) for i in range(n)]
                return pat, ops[oi]["name"], var, vals, n
            return pat, ops[oi]["name"], var, dy8(rng), n
        return None
    hist = []
    nbases = [0]
    for _ in range(rng.randint(2, maxlen)):
        r = rng.random()
        if nbases[0] and rng.random() < 0.25:
            hist.append(["obsbase", rng.randrange(nbases[0] + (1 if rng.random() < 0.05 else 0))])
        if r < 0.6:
            keys = []
            for _ in range(1 if rng.random() < 0.7 else 2):
                t = rand_target(False)
                if t:
                    keys.append(["/".join(t[0]), t[1], t[2], t[3]])
            raising = [k for k in keys if resolve(cur, k[0].split("/")) is None]
            if raising:
                keys = raising[:1]
            if keys:
                hist.append(["upd", keys])
        elif r < 0.72:
            es = cur["circs"][root]["edges"]
            if es and rng.random() < 0.9:
                e = rng.choice(es)
                hist.append(["edge", e[0], e[1], dy8(rng, 1, 32)])
            else:
                sub = [e for c in circs[:-1] for e in c["edges"]]
                if sub:
                    e = rng.choice(sub)
                    hist.append(["edge", "c1/" + e[0], "c1/" + e[1], dy8(rng, 1, 32)])   # not an own edge of the root: KeyError
        elif r < 0.84:
            # update_template: on a flat template possibly a new node (an existing NodeTemplate object under a new name),
            # possibly a new root edge; with or without in_place
            ns = tree_nodes(cur, root)
            adds, es = [], []
            if depth == 0 and rng.random() < 0.6:
                p, j = rng.choice(ns)
                name = rng.choice(["E", "F"])
                adds.append([name, "/".join(p)])
            if rng.random() < 0.6 or not adds:
                cand = ns + [((a[0],), dict(cur["circs"][root]["children"])[a[1]]) for a in adds]
                srcs = ["/".join(p) + "/op/x" for p, j in cand if node_has(cur, j, "op")]
                tgts = ["/".join(p) + "/op/u" for p, j in cand if node_has(cur, j, "op")]
                if srcs and tgts:
                    es.append([rng.choice(srcs), rng.choice(tgts), dy8(rng, 1, 32)])
            if depth >= 1 and rng.random() < 0.1:
                adds, inpl = [["E", "/".join(ns[0][0])]], False         # nodes= on a hierarchical template: ValueError
            else:
                inpl = rng.random() < (0.5 if not es else 0.25)
                rootc = cur["circs"][root]
                for name, path in adds:
                    j = dict(tree_nodes(cur, root))[tuple(path.split("/"))]
                    if name in dict(rootc["children"]):
                        rootc["children"] = [[k, (j if k == name else v)] for k, v in rootc["children"]]
                    else:
                        rootc["children"].append([name, j])
                rootc["edges"] = rootc["edges"] + es
            if adds or es:
                hist.append(["updtpl", inpl, adds, es])
                if not inpl and not (depth >= 1 and adds):
                    nbases[0] += 1
        else:
            keys = []
            for _ in range(rng.randint(1, 2)):
                t = rand_target(True)
                if t:
                    keys.append(["/".join(t[0]), t[1], t[2], t[3]])
            if rng.random() < 0.1:          # a node_values key that matches no node: a warning, nothing else changes
                lib0 = OPLIB[ops[0]["name"]]
                keys.append(["/".join(list(rng.choice(tree_nodes(cur, root))[0])[:-1] + ["Z"]), ops[0]["name"], lib0["consts"][0], dy8(rng)])
            ev = []
            if rng.random() < 0.5:
                alle = collect(cur, root)
                if alle and rng.random() < 0.9:
                    e = rng.choice(alle)
                    ev.append([e[0], e[1], dy8(rng, 1, 32)])
                else:
                    ev.append(["A/op/x", "Z/op/u", "1"])                 # no such edge: ignored
            hist.append(["apply", keys, ev])
    if nbases[0] and rng.random() < 0.7:
        hist.append(["obsbase", rng.randrange(nbases[0])])
    case["hist"] = hist
    return case


def shared_objects(case):
    """does some template object have two owners (the situation the property is about)?"""
    used_nodes = [j for c in case["circs"] if c["leaf"] for _, j in c["children"]]
    used_circs = [j for c in case["circs"] if not c["leaf"] for _, j in c["children"]]
    used_ops = [oi for n in case["nodes"] for oi, _ in n["ops"]]
    return len(set(used_nodes)) < len(used_nodes) or len(set(used_circs)) < len(used_circs) or len(set(used_ops)) < len(used_ops)


def shared_subcircuit(case):
    used = [j for c in case["circs"] if not c["leaf"] for _, j in c["children"]]
    return len(set(used)) < len(used)


def nontrivial(case):
    return len(case["hist"]) >= 2 and shared_objects(case)

# ---------------------------------------------------------------------------------------------- model side
import re as _re

def _switch(name, env, vfile="Values.v"):
    """a one-line switch of the model (`Definition <name> : bool := ...`), overridable by the environment variable"""
    v = os.environ.get(env)
    if v is not None:
        return v.strip() in ("1", "true")
    txt = open(os.path.join(COQ, "theories", vfile)).read()
    return _re.search(r"Definition %s : bool := (true|false)\." % name, txt).group(1) == "true"


FIXED_D97 = _switch("fixed_D97", "VERIF_C07_D97_FIXED")     # fixes/fix_D97.diff: the dtype of an int-declared variable follows the value
GUARD = "int_exact"
HEADER = """From Coq Require Import List String ZArith QArith Qcanon Bool.
From PV Require Import Heap Values ValuesProofs Corr.
Import ListNotations.
Definition fixed : bool := %s.
Definition ccase := (nat * id * heap * list string * list hop * list pyout)%%type.
Definition okI (c : ccase) := let '(d, r, h, inputs, ops, pys) := c in outs_ok inputs (snd (runI_gen fixed d (init_state h r) ops)) pys.
Definition okS (c : ccase) := let '(d, r, h, inputs, ops, pys) := c in
  match abs d h r with Some t => outs_ok inputs (snd (runS d t ops)) pys | None => false end.
Definition guard (c : ccase) := let '(d, r, h, inputs, ops, pys) := c in
  match abs d h r with Some t => orb fixed (int_exact d t ops) | None => false end.
Definition wf (c : ccase) := let '(d, r, h, inputs, ops, pys) := c in
  match abs d h r with Some t => true | None => false end.
""" % ("true" if FIXED_D97 else "false")


class Intern:
    """one `Definition` per distinct string / rational literal of a generated file: parsing literals dominates coqc time"""
    def __init__(self):
        self.s, self.q = {}, {}
    def defs(self):
        return "".join(f"Definition {n} := {core_cstr(x)}.\n" for x, n in self.s.items()) + \
               "".join(f"Definition {n} : Qc := {core_cq(x)}.\n" for x, n in self.q.items())

core_cstr, core_cq = cstr, cq
TAB = Intern()

def cstr(x):
    return TAB.s.setdefault(x, f"s{len(TAB.s)}_")

def cq(x):
    return TAB.q.setdefault(Fr(x), f"q{len(TAB.q)}_")

def cval(v):
    if isinstance(v, list):
        return "(Arr " + clist([cq(x) for x in v]) + ")"
    return f"(Sc {cq(v)})"


def cvars(vs):
    return clist([f"({cstr(k)}, {cval(v)})" for k, v in vs])


def cpath(p):
    return clist([cstr(x) for x in (p.split("/") if isinstance(p, str) else p)])


def coq_heap(case):
    nops, nnodes = len(case["ops"]), len(case["nodes"])
    objs = []
    for o in case["ops"]:
        defs = clist([f"({cstr(k)}, " + (f"ScI ({int(Fr(v))})%Z" if k in o.get("intform", []) else cval(v)) + ")" for k, v in o["defs"]])
        objs.append(f"OOp {cstr(o['name'])} [{cstr(OPLIB[o['name']]['eq'])}] {defs}")
    for n in case["nodes"]:
        objs.append("ONode " + clist([f"({cnat(oi)}, {cvars(vs)})" for oi, vs in n["ops"]]))
    for c in case["circs"]:
        off = nops if c["leaf"] else nops + nnodes
        ch = clist([f"({cstr(k)}, {cnat(off + j)})" for k, j in c["children"]])
        es = clist([f"({cstr(e[0])}, {cstr(e[1])}, [({cstr('weight')}, {cval(e[2])})" +
                    (f"; ({cstr('et/eop/t_ref')}, Ref {cstr(e[3])})" if len(e) > 3 else "") + "])" for e in c["edges"]])
        objs.append(f"OCirc {ch} {es}")
    return clist(objs), nops + nnodes + len(case["circs"]) - 1


def coq_obs(o):
    keys = clist([f"(({cpath(p)}, {cstr(op)}, {cstr(var)}), {cval(v)})" for p, op, var, v in o["keys"]])
    pairs = clist([f"({cstr(s)}, {cstr(t)}, {cq(w)})" for s, t, w in o["pairs"]])
    return f"PObs {keys} {pairs}"


def coq_case(case, outs):
    heap, root = coq_heap(case)
    ops, pys = [], []
    for h, r in zip(case["hist"] + [["obs"]], outs):
        if h[0] == "upd":
            for pat, op, var, v in h[1]:
                ops.append(f"UpdVar {cpath(pat)} {cstr(op)} {cstr(var)} {cval(v)}")
                pys.append("PDone" if r == "ok" else "PRaised")
        elif h[0] == "edge":
            ops.append(f"UpdEdge {cstr(h[1])} {cstr(h[2])} [({cstr('weight')}, {cval(h[3])})]")
            pys.append("PDone" if r == "ok" else "PRaised")
        elif h[0] == "obsbase":
            ops.append(f"ObserveBase {cnat(h[1])}")
            pys.append(coq_obs(r) if isinstance(r, dict) and "keys" in r else "PRaised")
        elif h[0] == "updtpl":
            adds = clist([f"({cstr(name)}, {cpath(path)})" for name, path in h[2]])
            es = clist([f"({cstr(s)}, {cstr(t)}, [({cstr('weight')}, {cval(w)})])" for s, t, w in h[3]])
            ops.append(f"UpdTemplate {cbool(h[1])} {adds} {es}")
            pys.append("PDone" if r == "ok" else "PRaised")
        else:
            nv = h[1] if h[0] == "apply" else []
            ev = h[2] if h[0] == "apply" and len(h) > 2 else []
            ops.append("Observe " + clist([f"({cpath(pat)}, {cstr(op)}, {cstr(var)}, {cval(v)})" for pat, op, var, v in nv]) + " " +
                       clist([f"({cstr(s)}, {cstr(t)}, [({cstr('weight')}, {cval(w)})])" for s, t, w in ev]))
            pys.append(coq_obs(r) if isinstance(r, dict) and "keys" in r else "PRaised")
    return f"({cnat(case['depth'])}, {cnat(root)}, {heap}, {clist([cstr(x) for x in INPUTS])}, {clist(ops)}, {clist(pys)})"


def model_compare(ctx, cases, outs, tag):
    badI, badS, gfalse, illformed = [], [], [], []
    shard = 25
    for s in range(0, len(cases), shard):
        TAB.__init__()
        terms = [coq_case(c, o) for c, o in zip(cases[s:s + shard], outs[s:s + shard])]
        body = (TAB.defs() + "Definition cases : list ccase := " + clist(terms) + ".\n"
                "Eval vm_compute in (mismatches okI cases).\nEval vm_compute in (mismatches okS cases).\n"
                "Eval vm_compute in (mismatches guard cases).\nEval vm_compute in (mismatches wf cases).\n")
        ls = parse_nat_lists(coq_eval(ctx, f"c07_{tag}_{s}", HEADER, body))
        assert len(ls) == 4, ls
        badI += [s + i for i in ls[0]]; badS += [s + i for i in ls[1]]; gfalse += [s + i for i in ls[2]]; illformed += [s + i for i in ls[3]]
    return badI, badS, gfalse, illformed


def model_outputs(ctx, case, outs, tag):
    TAB.__init__()
    term = coq_case(case, outs)
    body = (TAB.defs() + f"Definition c : ccase := {term}.\n"
            "Eval vm_compute in (let '(d, r, h, inputs, ops, pys) := c in match abs d h r with Some t => Some (snd (runS d t ops)) | None => None end).\n"
            "Eval vm_compute in (let '(d, r, h, inputs, ops, pys) := c in snd (runI_gen fixed d (init_state h r) ops)).\n")
    try:
        return coq_eval(ctx, f"c07_show_{tag}", HEADER, body)[:8000]
    except Exception as e:
        return f"(model evaluation failed: {e})"

# ---------------------------------------------------------------------------------------------- shrinking
def fails(ctx, case, tag):
    r = run_impl(ctx, "c07", "impl", [case], nworkers=1)[0]
    if isinstance(r, dict):
        return True, r
    badI, badS, _, _ = model_compare(ctx, [case], [r], tag)
    return bool(badS), r


def shrink(ctx, case):
    best, budget = case, 14
    i = 0
    while i < len(best["hist"]) and budget > 0:
        cand = dict(best, hist=best["hist"][:i] + best["hist"][i + 1:])
        budget -= 1
        if fails(ctx, cand, f"s{budget}")[0]:
            best = cand
        else:
            i += 1
    return best

# ---------------------------------------------------------------------------------------------- check
def check(ctx):
    pr = proof_gate(ctx, NEEDS)
    problem = proof_problem(pr)
    n, maxlen = (150, 8) if ctx.tier == "quick" else (3000, 25)
    if ctx.replay:
        rp = json.load(open(ctx.replay))
        cases = [rp["case"]] if "case" in rp else []
    else:
        cases = load_corpus("C07") + [gen_case(ctx.rng, maxlen) for _ in range(n)]
    outs = run_impl(ctx, "c07", "impl", cases, per_case_timeout=120)
    crashed = [i for i, r in enumerate(outs) if isinstance(r, dict)]
    good = [i for i in range(len(cases)) if i not in crashed]
    badI, badS, gfalse, ill = model_compare(ctx, [cases[i] for i in good], [outs[i] for i in good], "main")
    badI = [good[i] for i in badI]; badS = [good[i] for i in badS]; gfalse = [good[i] for i in gfalse]
    assert not ill, f"generator produced an ill-formed store: {ill[:5]}"
    ctx.note(f"E1: {len(cases)} histories, {sum(len(c['hist']) + 1 for c in cases)} operations; impl-vs-Impl mismatches {len(badI)}, "
             f"impl-vs-Spec mismatches {len(badS)} (of which outside the guard int_exact: {len([i for i in badS if i in gfalse])}), harness/worker errors {len(crashed)}; "
             f"histories outside the guard: {len(gfalse)}; with an int-declared constant: {sum(1 for c in cases if any(o.get('intform') for o in c['ops']))}; "
             f"histories with update_template(edges, in_place=True): {sum(1 for c in cases if any(h[0] == 'updtpl' and h[1] and h[3] for h in c['hist']))}; "
             f"histories with a sub-circuit object registered under two names: {sum(1 for c in cases if shared_subcircuit(c))}")
    def witness_check(f):
        w = json.load(open(os.path.join(VERIF, f["witness"])))
        return fails(ctx, w, "wit")[0]
    ctx.note(f"switch fixed_D97={FIXED_D97} (guard int_exact {'dropped' if FIXED_D97 else 'active'})")
    conclude(ctx, cases=cases, impl_out=outs, bad_spec=badS, bad_impl=badI, crashed=crashed, problem=problem,
             guard_viol={i: [GUARD] for i in gfalse}, witness_check=witness_check,
             spec_name="Values.runS (updates on the unshared tree: exactly the addressed paths change)", impl_name="Values.runI",
             shrink=lambda c: shrink(ctx, c),
             show=lambda c: (lambda r: dict(implementation_output=r, model_output=model_outputs(ctx, c, r, "show") if not isinstance(r, dict) else None))(fails(ctx, c, "show")[1]))
    nt = {canon(c) for c in cases if nontrivial(c)}
    kinds = dict(upd=0, edge=0, apply=0, updtpl=0, obsbase=0, array_values=0, edge_values=0, wildcard=0, raising=0, initial_value=0)
    for c, o in zip(cases, outs):
        for h in c["hist"]:
            kinds[h[0]] += 1
            if h[0] in ("upd", "apply"):
                for pat, op, var, v in h[1]:
                    kinds["array_values"] += isinstance(v, list)
                    kinds["wildcard"] += "all" in pat.split("/")
                    kinds["initial_value"] += var == OPLIB[op]["state"]
                kinds["edge_values"] += int(len(h) > 2 and bool(h[2]))
        if not isinstance(o, dict):
            kinds["raising"] += sum(1 for r in o if isinstance(r, dict) and "raised" in r)
    hist = dict(depth={d: sum(1 for c in cases if c["depth"] == d) for d in (0, 1, 2)}, operations=kinds,
                shared_template_object=sum(1 for c in cases if shared_objects(c)), two_operators_one_name=sum(1 for c in cases if len({o['name'] for o in c['ops']}) < len(c['ops'])), shared_subcircuit_object=sum(1 for c in cases if shared_subcircuit(c)),
                dictform_declarations=sum(1 for c in cases if any(o.get('dictform') for o in c['ops'])))
    write_evidence(ctx, evaluations=len(cases), distinct_nontrivial=len(nt),
                   rule="random histories (update_var with scalar and per-node array values, wildcard paths, constants and initial values; "
                        "arrays whose length differs from the number of addressed nodes; apply(node_values, edge_values); root edge-weight updates; "
                        "update_template chains (new nodes / edges, with and without in_place) with later compilation of the base templates left behind; raising calls) on circuits of hierarchy depth 0-2 built from ONE "
                        "OperatorTemplate object per name (some constants declared in explicit dict form), shared NodeTemplate objects and sub-circuit objects registered under several names of one parent or under different parents (D27/D47 class); dyadic values; "
                        "a history is non-trivial when it has >= 2 operations and some template object has two owners; distinct = distinct canonical JSON",
                   samples=[dict(cases[0], hist=cases[0]["hist"][:4])] if cases else [],
                   extra=dict(input_distribution=hist, impl_vs_model_mismatches=len(badI), impl_vs_spec_mismatches=len(badS)),
                   trusted_base=["float64 arithmetic of the generated affine right-hand sides is exact on the dyadic data (results compared as exact rationals)",
                                 "edge sums are read off the compiled vector field as dy(e_j) - dy(0)"],
                   assumptions=["patterns and node paths have depth+1 components (other lengths are not modelled)",
                                "operator templates of one name may differ in their default values (fix D90), their equations are those of the name",
                                "no compile on the same template object before the history (otherwise the C14 state-carry finding applies to initial values)",
                                "misfitting arrays are tied for constants only (as initial value of a state variable they make a vector-valued state: not modelled), and only with length >= 2; update_template(circuits=..) is not modelled"])
