"""/venv/bin/python harness/merge_findings.py : copy the open findings of known_findings.d/*.json into known_findings.json
(idempotent: entries with status 'finding' are replaced; 'fixed' entries are kept). Run by hand after editing a part file;
nothing is written at check time."""
import json, glob
V = '/verif'
d = json.load(open(f'{V}/known_findings.json'))
d['entries'] = [e for e in d['entries'] if e.get('status') != 'finding']
n = 0
for f in sorted(glob.glob(f'{V}/known_findings.d/*.json')):
    for e in json.load(open(f)):
        e = dict(e); e['status'] = 'finding'
        e.setdefault('line', f"KNOWN-FINDING: property={e['property']} {e['id']}: {e.get('text', '')[:200]}")
        d['entries'].append(e); n += 1
json.dump(d, open(f'{V}/known_findings.json', 'w'), indent=1, ensure_ascii=False)
print('open findings:', n, 'fixed:', sum(1 for e in d['entries'] if e.get('status') == 'fixed'))
