# Diagnostic only (VERIF_COVERAGE=<dir>): line coverage of /repo/pyrates by the implementation runs of a check.
import os
if os.environ.get("COVERAGE_PROCESS_START"):
    try:
        import coverage
        coverage.process_startup()
    except Exception:
        pass
