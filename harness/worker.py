"""Worker process: runs harness.<module>.<func>(case) on the real PyRates for a chunk of cases.
argv: module func in.json out.jsonl per_case_timeout.  CWD is the worker's own scratch directory (PyRates writes
generated files into the CWD and imports them by bare module name)."""
import sys, os, json, signal, traceback, importlib, warnings

def main():
    module, func, inp, outp, tmo = sys.argv[1:6]
    tmo = int(tmo)
    sys.path.insert(0, os.getcwd())
    warnings.filterwarnings("ignore")
    mod = importlib.import_module(module)
    f = getattr(mod, func)
    chunk = json.load(open(inp))
    out = open(outp, "w")

    class Timeout(Exception):
        pass
    def on_alarm(sig, frm):
        raise Timeout()
    signal.signal(signal.SIGALRM, on_alarm)
    for i, case in chunk:
        signal.alarm(tmo)
        try:
            r = f(case)
        except Timeout:
            r = {"err": "timeout"}
        except BaseException as e:   # a harness bug or an unexpected exception: reported, never swallowed
            r = {"err": "exception", "type": type(e).__name__, "msg": str(e)[:300], "tb": traceback.format_exc()[-1500:]}
        finally:
            signal.alarm(0)
        out.write(json.dumps([i, r], default=str) + "\n"); out.flush()
    out.close()

if __name__ == "__main__":
    main()
