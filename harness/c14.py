"""C14 — read-only and copy-making operations leave a template unchanged.
Model: coq/theories/Heap.v, Values.v (store, denotation), Mutation.v (Impl `mrun`: store + bookkeeping of `self`;
Spec `mstepS`: every operation is a function of the unchanged denotation); theorems: coq/properties/C14.v.
Tie: E1 — random sequences of the listed operations on flat and hierarchical templates with shared operator / node objects and
per-node overrides; after/between them the template is measured on a deep copy with cleared bookkeeping (parameter values,
declared initial values, edge sums of the compiled vector field, to_yaml text)."""
import json, os, hashlib
from fractions import Fraction as Fr
from core import *
import c07
from c07 import OPLIB, INPUTS, build, tree_nodes, node_has, resolve

NEEDS = ["Heap", "Values", "ValuesProofs", "Mutation", "MutationProofs", "Corr"]
GUARD = "no_state_carry"
GUARD_E = "no_collect"        # guard of the open finding D98 (ops_ok: also covers the former derive-and-edit guard)
STEP = 0.125

# ---------------------------------------------------------------------------------------------- impl side (worker)
def _measure(c):
    """denotation of the template object as it is now: compile a deep copy whose bookkeeping is cleared; dump another copy"""
    import pyr
    from copy import deepcopy
    cc = deepcopy(c)
    cc._state_var_values = {}; cc._state_var_indices = {}; cc._ir = None
    reset_keep_templates()
    try:
        func, args, names, smap = cc.get_run_func("f", STEP, in_place=True, float_precision="float64", vectorize=False,
                                                  backend="default", verbose=False, clear=False)
        obs = c07._read(func, args, names, smap)
    except Exception as e:
        if "Could not find object with path" not in str(e):
            raise
        obs = {"raised": "path"}          # a variable path held by an edge attribute no longer names a variable
    finally:
        reset_keep_templates()
    cy = deepcopy(c)
    cy.to_yaml("dump_x.yaml")
    txt = open("dump_x.yaml").read()
    os.remove("dump_x.yaml")
    obs["yaml"] = hashlib.sha1(txt.encode()).hexdigest()
    obs["own_edges"] = len(c.edges)
    return obs


def _declared(c):
    import numpy as np
    import pyr
    from copy import deepcopy
    cc = deepcopy(c)
    cc._state_var_values = {}; cc._state_var_indices = {}; cc._ir = None
    reset_keep_templates()
    try:
        _, args, _, smap = cc.get_run_func("f", STEP, in_place=True, float_precision="float64", vectorize=False,
                                           backend="default", verbose=False, clear=False)
        y = np.asarray(args[1], dtype=np.float64)
        return {k: float(y[int(np.asarray(i).reshape(-1)[0])]) for k, i in smap.items()}
    finally:
        reset_keep_templates()


DERIVED_EQ = {"op": "d/dt * x = k + u", "oq": "d/dt * z = v"}
YDIR, YFILE = "yd", "model_x"


def yaml_text(case):
    """the case's templates as a YAML file with `base:` chains: every operator / node / circuit template once (loading it
    through from_yaml makes every user share ONE cached object), plus one derived template of each"""
    L = []
    fl = lambda v: repr(float(Fr(v)))
    for o in case["ops"]:
        lib = OPLIB[o["name"]]
        L.append(f"{o['name']}:\n  base: OperatorTemplate\n  equations: [\"{lib['eq']}\"]\n  variables:")
        for var, v in o["defs"]:
            val = f"{lib['kind']}({fl(v)})" if var == lib["state"] else f"input({fl(v)})" if var == lib["inp"] else fl(v)
            L.append(f"    {var}: {val}")
        L.append(f"{o['name']}_derived:\n  base: {o['name']}\n  equations: [\"{DERIVED_EQ[o['name']]}\"]")
    for i, n in enumerate(case["nodes"]):
        L.append(f"n{i}:\n  base: NodeTemplate\n  operators:")
        for oi, vs in n["ops"]:
            L.append(f"    {case['ops'][oi]['name']}: {{" + ", ".join(f"{var}: {fl(v)}" for var, v in vs) + "}")
        oi0 = n["ops"][0][0]
        L.append(f"n{i}_derived:\n  base: n{i}\n  operators:\n    {case['ops'][oi0]['name']}: {{k: 7.0}}")
    for i, c in enumerate(case["circs"]):
        kind, pre = ("nodes", "n") if c["leaf"] else ("circuits", "ct")
        L.append(f"ct{i}:\n  base: CircuitTemplate\n  {kind}:")
        for k, j in c["children"]:
            L.append(f"    {k}: {pre}{j}")
        L.append("  edges:" + (" []" if not c["edges"] else ""))
        for s, t, w in c["edges"]:
            L.append(f"    - [{s}, {t}, null, {{weight: {fl(w)}}}]")
        if c["edges"]:
            s, t, w = c["edges"][0]
            L.append(f"ct{i}_derived:\n  base: ct{i}\n  edges:\n    - [{s}, {t}, null, {{weight: 0.5}}]")
    return "\n".join(L) + "\n"


def build_yaml(case):
    from pyrates.frontend import CircuitTemplate
    os.makedirs(YDIR, exist_ok=True)
    open(os.path.join(YDIR, YFILE + ".yaml"), "w").write(yaml_text(case))
    return CircuitTemplate.from_yaml(f"{YDIR}/{YFILE}/ct{len(case['circs']) - 1}")


def reset_keep_templates():
    """pyr.reset_pyrates() but the YAML template cache survives: the cached base templates are the objects under test"""
    import pyr
    from pyrates.frontend import template as _t
    saved = dict(_t.template_cache)
    pyr.reset_pyrates()
    _t.template_cache.update(saved)


def _find_op(c, name):
    for sub in (c.circuits or {}).values():
        r = _find_op(sub, name)
        if r is not None:
            return r
    for n in c.nodes.values():
        for op in n.operators:
            if op.name == name:
                return op
    return None


def impl(case):
    import numpy as np
    import pyr
    from copy import deepcopy
    pyr.reset_pyrates()
    c = build_yaml(case) if case.get("via_yaml") else build(case)
    declared = _declared(c)
    depth = case["depth"]
    outpat = "/".join(["all"] * (depth + 1)) + "/op/x"
    # extrinsic input (one sample per step) to the first node's op/u, used by the run / compile operations flagged with it
    in_target = "/".join(tree_nodes(case, len(case["circs"]) - 1)[0][0]) + "/op/u"
    in_array = np.array([0.5, 0.25, 0.5, 0.25], dtype=np.float64)
    outs = []
    for o in case["seq"]:
        k = o[0]
        if k == "obs":
            outs.append(_measure(c))
        elif k == "get_nodes":
            try:
                outs.append({"paths": c.get_nodes(o[1])})
            except (KeyError, IndexError):
                outs.append({"paths": None})
        elif k == "get_node_template":
            try:
                nt = c.get_node_template(o[1])
                outs.append({"ops": [op.name for op in nt.operators]})
            except (KeyError, IndexError):
                outs.append({"ops": None})
        elif k == "getitem":
            nt = c[o[1]]
            outs.append({"ops": None if nt is None else [op.name for op in nt.operators]})
        elif k == "get_edges":
            outs.append({"count": len(c.get_edges("all", "all"))})
        elif k == "collect_edges":
            outs.append({"count": len(c.collect_edges())})
        elif k == "sub_collect":
            # a getter on a lower level of the hierarchy: self.circuits[p1].circuits[p2]....collect_edges() / get_edges('all', 'all')
            try:
                sub = c
                for name in o[1].split("/"):
                    sub = sub.circuits[name]
                outs.append({"count": len(sub.collect_edges() if o[2] else sub.get_edges("all", "all"))})
            except KeyError:
                outs.append({"count": None})
        elif k == "collect_edges_delay":
            outs.append({"count": len(c.collect_edges(delay_info=True))})
        elif k == "derive_edit":
            # a template derived WITHOUT new edges and without in_place, then an edge update on the derived template
            if depth == 0:
                first = next(iter(c.nodes))
                d = c.update_template(nodes={"E": c.get_node_template(first)})
            else:
                d = c.update_template(circuits={"cE": next(iter(c.circuits.values()))})
            try:
                d.update_var(edge_vars=[(o[1], o[2], {"weight": float(Fr(o[3]))})])
                outs.append("done")
            except KeyError:
                outs.append("raised")
        elif k == "load_derived":
            # loading a template whose `base:` is one of the cached templates: base.update_template(**yaml dict)
            from pyrates.frontend.template import from_yaml
            from_yaml(f"{YDIR}/{YFILE}/{o[1]}_derived")
            outs.append("done")
        elif k == "op_update_vars":
            # a derived operator that overrides a variable declared in dict form with a dict (the base's dict must survive)
            _find_op(c, o[1]).update_template(name=o[1] + "_dv", variables={o[2]: {"vtype": "constant", "dtype": "float", "shape": (1,), "value": 9.0}})
            outs.append("done")
        elif k == "op_update":
            # OperatorTemplate.update_template with an equation edit and no `variables`: a derived template is returned,
            # the variables the new equation does not use are dropped from ITS dict only (fix D44)
            form = o[2] if len(o) > 2 else "list"        # the three forms update_template accepts for `equations`
            eqs = {"list": [DERIVED_EQ[o[1]]], "str": DERIVED_EQ[o[1]],
                   "dict": {"replace": {"k": "k"}, "append": "+ 0.0", "add": ["d/dt * w_new = 1.0"]}}[form]
            _find_op(c, o[1]).update_template(name=o[1] + "_derived", equations=eqs)
            outs.append("done")
        elif k == "get_edge":
            try:
                outs.append({"w": pyr.frac(c.get_edge(o[1], o[2])[3]["weight"])})
            except KeyError:
                outs.append({"w": None})
        elif k == "to_yaml":
            c.to_yaml("user_x.yaml"); os.remove("user_x.yaml")
            outs.append("done")
        elif k == "deepcopy":
            deepcopy(c)
            outs.append("done")
        elif k == "update_template":
            c.update_template(edges=[(s, t, None, {"weight": float(Fr(w))}) for s, t, w in o[1]])
            outs.append("done")
        elif k in ("grf", "jac"):
            reset_keep_templates()
            try:
                meth = c.get_run_func if k == "grf" else c.get_jacobian_func
                kw = {"inputs": {in_target: in_array.copy()}} if len(o) > 2 and o[2] else {}
                _, args, _, smap = meth("f", STEP, in_place=False, float_precision="float64", vectorize=bool(o[1]),
                                        backend="default", verbose=False, clear=False, **kw)
                y = np.asarray(args[1], dtype=np.float64)
                # vectorized compiles name the merged state vector differently: compare the multiset of initial values
                outs.append({"y0": "declared" if sorted(y.reshape(-1).tolist()) == sorted(declared.values()) else "carried"})
            except Exception as e:          # ValueError / KeyError / TypeError: state carry; PyRatesException: unresolvable edge attribute path
                outs.append({"y0": "err", "type": type(e).__name__})
            finally:
                reset_keep_templates()
        elif k == "run":
            reset_keep_templates()
            try:
                kw = {"inputs": {in_target: in_array.copy()}} if len(o) > 2 and o[2] else {}
                res = c.run(simulation_time=4 * STEP, step_size=STEP, solver="euler", outputs={"o": outpat}, in_place=False,
                            float_precision="float64", vectorize=bool(o[1]), backend="default", verbose=False, clear=False, **kw)
                first = sorted(float(v) for v in np.asarray(res.iloc[0]).reshape(-1))
                ok = first == sorted(v for kk, v in declared.items() if kk.endswith("/op/x"))
                outs.append({"run": "ok" if ok else "other-start"})
            except Exception as e:     # TypeError after get_run_func, IndexError after get_jacobian_func, PyRatesException: unresolvable path
                outs.append({"run": "err", "type": type(e).__name__})
            finally:
                reset_keep_templates()
    return outs

# ---------------------------------------------------------------------------------------------- generator
def pos8(rng):
    return str(Fr(rng.randint(1, 24), 8))


def gen_case(rng, maxlen):
    depth = rng.choice([0, 0, 1, 1, 1, 2, 2, 3])      # up to four template levels (top -> middle -> middle -> leaf -> nodes)
    oplist = ["op"] if rng.random() < 0.5 else ["op", "oq"]
    ops = []
    for n in oplist:
        lib = OPLIB[n]
        ops.append(dict(name=n, defs=[[lib["state"], pos8(rng)]] + [[k, pos8(rng)] for k in lib["consts"]] + [[lib["inp"], "0"]],
                        dictform=[k for k in lib["consts"] if rng.random() < 0.4]))
    nodes = []
    for _ in range(rng.randint(1, 3)):
        nops = []
        for oi in range(len(ops)):       # every node has the same operator list: vectorization merges all nodes
            lib = OPLIB[ops[oi]["name"]]
            nops.append([oi, [[v, pos8(rng)] for v in [lib["state"]] + lib["consts"] if rng.random() < 0.35]])
        nodes.append(dict(ops=nops))
    names = ["A", "B", "C", "D"]
    circs = []
    tmp = lambda: dict(circs=circs, nodes=nodes, ops=ops)
    def add_edges(ci, n):
        ns = tree_nodes(tmp(), ci)
        srcs = ["/".join(p) + "/op/x" for p, j in ns]
        tgts = ["/".join(p) + "/op/u" for p, j in ns] + (["/".join(p) + "/oq/v" for p, j in ns] if "oq" in oplist else [])
        for _ in range(n):
            circs[ci]["edges"].append([rng.choice(srcs), rng.choice(tgts), pos8(rng)])
    def leaf():
        circs.append(dict(leaf=True, children=[[k, rng.randrange(len(nodes))] for k in names[:rng.randint(2, 3)]], edges=[]))
        add_edges(len(circs) - 1, rng.randint(0, 2))
        if rng.random() < 0.35:
            # an edge through an edge template whose second input is addressed by a variable path (string-valued attribute)
            ns = ["/".join(p) for p, j in tree_nodes(tmp(), len(circs) - 1)]
            circs[-1]["edges"].append([rng.choice(ns) + "/op/x", rng.choice(ns) + "/op/u", pos8(rng), rng.choice(ns) + "/op/x"])
        return len(circs) - 1
    def has_ref(j):
        c_ = circs[j]
        return any(len(e) > 3 for e in c_["edges"]) or (not c_["leaf"] and any(has_ref(jj) for _, jj in c_["children"]))
    def inner(level):
        kids, pool = [], []
        for k in ["c1", "c2", "c3"][:(rng.randint(1, 2) if level > 1 else rng.randint(2, 3)) if depth < 3 else rng.randint(1, 2)]:
            # before fix D98 a sub-circuit object with a path-valued edge attribute that is registered under two names
            # cannot be compiled at all (its dictionary is prefixed once per name): shared only when the repair is in
            share = [j for j in pool if FIXED_98 or not has_ref(j)]
            if share and rng.random() < 0.2:
                kids.append([k, rng.choice(share)])
            else:
                j = leaf() if level == 1 else inner(level - 1)
                pool.append(j); kids.append([k, j])
        circs.append(dict(leaf=False, children=kids, edges=[]))
        add_edges(len(circs) - 1, rng.randint(1, 3))
        if rng.random() < 0.4:
            # EVERY level may own an edge through the edge template whose second input is a variable path (a middle-level
            # circuit owning such an edge between its sub-circuits is what collect_edges of the level above has to leave alone)
            ns = ["/".join(p) for p, j in tree_nodes(tmp(), len(circs) - 1)]
            circs[-1]["edges"].append([rng.choice(ns) + "/op/x", rng.choice(ns) + "/op/u", pos8(rng), rng.choice(ns) + "/op/x"])
        return len(circs) - 1
    if depth == 0:
        leaf()
        if not circs[0]["edges"]:
            add_edges(0, 1)
    else:
        inner(depth)
    case = dict(ops=ops, nodes=nodes, circs=circs, depth=depth)
    root = len(circs) - 1
    allnodes = tree_nodes(case, root)
    mode = rng.choice(["runs", "runs", "compile", "compile", "none", "mixed", "mixed"])
    vec0 = rng.random() < 0.5
    seq = [["obs"]]
    for _ in range(rng.randint(2, maxlen)):
        r = rng.random()
        if r < 0.14:
            p, _ = rng.choice(allnodes)
            pat = [("all" if rng.random() < 0.5 else x) for x in p]
            if rng.random() < 0.1:
                pat[-1] = rng.choice(names)
            seq.append(["get_nodes", "/".join(pat)])
        elif r < 0.24:
            p, _ = rng.choice(allnodes)
            p = list(p)
            if rng.random() < 0.1:
                p[-1] = "Z"
            seq.append(["get_node_template", "/".join(p)])
        elif r < 0.28 and depth == 0:
            seq.append(["getitem", rng.choice(names)])
        elif r < 0.38:
            if depth >= 1 and rng.random() < 0.45:
                # the getter on a sub-circuit of any level (a prefix of a node path), rarely on a name that does not exist
                p = list(rng.choice(allnodes)[0])[:rng.randint(1, depth)]
                if rng.random() < 0.06:
                    p[-1] = "c9"
                seq.append(["sub_collect", "/".join(p), rng.random() < 0.5])
            else:
                seq.append([rng.choice(["get_edges", "collect_edges", "collect_edges_delay"])])
        elif r < 0.44:
            es = circs[root]["edges"]
            e = rng.choice(es) if es and rng.random() < 0.85 else ["A/op/x", "Z/op/u", "1"]
            seq.append(["get_edge", e[0], e[1]])
        elif r < 0.52:
            seq.append(["to_yaml"])
        elif r < 0.56:
            seq.append(["deepcopy"])
        elif r < 0.6:
            seq.append(["op_update", rng.choice(oplist), rng.choice(["list", "str", "dict"])])
        elif r < 0.69 and r >= 0.67:
            es = circs[root]["edges"]
            e = rng.choice(es) if es and rng.random() < 0.85 else ["A/op/x", "Z/op/u", "1"]
            seq.append(["derive_edit", e[0], e[1], pos8(rng)])
        elif r < 0.67:
            ns = ["/".join(p) for p, _ in allnodes]
            seq.append(["update_template", [[rng.choice(ns) + "/op/x", rng.choice(ns) + "/op/u", pos8(rng)]]])
        elif r < 0.9:
            if mode == "none":
                seq.append(["obs"])
            elif mode == "runs":
                seq.append(["run", rng.random() < 0.5])
            elif mode == "compile":
                seq.append([rng.choice(["grf", "grf", "jac"]), vec0])
            else:
                seq.append(rng.choice([["run", rng.random() < 0.5], ["grf", rng.random() < 0.5], ["jac", rng.random() < 0.5], ["grf", vec0]]))
        else:
            seq.append(["obs"])
    seq.append(["obs"])
    if depth <= 1:
        for o in seq:          # extrinsic inputs on some run / compile calls (hierarchies of depth >= 2: defect D30 of C08)
            if o[0] in ("run", "grf", "jac") and rng.random() < 0.4:
                o.append(True)
    dvars = [(o["name"], v) for o in ops for v in o.get("dictform", [])]
    for _ in range(rng.randint(0, 2) if dvars else 0):
        n_, v_ = rng.choice(dvars)
        seq.insert(rng.randint(1, len(seq) - 1), ["op_update_vars", n_, v_])
    case["seq"] = seq
    if rng.random() < 0.35:
        # the same templates loaded from a YAML file (cached, shared objects); derived templates are loaded during the sequence
        case["via_yaml"] = True
        for o in ops:
            o["dictform"] = []
        for c_ in circs:           # the handwritten YAML has no edge templates
            c_["edges"] = [e[:3] for e in c_["edges"]]
        seq[:] = [o for o in seq if o[0] != "op_update_vars"]
        names_d = [o["name"] for o in ops] + [f"n{i}" for i in range(len(nodes))] + [f"ct{i}" for i, c in enumerate(circs) if c["edges"]]
        k = rng.randint(1, 3)
        for _ in range(k):
            seq.insert(rng.randint(1, len(seq) - 1), ["load_derived", rng.choice(names_d)])
    return case


def nontrivial(case):
    nops = sum(1 for o in case["seq"] if o[0] != "obs")
    return nops >= 2 and (c07.shared_objects(case) or case["depth"] >= 1)

# ---------------------------------------------------------------------------------------------- model side
import re as _re

def _switch(name, env):
    """a one-line switch of Mutation.v (`Definition <name> : bool := ...`), overridable by the environment variable"""
    v = os.environ.get(env)
    if v is not None:
        return v.strip() in ("1", "true")
    txt = open(os.path.join(COQ, "theories", "Mutation.v")).read()
    return _re.search(r"Definition %s : bool := (true|false)\." % name, txt).group(1) == "true"


FIXED = _switch("fixed_state_carry", "VERIF_C14_FIXED")              # fix D74 (true on the current tree)
FIXED_E = _switch("fixed_shared_edge_dicts", "VERIF_C14_EDGES_FIXED")  # fix D82 (true on the current tree)
FIXED_98 = _switch("fixed_D98", "VERIF_C14_D98_FIXED")                 # fixes/fix_D98.diff: collect_edges prefixes in a copy
HEADER = """From Coq Require Import List String ZArith QArith Qcanon Bool.
From PV Require Import Heap Values Mutation Corr.
Import ListNotations.
Definition fixed : bool := %s.
Definition fixed_e : bool := %s.
Definition fixed98 : bool := %s.
Definition ccase := (nat * id * heap * list string * list mop * list pymout)%%type.
Definition okI (c : ccase) := let '(d, r, h, inputs, ops, pys) := c in mouts_ok inputs (snd (mrun_gen fixed fixed_e fixed98 d r (h, book0) ops)) pys.
Definition okS (c : ccase) := let '(d, r, h, inputs, ops, pys) := c in
  match abs d h r with Some t => mouts_ok inputs (map (mstepS d t) ops) pys | None => false end.
Definition guard (c : ccase) := let '(d, r, h, inputs, ops, pys) := c in orb fixed (no_state_carry ops).
Definition has_ref (h : heap) : bool :=
  existsb (fun o => match o with
                    | OCirc _ es => existsb (fun e : edge => let '(_, _, a) := e in
                                              existsb (fun kv : string * val => match snd kv with Ref _ => true | _ => false end) a) es
                    | _ => false end) h.
(* outside the guard of finding D98: a collect_edges / get_edges call on a template that has a path-valued edge attribute *)
Definition guard_e (c : ccase) := let '(d, r, h, inputs, ops, pys) := c in ops_ok fixed_e fixed98 ops || negb (has_ref h).
Definition wf (c : ccase) := let '(d, r, h, inputs, ops, pys) := c in match abs d h r with Some t => true | None => false end.
""" % ("true" if FIXED else "false", "true" if FIXED_E else "false", "true" if FIXED_98 else "false")


def coq_case(case, outs):
    cstr, cq, cpath = c07.cstr, c07.cq, c07.cpath
    heap, root = c07.coq_heap(case)
    ops, pys = [], []
    for o, r in zip(case["seq"], outs):
        k = o[0]
        if k == "obs":
            ops.append("MObserve"); pys.append("PRaised'" if "raised" in r else "PObs'" + c07.coq_obs(r)[4:])
        elif k == "get_nodes":
            ops.append(f"MRead (QNodes {cpath(o[1])})")
            pys.append("PPaths None" if r["paths"] is None else "PPaths (Some " + clist([cpath(p) for p in r["paths"]]) + ")")
        elif k in ("get_node_template", "getitem"):
            ops.append(f"MRead (QNodeTemplate {cpath(o[1])})")
            pys.append("PNodeOps None" if r["ops"] is None else "PNodeOps (Some " + clist([cstr(x) for x in r["ops"]]) + ")")
        elif k == "derive_edit":
            ops.append(f"MDeriveEdit {cstr(o[1])} {cstr(o[2])} [({cstr('weight')}, {c07.cval(o[3])})]")
            pys.append("PDone'" if r == "done" else "PRaised'")
        elif k in ("op_update", "load_derived", "op_update_vars"):
            ops.append(f"MNewObject (OOp {cstr(o[1] + '_derived')} [] [])"); pys.append("PDone'")
        elif k == "sub_collect":
            ops.append(f"MSubEdges {cpath(o[1])}")
            pys.append("PEdgeCount None" if r["count"] is None else f"PEdgeCount (Some {cnat(r['count'])})")
        elif k in ("get_edges", "collect_edges", "collect_edges_delay"):
            ops.append("MRead QEdges"); pys.append(f"PEdgeCount (Some {cnat(r['count'])})")
        elif k == "get_edge":
            ops.append(f"MRead (QEdge {cstr(o[1])} {cstr(o[2])})")
            pys.append("PEdgeW None" if r["w"] is None else f"PEdgeW (Some {cq(r['w'])})")
        elif k == "to_yaml":
            ops.append("MToYaml"); pys.append("PDone'")
        elif k == "deepcopy":
            ops.append("MDeepcopy"); pys.append("PDone'")
        elif k == "update_template":
            ops.append("MUpdateTemplate " + clist([f"({cstr(s)}, {cstr(t)}, [({cstr('weight')}, {c07.cval(w)})])" for s, t, w in o[1]]))
            pys.append("PDone'")
        elif k in ("grf", "jac"):
            ops.append(f"MCompile {cbool(k == 'jac')} {cbool(o[1])}")
            pys.append("PCompile " + dict(declared="YDeclared", carried="YCarried", err="YErr")[r["y0"]])
        elif k == "run":
            ops.append(f"MRun {cbool(o[1])}")
            pys.append("PRun true" if r["run"] == "ok" else "PRun false" if r["run"] == "err" else "PDone'")
    return f"({cnat(case['depth'])}, {cnat(root)}, {heap}, {clist([cstr(x) for x in INPUTS])}, {clist(ops)}, {clist(pys)})"


def model_compare(ctx, cases, outs, tag):
    badI, badS, gfalse, ill, gefalse = [], [], [], [], []
    shard = 25
    for s in range(0, len(cases), shard):
        c07.TAB.__init__()
        terms = [coq_case(c, o) for c, o in zip(cases[s:s + shard], outs[s:s + shard])]
        body = (c07.TAB.defs() + "Definition cases : list ccase := " + clist(terms) + ".\n"
                "Eval vm_compute in (mismatches okI cases).\nEval vm_compute in (mismatches okS cases).\n"
                "Eval vm_compute in (mismatches guard cases).\nEval vm_compute in (mismatches wf cases).\n"
                "Eval vm_compute in (mismatches guard_e cases).\n")
        ls = parse_nat_lists(coq_eval(ctx, f"c14_{tag}_{s}", HEADER, body))
        assert len(ls) == 5, ls
        badI += [s + i for i in ls[0]]; badS += [s + i for i in ls[1]]; gfalse += [s + i for i in ls[2]]; ill += [s + i for i in ls[3]]
        gefalse += [s + i for i in ls[4]]
    model_compare.guard_e_false = gefalse
    return badI, badS, gfalse, ill


def side_checks(case, outs):
    """observables that have no counterpart in the Coq model: to_yaml text and the template's own edge list length must be
    the same at every measurement (exact equality)"""
    obs = [r for o, r in zip(case["seq"], outs) if o[0] == "obs"]
    return len({r["yaml"] for r in obs}) > 1 or len({r["own_edges"] for r in obs}) > 1


def model_outputs(ctx, case, outs, tag):
    c07.TAB.__init__()
    term = coq_case(case, outs)
    body = (c07.TAB.defs() + f"Definition c : ccase := {term}.\n"
            "Eval vm_compute in (let '(d, r, h, inputs, ops, pys) := c in snd (mrun_gen fixed fixed_e d r (h, book0) ops)).\n")
    try:
        return coq_eval(ctx, f"c14_show_{tag}", HEADER, body)[:6000]
    except Exception as e:
        return f"(model evaluation failed: {e})"


def fails(ctx, case, tag):
    r = run_impl(ctx, "c14", "impl", [case], nworkers=1)[0]
    if isinstance(r, dict):
        return True, r
    badI, badS, _, _ = model_compare(ctx, [case], [r], tag)
    return bool(badS) or side_checks(case, r), r


def shrink(ctx, case):
    best, budget = case, 12
    i = 1
    while i < len(best["seq"]) - 1 and budget > 0:
        cand = dict(best, seq=best["seq"][:i] + best["seq"][i + 1:])
        budget -= 1
        if fails(ctx, cand, f"s{budget}")[0]:
            best = cand
        else:
            i += 1
    return best

# ---------------------------------------------------------------------------------------------- check
def check(ctx):
    pr = proof_gate(ctx, NEEDS)
    problem = proof_problem(pr)
    n, maxlen = (140, 8) if ctx.tier == "quick" else (2500, 25)
    if ctx.replay:
        rp = json.load(open(ctx.replay))
        cases = [rp["case"]] if "case" in rp else []
    else:
        cases = load_corpus("C14") + [gen_case(ctx.rng, maxlen) for _ in range(n)]
    outs = run_impl(ctx, "c14", "impl", cases, per_case_timeout=180)
    crashed = [i for i, r in enumerate(outs) if isinstance(r, dict)]
    good = [i for i in range(len(cases)) if i not in crashed]
    badI, badS, gfalse, ill = model_compare(ctx, [cases[i] for i in good], [outs[i] for i in good], "main")
    badI = [good[i] for i in badI]; badS = [good[i] for i in badS]; gfalse = [good[i] for i in gfalse]
    gefalse = [good[i] for i in model_compare.guard_e_false]
    assert not ill, f"generator produced an ill-formed store: {ill[:5]}"
    side = [i for i in good if side_checks(cases[i], outs[i])]
    # a derive-and-edit sequence changes the base's edge weight (the model predicts it): the dump text changes with it
    badS = sorted(set(badS) | set(side)); badI = sorted(set(badI) | (set(side) - set(gefalse)))
    ctx.note(f"switches: fixed_state_carry={FIXED} (guard no_state_carry {'dropped' if FIXED else 'active'}), "
             f"fixed_shared_edge_dicts={FIXED_E}, fixed_D98={FIXED_98} (guard no_collect {'dropped' if FIXED_98 else 'active'})")
    gany = sorted(set(gfalse) | set(gefalse))
    ctx.note(f"E1: {len(cases)} sequences, {sum(len(c['seq']) for c in cases)} operations; impl-vs-Impl mismatches {len(badI)}, "
             f"impl-vs-Spec mismatches {len(badS)} (of which outside a guard: {len([i for i in badS if i in gany])}), "
             f"to_yaml-text / own-edge-list changes {len(side)}, harness/worker errors {len(crashed)}; sequences outside the guards: "
             f"no_state_carry {len(gfalse)}, no_collect {len(gefalse)}; templates with a path-valued edge attribute: "
             f"{sum(1 for c in cases if any(len(e) > 3 for cc in c['circs'] for e in cc['edges']))}")
    def witness_check(f):
        w = json.load(open(os.path.join(VERIF, f["witness"])))
        return fails(ctx, w, "wit")[0]
    conclude(ctx, cases=cases, impl_out=outs, bad_spec=badS, bad_impl=badI, crashed=crashed, problem=problem,
             guard_viol={i: ([GUARD] if i in gfalse else []) + ([GUARD_E] if i in gefalse else []) for i in gany},
             spec_name="Mutation.mstepS (every operation is a function of the unchanged denotation)", impl_name="Mutation.mrun",
             shrink=lambda c: shrink(ctx, c), witness_check=witness_check,
             show=lambda c: (lambda r: dict(implementation_output=[x if not (isinstance(x, dict) and "keys" in x) else dict(x, keys=f"({len(x['keys'])} values)", pairs=x["pairs"]) for x in r] if isinstance(r, list) else r,
                                            model_output=model_outputs(ctx, c, r, "show") if not isinstance(r, dict) else None))(fails(ctx, c, "show")[1]))
    nt = {canon(c) for c in cases if nontrivial(c)}
    kinds = {}
    for c in cases:
        for o in c["seq"]:
            kinds[o[0]] = kinds.get(o[0], 0) + 1
    write_evidence(ctx, evaluations=len(cases), distinct_nontrivial=len(nt),
                   rule="random sequences of get_nodes / get_node_template / __getitem__ / get_edges / collect_edges (also delay_info=True; on the template and on its sub-circuits of every level) / get_edge / to_yaml / "
                        "deepcopy / update_template(edges) / derive-and-edit (update_template(nodes|circuits) without edges, then an edge update on the derived template) / OperatorTemplate.update_template(equations) / loading a derived template (base: chain) from YAML / get_run_func / get_jacobian_func / run (in_place=False, both vectorize settings, with and without extrinsic inputs) on templates of depth 0-3 "
                        "with one OperatorTemplate object per name (constants partly declared in explicit dict form), shared NodeTemplate objects, per-node overrides, (20%) shared sub-circuit objects and, on EVERY level of the hierarchy, edges through an edge template with a path-valued attribute; "
                        "the template is measured (deep copy with cleared bookkeeping: parameter values, declared initial values, edge sums, to_yaml text, "
                        "own edge count) before, between and after; non-trivial = >= 2 operations and (a shared object or a hierarchy); distinct = canonical JSON",
                   samples=[dict(cases[-1], seq=cases[-1]["seq"][:6])] if cases else [],
                   extra=dict(input_distribution=dict(depth={d: sum(1 for c in cases if c["depth"] == d) for d in (0, 1, 2)}, operations=kinds,
                                                      outside_guard=len(gfalse), built_through_from_yaml=sum(1 for c in cases if c.get('via_yaml')), shared_template_object=sum(1 for c in cases if c07.shared_objects(c))),
                              impl_vs_model_mismatches=len(badI), impl_vs_spec_mismatches=len(badS)),
                   trusted_base=["float64 arithmetic of the generated affine right-hand sides is exact on the dyadic data",
                                 "to_yaml text and the length of the template's own edge list are compared for equality across measurements on the Python side "
                                 "(they have no counterpart in the Coq model)",
                                 "a compile's initial state is classified as declared / carried by exact comparison with the declared initial values "
                                 "(all generated derivatives are > 0, so a carried final state differs)"],
                   assumptions=["edge attribute dictionaries hold numbers only (collect_edges rewrites string-valued attributes of sub-circuit edges: not modelled)",
                                "extrinsic inputs only on hierarchies of depth <= 1 (depth >= 2: defect D30 of C08); default backend; the vectorize-switch outcomes are those of circuits whose nodes all merge under vectorization",
                                "OperatorTemplate.update_template and loading a derived template from YAML (35% of the cases are built through from_yaml, so that the cached base templates are the objects under test) are modelled as the creation of one new object (MNewObject)"])
