"""C03 — run() returns the Euler/Heun iterates: rows, cadence, first row, time axis, cutoff.
Model: coq/theories/Solver.v (Impl `solve`/`run_model`, Spec `spec_rows`/`spec_run`); theorems: coq/properties/C03.v.
Tie (E1), two levels:
  kind "solve": BaseBackend._solve_euler/_solve_heun of the default backend called directly with affine right-hand
                sides that are *stateful* (they count their calls and read the time argument, and either return a
                fresh array or their own buffer, as generated code does);
  kind "run"  : CircuitTemplate.run on uncoupled linear nodes x' = k*x + c, random (T, dt, dts, cutoff), solver
                euler/heun, vectorize on/off; values, index, shape, column order compared exactly as rationals."""
import json, os
from fractions import Fraction as Fr
from core import *

NEEDS = ["Solver", "SolverProofs", "Corr"]
GUARDS = ["rows_fit", "heun_same_time"]

# ---------------------------------------------------------------------------------------------- impl side (worker)
def _err(e):
    return {"raised": type(e).__name__, "msg": str(e)[:160]}

def impl(case):
    if case["kind"] == "adaptive":
        return impl_adaptive(case)
    if case["kind"] == "cadence":
        return impl_cadence(case)
    return impl_solve(case) if case["kind"] == "solve" else impl_run(case)

def impl_cadence(case):
    """non-dyadic cadence stream: x' = 1 from x = 0 with decimal step sizes; every returned row is decoded into the
    INTEGER pair (round(time/dt), round(x/dt)) = (step number the index claims, number of steps actually taken)"""
    import numpy as np
    from pyr import reset_pyrates
    reset_pyrates()
    try:
        from pyrates import OperatorTemplate, NodeTemplate, CircuitTemplate
        op = OperatorTemplate(name="op", equations=["x' = k*x + c"], variables={"x": "output(0.0)", "k": 0.0, "c": 1.0})
        circ = CircuitTemplate(name="c", nodes={"n0": NodeTemplate(name="n0", operators=[op])})
        dt = float(Fr(case["dt"]))
        try:
            res = circ.run(simulation_time=float(Fr(case["T"])), step_size=dt, sampling_step_size=float(Fr(case["dts"])), solver=case["solver"],
                           outputs={"o0": "n0/op/x"}, cutoff=0.0, vectorize=case["vectorize"], in_place=False, verbose=False, clear=True,
                           float_precision="float64", backend=case["backend"])
        except (IndexError, ZeroDivisionError, ValueError) as e:
            return _err(e)
        rows = []
        for t, x in zip(res.index.values, np.asarray(res.values, dtype=np.float64).reshape(-1)):
            a, b = float(t) / dt, float(x) / dt
            if abs(a - round(a)) > 1e-6 or abs(b - round(b)) > 1e-6:      # not a whole number of steps: cannot be decoded
                return {"raised": "NotAStepCount", "msg": f"t/dt={a!r} x/dt={b!r}"}
            rows.append([f"{int(round(a))}/1", f"{int(round(b))}/1"])
        return {"rows": rows}
    finally:
        reset_pyrates()

def impl_adaptive(case):
    """support stream: run(solver='scipy', rtol, atol) on x' = k*x + c; the harness compares with the closed form"""
    import numpy as np
    from pyr import reset_pyrates
    reset_pyrates()
    try:
        from pyrates import OperatorTemplate, NodeTemplate, CircuitTemplate
        op = OperatorTemplate(name="op", equations=["x' = k*x + c"], variables={"x": f"output({float(Fr(case['x0']))})",
                              "k": float(Fr(case["k"])), "c": float(Fr(case["c"]))})
        circ = CircuitTemplate(name="c", nodes={"a": NodeTemplate(name="n", operators=[op])})
        res = circ.run(simulation_time=float(Fr(case["T"])), step_size=float(Fr(case["dt"])), sampling_step_size=float(Fr(case["dts"])),
                       solver="scipy", method=case["method"], rtol=case["rtol"], atol=case["atol"], outputs={"x": "a/op/x"},
                       in_place=False, verbose=False, clear=True, float_precision="float64", backend="default")
        return {"index": [_fr(t) for t in res.index.values], "values": [float(v) for v in np.asarray(res["x"].values).reshape(-1)]}
    finally:
        reset_pyrates()

def impl_solve(case):
    import numpy as np
    from pyrates.backend.base.base_backend import BaseBackend
    f = lambda v: np.array([float(Fr(x)) for x in v], dtype=np.float64)
    A = np.array([[float(Fr(x)) for x in r] for r in case["A"]], dtype=np.float64).reshape(len(case["y0"]), len(case["y0"]))
    b, vn, vt = f(case["b"]), f(case["vn"]), f(case["vt"])
    state = {"n": 0}
    buf = np.zeros(len(case["y0"]))
    def func(t, y):
        r = A @ y + b + state["n"] * vn + t * vt
        state["n"] += 1
        if case["aliased"]:          # what generated code does: write into the caller's dy buffer and return it
            buf[:] = r
            return buf
        return r
    meth = BaseBackend._solve_euler if case["solver"] == "euler" else BaseBackend._solve_heun
    y_init = f(case["y0"])
    if case.get("backend", "default") == "torch":          # the torch backend's own Euler loop, tensor-valued closure
        import torch
        from pyrates.backend.torch.torch_backend import TorchBackend
        assert case["solver"] == "euler"
        tA, tb, tvn, tvt = (torch.from_numpy(np.ascontiguousarray(v)) for v in (A, b, vn, vt))
        tbuf = torch.zeros(len(case["y0"]), dtype=torch.float64)
        def func(t, y):
            r = tA @ y + tb + state["n"] * tvn + t * tvt
            state["n"] += 1
            if case["aliased"]:
                tbuf[:] = r
                return tbuf
            return r
        meth, y_init = TorchBackend._solve_euler, torch.from_numpy(y_init)
    try:
        rec = meth(func, (), float(Fr(case["T"])), float(Fr(case["dt"])), float(Fr(case["dts"])), y_init, int(case["t0"]))
    except (IndexError, ZeroDivisionError, ValueError) as e:
        return _err(e)
    rec = np.asarray(rec, dtype=np.float64)
    rec = np.where(np.isfinite(rec), rec, 0.0)      # unwritten np.empty rows may hold anything; the model ignores them
    return {"rows": [[_fr(v) for v in row] for row in rec], "calls": state["n"]}

def _fr(x):
    f = Fr(float(x))
    return f"{f.numerator}/{f.denominator}"

def impl_run(case):
    import numpy as np
    from pyr import reset_pyrates
    reset_pyrates()
    try:
        from pyrates import OperatorTemplate, NodeTemplate, CircuitTemplate
        inp = case.get("inp")
        if inp:     # a time-dependent term: extrinsic input u_k = b + a*k on one node (read with the step counter)
            op = OperatorTemplate(name="op", equations=["x' = k*x + c + u"], variables={"x": "output(0.0)", "k": 0.0, "c": 0.0, "u": "input(0.0)"})
        else:
            op = OperatorTemplate(name="op", equations=["x' = k*x + c"], variables={"x": "output(0.0)", "k": 0.0, "c": 0.0})
        nodes = {f"n{i}": NodeTemplate(name=f"n{i}", operators={op: {"k": float(Fr(n["k"])), "c": float(Fr(n["c"])), "x": float(Fr(n["x0"]))}})
                 for i, n in enumerate(case["nodes"])}
        circ = CircuitTemplate(name="c", nodes=nodes)
        oform = case.get("oform", "dict")
        if oform == "list":        # list-form outputs: columns are the variable paths
            outputs = [f"n{i}/op/x" for i in case["cols"]]
            expect_cols = list(outputs)
        elif oform == "wild":      # one wildcard key: MultiIndex columns (key, node, 'op/x') in node order (cols = all nodes in order)
            outputs = {"o": "all/op/x"}
            # (a wildcard that matches a single variable gives the plain column 'o')
            expect_cols = [("o", f"n{i}", "op/x") for i in case["cols"]] if len(case["nodes"]) > 1 else ["o"]
        else:
            outputs = {f"o{j}": f"n{i}/op/x" for j, i in enumerate(case["cols"])}
            expect_cols = list(outputs)
        kw = dict(simulation_time=float(Fr(case["T"])), step_size=float(Fr(case["dt"])), solver=case["solver"], outputs=outputs,
                  cutoff=float(Fr(case["cutoff"])), vectorize=case["vectorize"], in_place=False, verbose=False, clear=True,
                  float_precision="float64", backend=case.get("backend", "default"))
        if case["dts"] is not None:
            kw["sampling_step_size"] = float(Fr(case["dts"]))
        if inp:
            kw["inputs"] = {f"n{inp['node']}/op/u": np.array([float(inp["b"] + inp["a"] * k) for k in range(inp["n"])], dtype=np.float64)}
        try:
            res = circ.run(**kw)
        except (IndexError, ZeroDivisionError, ValueError) as e:
            return _err(e)
        vals = np.asarray(res.values, dtype=np.float64)
        if list(res.columns) != expect_cols or vals.ndim != 2 or vals.shape != (len(res.index), len(expect_cols)):
            return {"raised": "BadFrame", "msg": f"columns={list(res.columns)} shape={vals.shape} index={len(res.index)}"}
        vals = np.where(np.isfinite(vals), vals, 0.0)
        return {"rows": [[_fr(t)] + [_fr(v) for v in row] for t, row in zip(res.index.values, vals)]}
    finally:
        reset_pyrates()

# ---------------------------------------------------------------------------------------------- generator
def _dy(rng, lo, hi, den):
    return Fr(rng.randint(lo, hi), den)

def to_lin(case):
    """the affine right-hand side of a case (both kinds) as Fractions"""
    if case["kind"] == "solve":
        n = len(case["y0"])
        return ([[Fr(x) for x in r] for r in case["A"]], [Fr(x) for x in case["b"]], [Fr(x) for x in case["vn"]],
                [Fr(x) for x in case["vt"]], [Fr(x) for x in case["y0"]])
    n = len(case["nodes"])
    A = [[Fr(case["nodes"][i]["k"]) if i == j else Fr(0) for j in range(n)] for i in range(n)]
    b, vt = [Fr(x["c"]) for x in case["nodes"]], [Fr(0)] * n
    if case.get("inp"):
        b[case["inp"]["node"]] += case["inp"]["b"]; vt[case["inp"]["node"]] = Fr(case["inp"]["a"])
    return A, b, [Fr(0)] * n, vt, [Fr(x["x0"]) for x in case["nodes"]]

def py_round(q):
    fl = q.numerator // q.denominator
    r = q - fl
    return fl if r < Fr(1, 2) else fl + 1 if r > Fr(1, 2) else (fl if fl % 2 == 0 else fl + 1)

def exact_ok(case):
    """Generator-side filter (never decides anything): every intermediate quantity of the float64 computation is a
    multiple of 2^-E bounded by 2^(52-E), so that numpy's arithmetic is exact whatever the association order."""
    A, b, vn, vt, y = to_lin(case)
    dt = Fr(case["dt"]); T = Fr(case["T"])
    dts = Fr(case["dts"]) if case["dts"] is not None else dt
    if dt <= 0 or dts <= 0 or T < 0:
        return False
    steps = py_round(T / dt)
    t0 = int(case.get("t0", 0))
    E, M = 0, Fr(0)
    def see(v, mag=None):
        nonlocal E, M
        d = v.denominator
        if d & (d - 1):
            raise ValueError("not dyadic")
        E = max(E, d.bit_length() - 1); M = max(M, abs(v) if mag is None else mag)
    n = 0
    def f(t, y):
        nonlocal n
        out = []
        for i, row in enumerate(A):
            terms = [a * x for a, x in zip(row, y)] + [b[i], n * vn[i], t * vt[i]]
            for z in terms:
                see(z)
            v = sum(terms); see(v, sum(abs(z) for z in terms)); out.append(v)
        n += 1
        return out
    try:
        for v in [dt, dt / 2, T, dts, Fr(case.get("cutoff", 0))] + y:
            see(v)
        for i in range(min(steps, 400)):
            t = i + t0
            r1 = f(t, y)
            if case["solver"] == "euler":
                y = [a + dt * r for a, r in zip(y, r1)]
                for a, r in zip(y, r1):
                    see(dt * r); see(a, abs(a) + abs(dt * r))
            else:
                y_0 = [a + dt * r for a, r in zip(y, r1)]
                for a in y_0:
                    see(a, 2 * abs(a) + 1)
                r2 = f(t, y_0)
                inc = [dt / 2 * (p + q) for p, q in zip(r1, r2)]
                for p, q, z in zip(r1, r2, inc):
                    see(p + q, abs(p) + abs(q)); see(q + q, 2 * abs(q)); see(z)
                y = [a + z for a, z in zip(y, inc)]
                for a in y:
                    see(a, 2 * abs(a) + 1)
    except ValueError:
        return False
    return M * 2 ** E < 2 ** 50 and steps <= 400

def gen_solve(rng):
    dim = rng.choice([1, 1, 2, 2, 3])
    m = rng.choice([0, 1, 2, 3])
    dt = Fr(1, 2 ** m)
    Mx = [[(rng.choice([-2, -1, -1, 1, 1, 2, Fr(1, 2), Fr(-1, 2)]) if rng.random() < (0.7 if i == j else 0.35) else 0)
           for j in range(dim)] for i in range(dim)]
    A = [[Fr(x) / dt for x in r] for r in Mx]
    stateful = rng.random() < 0.6
    vn = [Fr(rng.randint(-2, 2)) if stateful and rng.random() < 0.7 else Fr(0) for _ in range(dim)]
    vt = [Fr(rng.randint(-2, 2)) if stateful and rng.random() < 0.7 else Fr(0) for _ in range(dim)]
    b = [_dy(rng, -8, 8, 4) for _ in range(dim)]
    y0 = [_dy(rng, -8, 8, 4) for _ in range(dim)]
    r = rng.random()
    if r < 0.86:
        dts = dt * rng.choice([1, 1, 2, 2, 3, 3, 4, 5, 6])
    elif r < 0.95:
        dts = dt * rng.choice([Fr(3, 2), Fr(5, 2), Fr(5, 4), Fr(7, 4), Fr(7, 2)])     # not a multiple: outside the property's quantifier
    else:
        dts = dt * rng.choice([Fr(1, 2), Fr(3, 4), Fr(1, 4)])                          # store_step rounds to 0 or 1
    x = Fr(rng.randint(0, 44)) + rng.choice([0, 0, 0, 0, Fr(1, 2), Fr(1, 2), Fr(1, 4), Fr(3, 4)])
    if rng.random() < 0.5:                                   # T a multiple of dts: the record is filled exactly
        x = (dts / dt) * rng.randint(0, max(1, int(40 * dt / dts)))
    backend = "torch" if rng.random() < 0.15 else "default"
    case = dict(kind="solve", solver="euler" if backend == "torch" else rng.choice(["euler", "heun"]), backend=backend,
                aliased=rng.random() < 0.5, dt=str(dt), dts=str(dts),
                t0=rng.choice([0, 0, 1, 3, 7]), y0=[str(v) for v in y0], A=[[str(v) for v in r_] for r_ in A],
                b=[str(v) for v in b], vn=[str(v) for v in vn], vt=[str(v) for v in vt])
    while True:
        case["T"] = str(x * dt)
        if exact_ok(case):
            return case
        x = Fr(int(x) // 2) + (x - int(x))
        if x < 1:
            case["T"] = str(Fr(0)); return case

def gen_run(rng):
    nn = rng.choice([1, 1, 2, 2, 3])
    m = rng.choice([1, 2, 3, 4])
    dt = Fr(1, 2 ** m)
    nodes = []
    for _ in range(nn):
        kd = rng.choice([-2, -1, -1, Fr(-1, 2), Fr(-1, 2), 0, Fr(1, 2), 1])
        nodes.append(dict(k=str(Fr(kd) / dt), c=str(_dy(rng, -8, 8, 4)), x0=str(_dy(rng, -8, 8, 4))))
    r = rng.random()
    mult = None if r < 0.2 else rng.choice([1, 2, 2, 3, 3, 4, 5, 6])
    dts = None if mult is None else dt * mult
    step = dts or dt
    x = Fr(rng.randint(1, 40)) + rng.choice([0, 0, 0, 0, Fr(1, 2), Fr(1, 2), Fr(1, 4), Fr(3, 4)])
    if rng.random() < 0.5:                                   # T a multiple of dts: the record is filled exactly
        x = (step / dt) * rng.randint(1, max(1, int(40 * dt / step)))
    ncols = rng.randint(1, nn)
    cols = rng.sample(range(nn), ncols)
    # every backend with its own fixed-step loop: default (Euler, Heun), torch (Euler; Heun is rejected), jax (Euler, Heun)
    backend = rng.choice(["default"] * 5 + ["torch"] * 2 + ["jax"] * 3)
    oform = rng.choice(["dict", "dict", "list", "wild"])
    if oform == "wild":
        cols = list(range(nn))
    case = dict(kind="run", solver="euler" if backend == "torch" else rng.choice(["euler", "heun"]), backend=backend, dt=str(dt), dts=None if dts is None else str(dts), nodes=nodes,
                cols=cols, oform=oform, vectorize=rng.random() < 0.5, aliased=True)
    # a time-dependent right-hand side (an input array u_k = b + a*k read with the step counter) on every backend,
    # together with store_step > 1 and a cutoff
    with_inp = rng.random() < (0.35 if backend == "default" else 0.6)
    inp_node, inp_a, inp_b, inp_extra = rng.randrange(nn), rng.choice([-2, -1, 1, 1, 2, 3]), rng.randint(-3, 3), rng.choice([0, 0, 1, 3])
    while True:
        T = x * dt
        nrows = py_round(T / step)
        r = rng.random()
        if r < 0.3:
            cutoff = Fr(0)
        elif r < 0.65:
            cutoff = step * rng.randint(0, max(nrows, 1))                  # exactly on a sample (>= versus >)
        elif r < 0.9:
            cutoff = step * rng.randint(0, max(nrows, 1)) + step * rng.choice([Fr(1, 2), Fr(1, 4), Fr(-1, 4)])
        else:
            cutoff = rng.choice([Fr(-1), T, T + 1])
        case["T"] = str(T); case["cutoff"] = str(cutoff)
        if with_inp:
            # a one-sample array is squeezed to 0-d: loud IndexError (reported).  jax clamps an index past the end instead of
            # raising, runs round(T/dts)*store_step steps and its Heun corrector reads sample k+1: give it every sample it reads
            n_read = py_round(T / dt) if backend != "jax" else max(py_round(T / dt), nrows * max(py_round(step / dt), 1)) + 1
            case["inp"] = dict(node=inp_node, a=inp_a, b=inp_b, n=max(2, n_read + inp_extra))
        if exact_ok(case):
            return case
        x = Fr(int(x) // 2) + (x - int(x))
        if x < 1:
            x = Fr(1)
            for n in case["nodes"]:
                n["k"] = "0"

DECIMAL_STEPS = [Fr(1, 10000), Fr(1, 1000), Fr(1, 100), Fr(1, 40), Fr(1, 20), Fr(1, 10), Fr(3, 10)]
def gen_cadence(rng):
    """decimal (non-dyadic) step sizes: dts/dt, T/dt, T/dts land just below or above the integer in floating point"""
    dt = rng.choice(DECIMAL_STEPS)
    m = rng.choice([3, 6, 7, 12, 13, 29]) if rng.random() < 0.4 else rng.randint(1, 40)
    rows = rng.randint(2, 6)
    backend, solver = rng.choice([("default", "euler"), ("default", "heun"), ("torch", "euler"), ("jax", "euler"), ("jax", "euler"), ("jax", "heun"), ("jax", "heun")])
    return dict(kind="cadence", solver=solver, backend=backend, dt=str(dt), dts=str(m * dt), T=str(rows * m * dt), cutoff="0", t0=0,
                nodes=[dict(k="0", c="1", x0="0")], cols=[0], vectorize=rng.random() < 0.5, aliased=True)

def gen_adaptive(rng):
    # first_step = dt: keep |k|*dt <= 1/4 -- embedded error estimators have exact zeros at special h*lambda (Bogacki-Shampine
    # RK23: -z^3(1+z)/48, zero at h*lambda = -1, where scipy accepts an O(1e-1) step at any tolerance; not PyRates' doing)
    dts = Fr(1, 2 ** rng.choice([1, 2, 3]))
    k = rng.choice([Fr(-2), Fr(-3, 2), Fr(-1), Fr(-1, 2), Fr(-1, 4)])
    dt = dts
    while abs(k) * dt > Fr(1, 4):
        dt /= 2
    return dict(kind="adaptive", solver="scipy", method=rng.choice(["RK45", "RK45", "DOP853", "RK23"]), rtol=1e-10, atol=1e-12,
                k=str(k), c=str(_dy(rng, -8, 8, 4)), x0=str(_dy(rng, 1, 8, 4)),
                T=str(dts * rng.randint(2, 12)), dt=str(dt / rng.choice([1, 2])), dts=str(dts), cutoff="0", t0=0)

ADAPTIVE_TOL = 1e-9
def adaptive_bad(case, out):
    """Support stream, decided by a tolerance on an exactly known solution (the 'approximates the true solution to the
    solver's tolerance' half of C03): with rtol=1e-10, atol=1e-12 the returned samples of x' = k*x + c must be within
    1e-9 of (x0 + c/k) e^{kt} - c/k at t = j*dts, j < round(T/dts), and the index must hold exactly those times."""
    import math
    if not (isinstance(out, dict) and "values" in out):
        return True
    k, c, x0, dts = (float(Fr(case[n])) for n in ("k", "c", "x0", "dts"))
    n = py_round(Fr(case["T"]) / Fr(case["dts"]))
    if len(out["values"]) != n or [Fr(t) for t in out["index"]] != [j * Fr(case["dts"]) for j in range(n)]:
        return True
    err = max(abs(v - ((x0 + c / k) * math.exp(k * j * dts) - c / k)) for j, v in enumerate(out["values"]))
    out["max_abs_error"] = err
    return not err < ADAPTIVE_TOL

def store_step(case):
    dts = Fr(case["dts"]) if case["dts"] is not None else Fr(case["dt"])
    return py_round(dts / Fr(case["dt"]))

def nontrivial(case):
    return store_step(case) > 1 or Fr(case.get("cutoff", 0)) > 0 or int(case.get("t0", 0)) != 0

# ---------------------------------------------------------------------------------------------- model side
HEADER = """From Coq Require Import List ZArith QArith Qcanon Bool Arith.
From PV Require Import History Solver Corr.
Import ListNotations.
Local Open Scope nat_scope.
Record tcase := { isrun : bool; isjax : bool; cscaled : bool; sv : solver; cT : Qc; cdt : Qc; cdts : option Qc; ccut : Qc; ccols : list nat;
                  cy0 : row; crhs : lin_rhs; ct0 : nat }.
Definition dts_of c := match cdts c with Some d => d | None => cdt c end.
(* the jax backend's own loops (lax.scan: round(T/dts) outer iterations of store_step inner steps) never overflow
   the record: their rows are spec_rows itself (C02's theorems are about these loops; here they are only tied) *)
(* JaxBackend._solve_heun evaluates the corrector with the step counter t+1 (finding D16 of C02); Euler as everywhere *)
Definition heun_step_jax {C} (f : C -> nat -> row -> row * C) (dt : Qc) (c : C) (t : nat) (y : row) : row * C :=
  let '(r1, c1) := f c t y in
  let y_0 := vadd y (vscale dt r1) in
  let '(r2, c2) := f c1 (S t) y_0 in
  (vadd y (vscale (dt / (Q2Qc 2))%Qc (vadd r1 r2)), c2).
Definition jax_step {C} (f : C -> nat -> row -> row * C) (s : solver) (dt : Qc) :=
  match s with Euler => euler_step f dt | Heun => heun_step_jax f dt end.
Definition jax_run (c : tcase) : outcome :=
  let d := dts_of c in
  let n := rnd (cT c / d) in
  if (n =? 0) then ErrIndex
  else Rows (map (fun k => (NtoQc k * d)%Qc :: pick (ccols c) (fst (traj (jax_step (lin_f (crhs c)) (sv c) (cdt c)) 0 0 (cy0 c) 0 (k * rnd (d / cdt c)))))
                 (filter (fun k => Qcleb (ccut c) (NtoQc k * d)%Qc) (seq 0 n))).
Definition time_dependent (c : tcase) : bool := negb (forallb (fun q => Qeq_bool (this q) 0) (vt (crhs c))).
(* cadence stream: times and values are reported in units of dt (whole numbers of steps) *)
Definition scale (c : tcase) (o : outcome) : outcome :=
  if cscaled c then match o with Rows l => Rows (map (map (fun v => (v / cdt c)%Qc)) l) | o' => o' end else o.
Definition implO (c : tcase) : outcome := scale c (
  if isjax c then jax_run c else
  if isrun c then run_model (lin_f (crhs c)) (sv c) (cT c) (cdt c) (cdts c) (ccut c) (ccols c) (cy0 c) 0
  else solve (lin_f (crhs c)) (sv c) (cT c) (cdt c) (dts_of c) (cy0 c) 0 (ct0 c)).
Definition specO (c : tcase) : outcome := scale c (
  if isrun c then Rows (spec_run (lin_f (crhs c)) (sv c) (cT c) (cdt c) (cdts c) (ccut c) (ccols c) (cy0 c) 0)
  else Rows (spec_rows (lin_f (crhs c)) (sv c) (cT c) (cdt c) (dts_of c) (cy0 c) 0 (ct0 c))).
(* a Short record is compared on its written rows and on the number of allocated rows *)
Definition agree (m r : outcome) : bool :=
  match m, r with
  | Short l k, Rows r' => rows_eqb l (firstn (length l) r') && (length r' =? length l + k)
  | _, _ => outcome_eqb m r
  end.
Definition okI (p : tcase * outcome) := agree (implO (fst p)) (snd p).
Definition okS (p : tcase * outcome) := agree (specO (fst p)) (snd p).
Definition g_fit (p : tcase * outcome) := rows_fit (cT (fst p)) (cdt (fst p)) (dts_of (fst p)).
Definition g_mult (p : tcase * outcome) := sampling_multiple (cdt (fst p)) (dts_of (fst p)).
Definition g_heun_time (p : tcase * outcome) := negb (isjax (fst p) && solver_eqb (sv (fst p)) Heun && time_dependent (fst p)).
Definition g_frame (p : tcase * outcome) := negb (isrun (fst p)) || frame_ok (cT (fst p)) (dts_of (fst p)).
"""

ERRMAP = {"IndexError": "ErrIndex", "ZeroDivisionError": "ErrZeroDiv", "ValueError": "ErrShape"}

def coq_outcome(r):
    if "rows" in r:
        return "(Rows " + clist([clist([cq(x) for x in row]) for row in r["rows"]]) + ")"
    return ERRMAP[r["raised"]]

def coq_case(case, out):
    A, b, vn, vt, y0 = to_lin(case)
    row = lambda v: clist([cq(x) for x in v])
    rhs = f"{{| mA := {clist([row(r) for r in A])}; vb := {row(b)}; vn := {row(vn)}; vt := {row(vt)} |}}"
    isrun = case["kind"] in ("run", "cadence")
    cols = case["cols"] if isrun else list(range(len(y0)))
    t = (f"{{| isrun := {cbool(isrun)}; isjax := {cbool(case.get('backend') == 'jax')}; cscaled := {cbool(case['kind'] == 'cadence')}; sv := {'Euler' if case['solver'] == 'euler' else 'Heun'}; "
         f"cT := {cq(case['T'])}; cdt := {cq(case['dt'])}; cdts := {copt(case['dts'], cq)}; ccut := {cq(case.get('cutoff', 0))}; "
         f"ccols := {clist([cnat(c) for c in cols])}; cy0 := {row(y0)}; crhs := {rhs}; ct0 := {cnat(case.get('t0', 0))} |}}")
    return f"({t}, {coq_outcome(out)})"

def model_compare(ctx, cases, outs, tag):
    """index lists: (differs from Impl, differs from Spec, rows_fit false, frame_ok false, sampling_multiple false, heun_same_time false)"""
    res = [[], [], [], [], [], []]
    shard = 80
    for s in range(0, len(cases), shard):
        terms = [coq_case(c, o) for c, o in zip(cases[s:s + shard], outs[s:s + shard])]
        body = ("Definition cases : list (tcase * outcome) := " + clist(terms) + ".\n" +
                "".join(f"Eval vm_compute in (mismatches {fn} cases).\n" for fn in ("okI", "okS", "g_fit", "g_frame", "g_mult", "g_heun_time")))
        out = coq_eval(ctx, f"c03_{tag}_{s}", HEADER, body)
        ls = parse_nat_lists(out)
        assert len(ls) == 6, out[:400]
        for k in range(6):
            res[k] += [s + i for i in ls[k]]
    return res

def model_outputs(ctx, case, out, tag):
    body = f"Definition c := {coq_case(case, out)}.\nEval vm_compute in (specO (fst c)).\nEval vm_compute in (implO (fst c)).\n"
    try:
        txt = coq_eval(ctx, f"c03_show_{tag}", HEADER, body)
        import re
        txt = re.sub(r"\{\|\s*this := ([^;]*);\s*canon := [^|]*\|\}", r"\1", txt)
        return " ".join(txt.split())[:5000]
    except Exception as e:
        return f"(model evaluation failed: {e})"

def known_outcome(r):
    return isinstance(r, dict) and ("rows" in r or r.get("raised") in ERRMAP)

# ---------------------------------------------------------------------------------------------- shrinking
def fails(ctx, case, tag, strict=False):
    r = run_impl(ctx, "c03", "impl", [case], nworkers=1)[0]
    if case["kind"] == "adaptive":
        return adaptive_bad(case, r), r
    if not known_outcome(r):
        return True, r
    res = model_compare(ctx, [case], [r], tag)
    if strict:      # shrinking must stay inside all guards, otherwise it drifts into a known loud class
        return bool(res[1]) and not (res[2] or res[3] or res[4] or res[5]), r
    return bool(res[1]), r

def shrink(ctx, case):
    if case["kind"] in ("adaptive", "cadence"):
        return case
    best, budget = case, 10
    def attempt(cand, tag):
        nonlocal best, budget
        if budget <= 0 or canon(cand) == canon(best):
            return
        budget -= 1
        try:
            if exact_ok(cand) and fails(ctx, cand, tag, strict=True)[0]:
                best = cand
        except Exception:
            pass
    for it in range(3):
        T = Fr(best["T"])
        attempt(dict(best, T=str(T / 2)), f"sh{it}a")
        if best["kind"] == "run":
            attempt(dict(best, cutoff="0"), f"sh{it}b")
            if len(best["nodes"]) > 1 and len(best["cols"]) == 1:
                i = best["cols"][0]
                attempt(dict(best, nodes=[best["nodes"][i]], cols=[0]), f"sh{it}c")
        else:
            attempt(dict(best, t0=0), f"sh{it}b")
    return best

# ---------------------------------------------------------------------------------------------- check
def check(ctx):
    pr = proof_gate(ctx, NEEDS)
    problem = proof_problem(pr)
    n_solve, n_run = (160, 120) if ctx.tier == "quick" else (3000, 2000)
    if problem:
        n_solve *= 4; n_run *= 4
    if ctx.replay:
        rp = json.load(open(ctx.replay))
        cases = [rp["case"]] if "case" in rp else []
    else:
        cases = (load_corpus("C03") + [gen_solve(ctx.rng) for _ in range(n_solve)] + [gen_run(ctx.rng) for _ in range(n_run)] +
                 [gen_cadence(ctx.rng) for _ in range(45 if ctx.tier == "quick" else 600)] +
                 [gen_adaptive(ctx.rng) for _ in range(12 if ctx.tier == "quick" else 120)])
    cases = [{k: v for k, v in c.items() if k not in ("id", "comment")} for c in cases]
    outs = run_impl(ctx, "c03", "impl", cases)
    adapt = [i for i, c in enumerate(cases) if c["kind"] == "adaptive"]
    bad_adapt = [i for i in adapt if adaptive_bad(cases[i], outs[i])]
    crashed = [i for i, r in enumerate(outs) if i not in adapt and not known_outcome(r)]
    good = [i for i in range(len(cases)) if i not in crashed and i not in adapt]
    res = model_compare(ctx, [cases[i] for i in good], [outs[i] for i in good], "main")
    badI, badS, nofit, noframe, nomult, noheun = [[good[i] for i in l] for l in res]
    # dts not a positive integer multiple of dt is outside the property's quantifier: there only model = code is demanded
    out_of_scope = [i for i in nomult if i in badS]
    badS = [i for i in badS if i not in nomult]
    badI_scope = badI
    guard_viol = {}
    # no stored sample at all (round(T/dts) = 0 with no step either): degenerate request, only model = code is demanded
    noframe = [i for i in noframe if i not in nofit]
    out_of_scope += [i for i in noframe if i in badS]
    badS = [i for i in badS if i not in noframe]
    badS = badS + bad_adapt
    ctx.note(f"support stream (tolerance decision on a closed-form solution): {len(adapt)} scipy runs with rtol=1e-10, atol=1e-12, "
             f"max error {max([outs[i].get('max_abs_error', 0) for i in adapt if isinstance(outs[i], dict)] or [0]):.2e} (bound {ADAPTIVE_TOL}), failing {len(bad_adapt)}")
    for name, l in zip(GUARDS, (nofit, noheun)):
        for i in l:
            if i not in badI:        # attributed to a known finding only when the code fails in exactly the modelled way
                guard_viol.setdefault(i, []).append(name)
    # inside all guards Impl = Spec is a theorem; outside, the real code has to do what Impl says (error classes included)
    ctx.note(f"E1: {len(cases)} cases ({sum(1 for c in cases if c['kind'] == 'solve')} direct solver calls, "
             f"{sum(1 for c in cases if c['kind'] == 'run')} CircuitTemplate.run); impl-vs-Impl mismatches {len(badI)}, "
             f"impl-vs-Spec mismatches {len(badS)} (of which outside a guard: {sum(1 for i in badS if i in guard_viol)}), "
             f"unexpected exceptions/worker errors {len(crashed)}")
    def witness_check(f):
        c = json.load(open(os.path.join(VERIF, f["witness"])))
        c = {k: v for k, v in c.items() if k not in ("id", "comment")}
        return fails(ctx, c, "wit_" + f["id"])[0]
    conclude(ctx, cases=cases, impl_out=outs, bad_spec=badS, bad_impl=badI, crashed=crashed, problem=problem, guard_viol=guard_viol,
             spec_name="Solver.spec_run/spec_rows (row k = k*store_step-th Euler/Heun iterate at time k*dts, rows with time < cutoff dropped)",
             impl_name="Solver.run_model/solve", shrink=lambda c: shrink(ctx, c), witness_check=witness_check,
             show=lambda c: (lambda r: dict(implementation_output=r, model_output=model_outputs(ctx, c, r, "show") if known_outcome(r) and c["kind"] != "adaptive" else None))(fails(ctx, c, "show")[1]))
    nt = {canon(c) for c in cases if nontrivial(c)}
    outcome_hist = {}
    for r in outs:
        k = "rows" if isinstance(r, dict) and ("rows" in r or "values" in r) else (r.get("raised") or r.get("err")) if isinstance(r, dict) else "?"
        outcome_hist[k] = outcome_hist.get(k, 0) + 1
    hist = dict(kind=dict(solve=sum(1 for c in cases if c["kind"] == "solve"), run=sum(1 for c in cases if c["kind"] == "run"),
                          adaptive_support=len(adapt), decimal_cadence=sum(1 for c in cases if c["kind"] == "cadence"),
                          decimal_cadence_by_loop={f"{b}/{sv}": sum(1 for c in cases if c["kind"] == "cadence" and c["backend"] == b and c["solver"] == sv)
                                                   for b, sv in (("default", "euler"), ("default", "heun"), ("torch", "euler"), ("jax", "euler"), ("jax", "heun"))}, run_with_time_dependent_input=sum(1 for c in cases if c.get("inp"))),
                time_dependent_by_backend={b: sum(1 for c in cases if c.get("inp") and c.get("backend", "default") == b) for b in ("default", "torch", "jax")},
                store_step_gt_1_time_dependent_by_backend={b: sum(1 for c in cases if c.get("inp") and store_step(c) > 1 and c.get("backend", "default") == b) for b in ("default", "torch", "jax")},
                output_form={f: sum(1 for c in cases if c.get("oform") == f) for f in ("dict", "list", "wild")},
                backend={b: sum(1 for c in cases if c.get("backend", "default") == b) for b in ("default", "torch", "jax")},
                solver=dict(euler=sum(1 for c in cases if c["solver"] == "euler"), heun=sum(1 for c in cases if c["solver"] == "heun")),
                store_step_gt_1=sum(1 for c in cases if store_step(c) > 1), cutoff_gt_0=sum(1 for c in cases if Fr(c.get("cutoff", 0)) > 0),
                t0_nonzero=sum(1 for c in cases if int(c.get("t0", 0)) != 0),
                rhs_returns_own_buffer=sum(1 for c in cases if c["kind"] == "run" or c.get("aliased")),
                stateful_rhs=sum(1 for c in cases if c["kind"] == "solve" and any(Fr(x) != 0 for x in c["vn"] + c["vt"])),
                T_not_multiple_of_dts=sum(1 for c in cases if (Fr(c["T"]) / (Fr(c["dts"]) if c["dts"] is not None else Fr(c["dt"]))).denominator != 1),
                guard_false=dict(heun_same_time=len(noheun), rows_fit=len(nofit), frame_ok=len(noframe), sampling_multiple=len(nomult)), real_outcomes=outcome_hist,
                max_steps=max([py_round(Fr(c["T"]) / Fr(c["dt"])) for c in cases] or [0]))
    write_evidence(ctx, evaluations=len(cases), distinct_nontrivial=len(nt),
                   rule="a case is non-trivial when store_step > 1 or cutoff > 0 or t0 != 0 (DESIGN summary table); distinct = distinct canonical JSON. "
                        "Cases: direct _solve_euler/_solve_heun calls with affine right-hand sides depending on the call counter and the time "
                        "argument (fresh result or own buffer), and CircuitTemplate.run on 1-3 uncoupled linear nodes (vectorize on/off, "
                        "permuted/partial outputs); T is an integer, half-integer or quarter multiple of dt (exercises round-half-even), "
                        "dts a multiple of dt (some not, some below dt), cutoff on / between / outside samples; all data dyadic and bounded so that float64 is exact",
                   samples=[c for c in cases[:400] if nontrivial(c)][:3],
                   extra=dict(input_distribution=hist, impl_vs_model_mismatches=len(badI), impl_vs_spec_mismatches=len(badS)),
                   trusted_base=["numpy float64 arithmetic is exact on the generated dyadic data (generator-side bound: every intermediate is a multiple of 2^-E below 2^(50-E)); results are compared as exact rationals",
                                 "pandas label slicing .loc[cutoff:, :] and DataFrame construction are modelled (filter index >= cutoff), tied by the run-level cases"],
                   assumptions=["T >= 0, dt > 0, dts > 0; the theorems about values hold under the decidable guards rows_fit and frame_ok (>= 1 stored sample); "
                                "outside them the model predicts the error class and the real code is required to raise exactly that",
                                "IEEE rounding is outside the model: the model computes in Qc",
                                "support stream: 'approximates to the solver's tolerance' is decided by a tolerance (1e-9 at rtol=1e-10, atol=1e-12) on linear systems with closed-form solutions; this is a numerical decision, not a theorem",
                                "theorems are about the default backend's loops; the torch Euler loop (direct calls and run) and the jax Euler/Heun loops (run, autonomous models) are in the correspondence stream only: torch = the same model, jax = spec_rows without the IndexError class; adaptive solvers are not covered by any theorem"])
