#!/bin/bash
# seed_matrix.sh [jobs] : run every /verif/seeded/<id>/patch.diff and every reverted fix against the check(s) that should
# catch it (scratch worktrees, VERIF_REPO); results in /verif/seeded/RESULTS.txt
cd /verif
jobs=${1:-3}
rm -f /tmp/seedmx_*.out
run() { # id patch pid [--reverse]
  out=$(harness/try_seed.sh "$2" "$3" $4 2>&1); n=$(echo "$out" | grep -c '^VIOLATION'); nf=$(echo "$out" | grep -c 'no-failing-input-found')
  echo "$1 check=$3 violations=$n no_input=$nf $(echo "$out" | grep -o 'done in [0-9.]*s' | head -1)" > /tmp/seedmx_$1_$3.out
}
export -f run
{
for d in seeded/*/; do id=$(basename $d); pid=${id%%-*}; echo "$id $d/patch.diff $pid"; done
# seeds whose mechanism lives in another property's check
for x in C01-m1:C04 C01-m3:C04 C01-m4:C04 C06-m2:C04 C06-m3:C04 C08-m4:C04 C12-m2:C18 C12-m4:C18 C10-m3:C19 C05-m4:C15 C03-m3:C08 C13-m4:C08 C16-m3:C11 C01-m5:C04 C06-m5:C04 C17-m6:C04 C07-m5:C04 C07-m6:C17 C06-m6:C07 C04-m6:C11 C02-m5:C13 C02-m6:C13 C12-m6:C18 C08-m5:C03 C03-m5:C02 C01-m6:C04 C03-m7:C10 C03-m7:C19 C04-m7:C11 C06-m7:C04 C09-m6:C02; do echo "${x%%:*} seeded/${x%%:*}/patch.diff ${x#*:}"; done
# reverted fixes: defect -> properties
while read d pids; do for p in $pids; do
  r=$(ls fixes/round7/*_${d}.diff fixes/round8/*_${d}.diff 2>/dev/null | head -1)
  if [ -f fixes/fix_${d}_revert.diff ]; then echo "rev-$d fixes/fix_${d}_revert.diff $p"; elif [ -n "$r" ]; then echo "rev-$d $r $p --reverse"; else echo "rev-$d fixes/fix_$d.diff $p --reverse"; fi
done; done <<'T'
D01 C01
D02 C01 C04
D04 C01 C05
D05 C03
D06 C06
D08 C12
D10a C14
D10b C14 C15
D11 C15
D12f C02
D12t C02
D13 C20
D17 C07
D20 C04
D25 C16
D36 C03 C02
D37 C02
D38 C10 C05
D39 C10
D40 C10
D41 C05
D42 C05
D43 C06
D44 C15 C14
D45 C11
D46 C04 C01
D47 C07
D48 C20 C06
D49 C20
D50 C12
D51 C12
D52 C15
D53 C15
D54 C16
D55 C16
D56 C16
D57 C04
D58 C04
D59 C01 C04
D60 C16
D61 C02
D62 C03
D63 C05
D64 C12
D65 C18
D66 C15
D67 C15
D68 C15
D69 C09
D70 C09 C11
D71 C11
D72 C11
D73 C06
D74 C14 C06
D75 C07
D76 C20
D77 C06 C17
D78 C13
D79 C20
D80 C05 C01
D81 C12
D82 C14
D83 C01
D84 C01
D85 C04
D86 C04
D87 C06
D88 C06
D89 C08
D90 C13
D91 C13
D92 C16
D93 C16
D94 C09
D95 C11
D96 C13
D97 C07 C04
D98 C14
D99 C15
D100 C15
D101 C09 C11
D102 C11
D103 C11 C09 C04
D104 C15
D106 C04
D107 C18
D108 C02
D109 C20
D110 C09 C11
D111 C02
D112 C12
D113 C20
D114 C11 C09
D151 C05
D152 C05
D153 C05
D154 C05
D155 C17
T
} | xargs -P $jobs -L 1 bash -c 'run "$0" "$1" "$2" "$3"'
cat /tmp/seedmx_*.out | sort > seeded/RESULTS.txt
cat seeded/RESULTS.txt
