"""C12 — get_jacobian_func returns the derivative of get_run_func.
Model: coq/theories/Jacobian.v (Impl `jac_impl`: expansion of intermediates, symbolic D, placement of the entries, the
NameError defect; Spec `jac_spec`: dual-number derivative of the vector field `vf`); theorems: coq/properties/C12.v.
Tie: E1 — random scalar (vectorize=False) polynomial models (1-3 nodes, 2-4 state variables, algebraic intermediates,
edges, past() delays and delayed edges): every entry of J0 and of every history matrix, the vector field itself and the
sparse=True variant are compared exactly (rationals) with the model evaluated inside Coq.
A separate support stream (never deciding, tolerance 1e-6) compares transcendental models with central differences."""
import json, os, re
from fractions import Fraction as Fr
from core import *

NEEDS = ["Jacobian", "JacobianProofs", "JacobianReal", "Corr"]
GUARD_DELAYED = "no_delayed_factor_in_j0"


def _switch(name):
    """value of a boolean model switch `Definition <name> : bool := true|false.` in coq/theories/Jacobian.v"""
    m = re.search(rf"Definition {name} : bool := (true|false)\.", open(os.path.join(COQ, "theories", "Jacobian.v")).read())
    return m.group(1) == "true"


FIXED_D08B = _switch("fixed_D08b")      # true: the model (and the generator) assume the repair of D08b is in the code
STATE_NAMES = ["x", "z", "v", "w"]
DELAY_PARAMS = ["tau", "tau0", "tau00", "d1", "d10"]     # names that differ only by trailing zeros (seed C12-m7: name tags)
PARAM_NAMES = ["a", "b", "k"]
INTER_NAMES = ["m", "g"]

# ---------------------------------------------------------------------------------------------- expression trees
# ["c", "p/q"] | ["v", name] | ["past", statevar, ["par", name] | ["lit", "p/q"] (printed as float) | ["ilit", "n"] (printed as integer)] | ["+", a, b] | ["-", a, b] | ["*", a, b]
# | ["neg", a] | ["pow", a, k] | ["fn", f, a] | ["fn2", "maxi" | "mini", a, b]
FN_COQ = dict(absv="FAbs", sigmoid="FSig", exp="FExp", sin="FSin", cos="FCos", tanh="FTanh")


def flt(q):
    return repr(float(Fr(q)))


def to_py(e):
    """PyRates equation syntax, fully parenthesised"""
    k = e[0]
    if k == "c":
        f = float(Fr(e[1]))
        return f"({f!r})" if f < 0 else repr(f)
    if k == "v":
        return e[1]
    if k == "past":
        d = e[2][1] if e[2][0] == "par" else str(int(Fr(e[2][1]))) if e[2][0] == "ilit" else flt(e[2][1])
        return f"past({e[1]}, {d})"
    if k in "+-*":
        return f"({to_py(e[1])} {k} {to_py(e[2])})"
    if k == "neg":
        return f"(-({to_py(e[1])}))"
    if k == "pow":
        return f"({to_py(e[1])})^{e[2]}"
    if k == "fn":
        return f"{e[1]}({to_py(e[2])})"
    if k == "fn2":
        return f"{e[1]}({to_py(e[2])}, {to_py(e[3])})"
    raise ValueError(e)


def walk(e):
    yield e
    if e[0] in "+-*":
        yield from walk(e[1]); yield from walk(e[2])
    elif e[0] in ("neg", "pow"):
        yield from walk(e[1])
    elif e[0] == "fn":
        yield from walk(e[2])
    elif e[0] == "fn2":
        yield from walk(e[2]); yield from walk(e[3])


def bits(e, env):
    """(magnitude bits, denominator bits) bound of the value of e on the generated data; float64 is exact while the sum stays < 53"""
    k = e[0]
    if k == "c":
        return (2, 3)
    if k == "v":
        return env.get(e[1], (2, 2))
    if k == "past":
        return (5, 4)       # |h0 + (t - delay) * h1| <= 2 + 20 (integer-literal delays up to 20)
    if k in "+-":
        a, b = bits(e[1], env), bits(e[2], env)
        return (max(a[0], b[0]) + 1, max(a[1], b[1]))
    if k == "*":
        a, b = bits(e[1], env), bits(e[2], env)
        return (a[0] + b[0], a[1] + b[1])
    if k == "neg":
        return bits(e[1], env)
    if k == "pow":
        a = bits(e[1], env)
        return (a[0] * e[2], a[1] * e[2])
    if k == "fn2":
        a, b = bits(e[2], env), bits(e[3], env)
        return (max(a[0], b[0]), max(a[1], b[1]) + 1)       # + 1: the factor 1/2 of the derivative rule
    if k == "fn":
        if e[1] == "exp":       # 2^(4*a) with |a| <= 2, or 2^(4*(a +- b))
            return (8, 8) if e[2][2][0] == "v" else (16, 16)
        a = bits(e[2], env)
        return a if e[1] == "absv" else (2 * a[0] + 2, 2 * a[1] + 3)       # stand-ins have degree 2
    raise ValueError(e)


# Float64 exactness by construction.  bits(e) = (m, d): |value of e| <= 2^m and value * 2^d is an integer, for every generated point
# (states, parameters in [-2, 2] with denominator 4; history values |.| <= 6, denominator 16; constants |c| <= 2, denominator 8).
# Every right-hand side and every intermediate is generated with m + d <= BIT_LIMIT.  A Jacobian entry is a sum of at most 2^6
# products; each product is a partial derivative of a product already bounded by bits(f) (an atom contributes >= 2 bits, so removing
# a factor never increases the bound) times an integer exponent <= 3 (2 bits); the chain through an intermediate m replaces the
# factor m by its derivative, bounded by bits(m) + 2.  Every intermediate float value therefore needs at most
# BIT_LIMIT + 2 + 2 + 6 = 46 < 53 significant bits, whatever association or expansion sympy chooses: float64 arithmetic is exact.
BIT_LIMIT = 36


# ---------------------------------------------------------------------------------------------- impl side (worker)
def opn(case, i):
    """operator name of node i; `same_op`: every node's operator is called `op` although the definitions differ (two operators
    of one name with different definitions work since fix D90)"""
    return "op" if case.get("same_op") else f"op{i}"


def build_circuit(case):
    from pyrates import CircuitTemplate, OperatorTemplate, NodeTemplate
    nodes = {}
    for i, nd in enumerate(case["nodes"]):
        eqs, variables = [], {}
        for j, (name, init, e) in enumerate(nd["states"]):
            eqs.append(f"{name}' = {to_py(e)}")
            variables[name] = f"{'output' if j == 0 else 'variable'}({flt(init)})"
        for name, e in nd["inters"]:
            eqs.append(f"{name} = {to_py(e)}")
            variables[name] = "variable(0.0)"
        for name, val in nd["params"]:
            variables[name] = float(Fr(val))
        if nd["input"]:
            variables["s_in"] = "input(0.0)"
        op = OperatorTemplate(name=opn(case, i), equations=eqs, variables=variables)
        nodes[nd["name"]] = NodeTemplate(name=f"nt{i}", operators=[op])
    edges = []
    for sn, sv, tn, w, d in case["edges"]:
        si = [n["name"] for n in case["nodes"]].index(sn); ti = [n["name"] for n in case["nodes"]].index(tn)
        attr = {"weight": float(Fr(w))}
        if d is not None:
            attr["delay"] = float(Fr(d))
        edges.append((f"{sn}/{opn(case, si)}/{sv}", f"{tn}/{opn(case, ti)}/s_in", None, attr))
    return CircuitTemplate(name="c12", nodes=nodes, edges=edges)


def _sig_names(src, fname):
    m = re.search(rf"def {fname}\(([^)]*)\)", src)
    return [s.strip() for s in m.group(1).split(",")]


STANDINS = {   # polynomial stand-ins for the transcendental functions (the same polynomials as Jacobian.Qc_fn)
    "sigmoid": lambda v: v * v * 0.25 + 0.25,
    "exp": lambda v: 2.0 ** v,          # exact on the integral arguments the generator produces; homomorphism like exp
    "sin": lambda v: v * 0.5,
    "cos": lambda v: 1.0 - v * v * 0.5,
    "tanh": lambda v: v * 0.25,
}


def patch_standins(func):
    """replace the transcendental functions that the generated module defines/imports (and only those: a missing import stays
    a NameError) by the stand-ins"""
    g = getattr(func, "__globals__", None)
    if g is None:       # a jitted jax function: the python function is underneath
        g = getattr(getattr(func, "__wrapped__", None), "__globals__", None)
    if g is None:
        return
    for nm, f in STANDINS.items():
        if nm in g:
            g[nm] = f


def impl(case):
    if case.get("auto"):
        return auto_impl(case)
    import numpy as np
    import pyr
    from pyr import fracs, frac
    kw = dict(step_size=1e-3, solver=case["solver"], in_place=False, clear=False, vectorize=False, backend="default",
              float_precision="float64", verbose=False)
    out = {}

    def pvals(names, args, pt, first):
        vals = []
        for nm, dv in zip(names[first:], args[first:]):
            vals.append(np.float64(float(Fr(pt["params"][nm]))) if nm in pt["params"] else dv)
        return vals

    def hist_of(pt, smap):
        n = len(smap)
        h0 = np.zeros(n); h1 = np.zeros(n)
        for nm, i in smap.items():
            h0[i] = float(Fr(pt["h0"][nm])); h1[i] = float(Fr(pt["h1"][nm]))
        return lambda s: h0 + s * h1

    # ---- the vector field
    pyr.reset_pyrates()
    try:
        c = build_circuit(case)
        f, args, names, smap = c.get_run_func("rf", file_name="rfile", **kw)
        patch_standins(f)
        smap = {k: int(v) for k, v in smap.items()}
        out["smap_run"] = smap
        dde = len(names) > 2 and names[2] == "hist"
        first = 4 if dde else 3
        out["run_defaults"] = {nm: frac(np.asarray(v).reshape(-1)[0]) for nm, v in zip(names[first:], args[first:])
                               if np.asarray(v).size == 1}
        F = []
        for pt in case["points"]:
            y = np.zeros(len(smap))
            for nm, i in smap.items():
                y[i] = float(Fr(pt["y"][nm]))
            dy = np.zeros(len(smap))
            a = [float(Fr(pt["t"])), y] + ([hist_of(pt, smap)] if dde else []) + [dy] + pvals(names, args, pt, first)
            F.append(fracs(np.array(f(*a), dtype=np.float64)))
        out["F"] = F
    finally:    # an exception of get_run_func is no longer skipped (D38/D80 repaired the known causes): it is reported like any crash
        pyr.reset_pyrates()

    # ---- the Jacobian(s)
    def jac(sparse, tag, backend="default"):
        pyr.reset_pyrates()
        try:
            c = build_circuit(case)
            jf, jargs, jnames, jsmap = c.get_jacobian_func("jf", file_name="jfile" + tag, sparse=sparse, **dict(kw, backend=backend))
            patch_standins(jf)
            src = open("jfile" + tag + ".py").read()
            jsmap = {k: int(v) for k, v in jsmap.items()}
            dde = len(jnames) > 2 and jnames[2] == "hist"
            first = 3 if dde else 2
            local = _sig_names(src, "jf")
            assert len(local) == len(jnames), (local, jnames)
            # labels of the history matrices: read from the generated source
            dstr = dict(re.findall(r"_yhist_(\w+) = hist\(t - (.+)\)", src))
            m = re.search(r"return (?:csr_matrix\()?J0\)?, \[(.*)\]", src)
            labels = []
            if m and m.group(1).strip():
                for nm in m.group(1).split(","):
                    nm = nm.strip()
                    nm = nm[len("csr_matrix("):-1] if nm.startswith("csr_matrix(") else nm
                    d = dstr[nm[len("J_hist_"):]].strip()
                    labels.append("par:" + jnames[local.index(d)] if d in local else ("lit:" if "." in d else "ilt:") + str(Fr(float(d))))
            res = []
            for pt in case["points"]:
                y = np.zeros(len(out["smap_run"]))
                for nm, i in out["smap_run"].items():      # the state vector in the ordering of get_run_func
                    y[i] = float(Fr(pt["y"][nm]))
                a = [float(Fr(pt["t"])), y] + ([hist_of(pt, out["smap_run"])] if dde else []) + pvals(jnames, jargs, pt, first)
                try:
                    r = jf(*a)
                except NameError as e:
                    res.append({"raised": "NameError", "msg": str(e)[:120]}); continue
                j0, hs = (r if dde else (r, []))
                if sparse:
                    from scipy.sparse import issparse
                    assert issparse(j0) and all(issparse(h) for h in hs), "sparse=True did not return sparse matrices"
                    j0 = j0.toarray(); hs = [h.toarray() for h in hs]
                j0 = np.asarray(j0, dtype=np.float64)
                assert len(hs) == len(labels), (len(hs), labels)
                res.append({"J0": [fracs(row) for row in j0],
                            "hist": [[lab, [fracs(row) for row in np.asarray(h, dtype=np.float64)]] for lab, h in zip(labels, hs)]})
            return dict(res=res, smap=jsmap, warn=src.count("# WARNING: could not differentiate"),
                        defaults={nm: frac(np.asarray(v).reshape(-1)[0]) for nm, v in zip(jnames[first:], jargs[first:])
                                  if np.asarray(v).size == 1})
        finally:
            pyr.reset_pyrates()

    if case.get("jax"):      # Jacobian through the jax backend (jax.numpy arrays); sparse=True must be refused loudly there
        out["dense"] = jac(False, "d", backend="jax")
        try:
            jac(True, "s", backend="jax")
            out["sparse_refused"] = False
        except NotImplementedError:
            out["sparse_refused"] = True
        return out
    out["dense"] = jac(False, "d")
    if case.get("sparse"):
        out["sparse"] = jac(True, "s")
    return out


NPARX = 40          # length of the PAR array handed to the compiled auto-07p routines


def auto_impl(case):
    """auto-07p export (backend='fortran', auto=True) compiled through f2py: FUNC(..., IJAC=2, ...) at the points -> F, DFDU, DFDP"""
    import importlib
    import numpy as np
    import pyr
    from pyr import fracs, frac
    sys.path.insert(0, os.getcwd())
    fname = "ma" + str(abs(hash(canon(case))) % 10 ** 8)
    pyr.reset_pyrates()
    try:
        f, args, names, smap = build_circuit(case).get_run_func("vfx", step_size=1e-3, file_name=fname, backend="fortran",
                                                                float_precision="float64", auto=True, vectorize=False, solver="scipy", verbose=False)
        smap = {k: int(v) for k, v in smap.items()}
        consts = {}
        for line in open("c.ivp").read().split("\n"):
            if line.startswith("parnames") or line.startswith("unames"):
                k, v = line.split(" = ", 1)
                consts[k.strip()] = eval(v.strip(), {"__builtins__": {}})
        slots = sorted(consts.get("parnames", {}))
        pnames = list(names[3:])
        assert len(slots) == len(pnames), (consts, names)
        defaults = {nm: frac(np.asarray(v).reshape(-1)[0]) for nm, v in zip(pnames, args[3:])}
        # the f2py extension that holds the auto-07p routines: since fix D96 it is called <file_name>_<hash of the source>
        # (the Fortran module inside keeps the name <file_name>); it is the module the backend has just imported
        cands = [m for nm, m in sys.modules.items() if (nm == fname or nm.startswith(fname + "_")) and hasattr(m, "func")]
        if not cands:
            importlib.invalidate_caches()
            import glob as _glob
            names = sorted({os.path.basename(q).split(".")[0] for q in _glob.glob(fname + "*.so")})
            cands = [importlib.import_module(nm) for nm in names]
            cands = [m for m in cands if hasattr(m, "func")]
        assert len(cands) == 1, ("compiled auto-07p module not found", fname, [m.__name__ for m in cands])
        mod = cands[0]
        nd = len(smap)
        res = []
        for pt in case["points"]:
            y = np.zeros(nd)
            for nm, i in smap.items():
                y[i] = float(Fr(pt["y"][nm]))
            par = np.zeros(NPARX)
            for sl, nm in zip(slots, pnames):
                par[sl - 1] = float(Fr(pt["params"][nm])) if nm in pt["params"] else float(Fr(defaults[nm]))
            dfdu = np.zeros((nd, nd), order="F"); dfdp = np.zeros((nd, NPARX), order="F")
            dyv = mod.func(y, np.zeros(1, dtype=np.int32), par, 2, dfdu, dfdp)
            res.append(dict(F=fracs(dyv), dfdu=[fracs(r) for r in dfdu], dfdp=[fracs(r) for r in dfdp]))
        return dict(smap_run=smap, slots=[[int(sl), nm] for sl, nm in zip(slots, pnames)], defaults=defaults, res=res,
                    unames=[[int(k), v] for k, v in sorted(consts.get("unames", {}).items())])
    finally:
        pyr.reset_pyrates()


def opaque_impl(case):
    """witness of finding C12-F6: a function without a derivative rule (maxi/mini) leaves the Jacobian entry 0 although the vector
    field depends on the variable (difference quotient of the run function is not 0)"""
    import numpy as np
    import pyr
    from pyrates import CircuitTemplate, OperatorTemplate, NodeTemplate
    kw = dict(step_size=1e-3, solver="euler", in_place=False, clear=False, vectorize=False, backend="default", float_precision="float64", verbose=False)
    def circ():
        op = OperatorTemplate(name="opq", equations=case["equations"], variables=case["variables"])
        return CircuitTemplate(name="c", nodes={"A": NodeTemplate(name="n", operators=[op])})
    pyr.reset_pyrates()
    try:
        f, args, names, smap = circ().get_run_func("rf", file_name="rfile", **kw)
        y = np.array([float(Fr(v)) for v in case["y"]])
        i, j = case["entry"]
        yp = y.copy(); yp[j] += 0.25
        dq = (np.array(f(0.0, yp, np.zeros(len(y)), *args[3:]))[i] - np.array(f(0.0, y.copy(), np.zeros(len(y)), *args[3:]))[i]) / 0.25
        pyr.reset_pyrates()
        jf, jargs, jnames, jsmap = circ().get_jacobian_func("jf", file_name="jfile", **kw)
        J = np.asarray(jf(0.0, y.copy(), *jargs[2:]), dtype=np.float64)
        warn = open("jfile.py").read().count("# WARNING: could not differentiate")
        return dict(entry=float(J[i, j]), difference_quotient=float(dq), warnings=warn, silent_zero=bool(J[i, j] == 0.0 and dq != 0.0 and warn > 0))
    finally:
        pyr.reset_pyrates()


def support_impl(case):
    """support stream: transcendental models, J against central differences of the run function (float64)"""
    import numpy as np
    import pyr
    kw = dict(step_size=1e-3, solver="euler", in_place=False, clear=False, vectorize=False, backend="default",
              float_precision="float64", verbose=False)
    pyr.reset_pyrates()
    try:
        f, args, names, smap = build_circuit(case).get_run_func("rf", file_name="rfile", **kw)
        pyr.reset_pyrates()
        jf, jargs, jnames, jsmap = build_circuit(case).get_jacobian_func("jf", file_name="jfile", **kw)
        pj = dict(zip(jnames[2:], jargs[2:]))
        worst = 0.0
        for pt in case["points"]:
            y = np.zeros(len(smap))
            for nm, i in smap.items():
                y[i] = float(Fr(pt["y"][nm]))
            J = np.asarray(jf(0.0, y.copy(), *[pj[nm] for nm in jnames[2:]]), dtype=np.float64)
            n = len(y); eps = 1e-5
            fd = np.zeros((n, n))
            for j in range(n):
                yp = y.copy(); ym = y.copy(); yp[j] += eps; ym[j] -= eps
                fp = np.array(f(0.0, yp, np.zeros(n), *args[3:]), dtype=np.float64)
                fm = np.array(f(0.0, ym, np.zeros(n), *args[3:]), dtype=np.float64)
                fd[:, j] = (fp - fm) / (2 * eps)
            worst = max(worst, float(np.max(np.abs(J - fd))))
        return {"worst": worst, "same_smap": {k: int(v) for k, v in smap.items()} == {k: int(v) for k, v in jsmap.items()}}
    finally:
        pyr.reset_pyrates()


# ---------------------------------------------------------------------------------------------- generator
def dy(rng, lo, hi, den, nonzero=False):
    while True:
        v = Fr(rng.randint(lo * den, hi * den), den)
        if v != 0 or not nonzero:
            return str(v)


def gen_case(rng, allow_viol=False, absv=False, want_delay=None, fns=False, nparams=None, distinct_weights=False, maxmin=False):
    nn = rng.choice([1, 2, 2, 3])
    while True:
        ns = [rng.randint(1, 3) for _ in range(nn)]
        if 2 <= sum(ns) <= 4:
            break
    delays = (rng.random() < 0.55) if want_delay is None else want_delay
    names = ["A", "B", "C"][:nn]
    ni = [rng.randint(0, 2) for _ in range(nn)]
    # edges between every pair of nodes (also self-loops)
    edges = []
    for t in range(nn):
        for s in range(nn):
            if rng.random() < (0.6 if nn > 1 else 0.4):
                if s < t and ni[s] and rng.random() < 0.3:
                    src, d = ("inter", rng.randrange(ni[s])), None
                else:
                    src = ("state", rng.randrange(ns[s]))
                    d = rng.choice(["1/4", "1/2", "3/4", "1", "1", "5/4", "3/2", "2"]) if (delays and rng.random() < 0.4) else None
                edges.append([s, src, t, dy(rng, -2, 2, 4, nonzero=True), d])
                # a second variable of the same source node into the same target (defect D3, repaired by D59)
                if ns[s] > 1 and src[0] == "state" and rng.random() < 0.25:
                    edges.append([s, ("state", (src[1] + 1) % ns[s]), t, dy(rng, -2, 2, 4, nonzero=True), None])
    # unit-weight undelayed edges whose source also feeds a delayed edge, bare copies `m = s_in` (nested identity markers, repaired by
    # fix D50) and lone sin / cos calls (import of derivative-only functions, fix D51) are part of the stream
    if distinct_weights:        # the auto stream identifies an edge weight argument by (target node, value)
        for t in range(nn):
            ws = [Fr(1)]
            for e in edges:
                if e[2] == t:
                    while Fr(e[3]) in ws:
                        e[3] = dy(rng, -2, 2, 4, nonzero=True)
                    ws.append(Fr(e[3]))
    tau_default = dy(rng, 0, 2, 4, nonzero=True)
    nodes, cls_inter, bits_inter = [], {}, {}
    viol = False
    for i in range(nn):
        st = STATE_NAMES[:ns[i]]
        params = [[p, dy(rng, -2, 2, 4, nonzero=True)] for p in (PARAM_NAMES + [f"p{q}" for q in range(9)])[:nparams or rng.randint(1, 3)]]
        tau = None
        taus = []
        if delays and rng.random() < 0.7:
            # often the same default in every node: the delays are then told apart only by their names / runtime values
            tau = "tau"; params.append(["tau", tau_default if rng.random() < 0.6 else dy(rng, 0, 2, 4, nonzero=True)])
            taus = ["tau"]
            if rng.random() < 0.5:      # further delay parameters whose names are zero-suffix variants of each other
                for nm in rng.sample(DELAY_PARAMS[1:], rng.randint(1, 2)):
                    params.append([nm, tau_default if rng.random() < 0.4 else dy(rng, 0, 2, 4, nonzero=True)]); taus.append(nm)
        ilits = rng.choice([["1", "10"], ["2", "20"], ["1", "10", "100"][:2], ["10"]]) if (delays and rng.random() < 0.3) else []
        inc = [e for e in edges if e[2] == i]
        # class of the input variable: clean / delayed (no state dependence) / mixed (sum of both)
        cl = set()
        for s, src, t, w, d in inc:
            if d is not None:
                cl.add("delayed")
            elif src[0] == "state":
                cl.add("clean")
            else:
                cl.add(cls_inter[(s, src[1])])
        atoms = {"clean": [["v", s] for s in st] + [["v", p[0]] for p in params if p[0] not in DELAY_PARAMS], "delayed": [], "mixed": []}
        pars = [["v", p[0]] for p in params if p[0] not in DELAY_PARAMS]
        if inc:
            c_in = "mixed" if ("mixed" in cl or len(cl) > 1) else cl.pop()
            atoms[c_in].append(["v", "s_in"])

        def past_atom():
            sv = rng.choice(st[1:] if len(st) > 1 and rng.random() < 0.8 else st)     # prefer a non-first variable
            r_ = rng.random()
            d = ["par", rng.choice(taus)] if (taus and r_ < 0.6) else ["ilit", rng.choice(ilits)] if (ilits and r_ < 0.85) else \
                ["lit", rng.choice(["1/2", "1/4", "3/4", "1", "2", "5/4"])]
            return ["past", sv, d]

        def factor(pool):
            a = rng.choice(pool)
            r = rng.random()
            if fns and rng.random() < 0.3:
                f = rng.choice(["sigmoid", "sigmoid", "tanh", "sincos", "exp"])
                if f == "exp":          # integral argument: 4 * (state or parameter, multiples of 1/4), see Jacobian.Qc_exp2
                    base = [["v", s_] for s_ in st] + pars
                    u = rng.choice(base)
                    if r < 0.3:
                        u = [rng.choice("+-"), u, rng.choice(base)]
                    return ["fn", "exp", ["*", ["c", "4"], u]]
                # arguments that cannot cancel symbolically (cos(b - b) -> 1 removes the import of cos from the module)
                arg = a if r < 0.4 else ["*", a, rng.choice(pool)] if r < 0.7 else ["+", ["*", a, rng.choice(pool)], ["c", dy(rng, 0, 1, 4, nonzero=True)]]
                if f == "sincos" and rng.random() < 0.5:
                    return ["fn", rng.choice(["sin", "cos"]), arg]
                if f == "sincos":       # sin and cos always together (missing-import finding, see gen_support)
                    return ["*", ["fn", "sin", arg], ["fn", "cos", rng.choice(pool)]] if r < 0.5 else ["+", ["fn", "cos", arg], ["fn", "sin", rng.choice(pool)]]
                return ["fn", f, arg]
            if r < 0.45:
                return a
            if r < 0.6:
                return ["pow", a, rng.choice([2, 2, 3])]
            if r < 0.75:
                return [rng.choice("+-"), a, ["c", dy(rng, -2, 2, 4, nonzero=True)]]
            if r < 0.85:
                return ["pow", [rng.choice("+-"), a, rng.choice(pool)], 2]
            if r < 0.93:
                return ["neg", [rng.choice("+-"), a, rng.choice(pool)]]
            if maxmin:      # maxi / mini (fix D112); ties occur (a variable against itself shifted by 0, equal values): the model has the 1/2 rule
                u = a if rng.random() < 0.5 else ["*", a, rng.choice(pool)]
                v = rng.choice([rng.choice(pool), ["c", dy(rng, -2, 2, 4)], ["+", rng.choice(pool), ["c", dy(rng, -1, 1, 4, nonzero=True)]]])
                if v == u:      # maxi(x, x): the same variable as both direct arguments does not compile at all (lambdify raises
                    v = ["c", dy(rng, -2, 2, 4)]      # SyntaxError "duplicate argument", in get_run_func too; not a C12 matter)
                return ["fn2", rng.choice(["maxi", "mini"]), u, v]
            if absv:
                return ["fn", "absv", ["*", a, rng.choice(pool)]]
            return ["*", a, rng.choice(pool)]

        def term(kind):
            nonlocal viol
            if kind == "clean":
                fs = [factor(atoms["clean"]) for _ in range(rng.randint(1, 3))]
            elif kind == "delayed":
                pool = atoms["delayed"] + pars
                fs = []
                for _ in range(rng.randint(1, 2)):
                    fs.append(past_atom() if (delays and (not atoms["delayed"] or rng.random() < 0.6)) else rng.choice(pool))
                if rng.random() < 0.2:
                    fs[0] = ["pow", fs[0], 2]
                if allow_viol and rng.random() < 0.25:
                    fs.append(["v", rng.choice(st)]); viol = True            # a delayed factor times a state variable
            else:
                fs = [rng.choice(atoms["mixed"])] + ([rng.choice(pars)] if rng.random() < 0.4 else [])
            e = fs[0]
            for f in fs[1:]:
                e = ["*", e, f]
            if rng.random() < 0.6:
                e = ["*", ["c", dy(rng, -2, 2, 8, nonzero=True)], e]
            return e

        def poly(bare_ok=True):
            for _ in range(200):
                e, cls = poly1()
                if sum(bits(e, benv)) <= BIT_LIMIT and (bare_ok or rng.random() < 0.5 or e[0] not in ("v", "past")):
                    return e, cls
            raise RuntimeError("generator: no expression within the bit limit")

        def poly1():
            kinds = []
            for _ in range(rng.randint(1, 3)):
                opts = ["clean", "clean"]
                if delays or atoms["delayed"]:
                    opts.append("delayed")
                if atoms["mixed"]:
                    opts.append("mixed")
                kinds.append(rng.choice(opts))
            e = None
            for k in kinds:
                t_ = term(k)
                e = t_ if e is None else [rng.choice("+-"), e, t_]
            cls = "clean" if set(kinds) == {"clean"} else "delayed" if set(kinds) == {"delayed"} else "mixed"
            return e, cls

        benv = {}
        if inc:
            b = (0, 0)
            for s_, src, t_, w_, d_ in inc:
                sb = (3, 4) if d_ is not None else (2, 2) if src[0] == "state" else bits_inter[(s_, src[1])]
                b = (max(b[0], sb[0] + 2) + 1, max(b[1], sb[1] + 2))
            benv["s_in"] = b
        inters = []
        for j in range(ni[i]):
            e, cls = poly(bare_ok=False)
            nm = INTER_NAMES[j]
            inters.append([nm, e]); cls_inter[(i, j)] = cls
            bits_inter[(i, j)] = benv[nm] = bits(e, benv)
            atoms[cls].append(["v", nm])
        states = []
        for s in st:
            e, _ = poly(bare_ok=False)
            states.append([s, dy(rng, -1, 1, 4), e])
        nodes.append(dict(name=names[i], states=states, inters=inters, params=params, input=bool(inc)))
    edges_out = []
    for s, src, t, w, d in edges:
        sv = nodes[s]["states"][src[1]][0] if src[0] == "state" else nodes[s]["inters"][src[1]][0]
        edges_out.append([names[s], sv, names[t], w, d])
    case = dict(nodes=nodes, edges=edges_out, sparse=rng.random() < 0.34)
    if nn > 1 and rng.random() < 0.25:
        case["same_op"] = True
    case["solver"] = "scipy" if has_delay(case) else rng.choice(["euler", "scipy"])
    case["points"] = [gen_point(rng, case) for _ in range(3)]
    return case


def gen_auto_case(rng, many=None, need_edges=False):
    """polynomial ODE model for the auto-07p export; every other model has >= 10 parameters (reserved PAR slots 11-14 are crossed)"""
    while True:
        many = (rng.random() < 0.6) if many is None else many
        case = gen_case(rng, want_delay=False, nparams=(rng.randint(5, 9) if many else None), distinct_weights=True)
        npar = sum(len(nd["params"]) for nd in case["nodes"]) + len(case["edges"])
        cross = any(e[0] != e[2] for e in case["edges"])
        if (not many or npar >= 10) and (not need_edges or (len(case["nodes"]) >= 2 and cross)):
            break
    case["auto"] = True; case["sparse"] = False; case["solver"] = "scipy"
    case["points"] = case["points"][:2]
    return case


def has_delay(case):
    return any(e[4] is not None for e in case["edges"]) or any(
        x[0] == "past" for nd in case["nodes"] for _, e in [(s[0], s[2]) for s in nd["states"]] + [tuple(i) for i in nd["inters"]] for x in walk(e))


def all_states(case):
    return [f"{nd['name']}/{opn(case, i)}/{s[0]}" for i, nd in enumerate(case["nodes"]) for s in nd["states"]]


def gen_point(rng, case):
    sts = all_states(case)
    params = {}
    for i, nd in enumerate(case["nodes"]):
        for p, _ in nd["params"]:
            params[f"{nd['name']}/{opn(case, i)}/{p}"] = dy(rng, 0, 2, 4, nonzero=True) if p in DELAY_PARAMS else dy(rng, -2, 2, 4)
    return dict(t=dy(rng, 0, 4, 4), y={s: dy(rng, -2, 2, 4) for s in sts}, params=params,
                h0={s: dy(rng, -2, 2, 4) for s in sts}, h1={s: dy(rng, -1, 1, 4) for s in sts})


def gen_support(rng):
    st = ["x", "z"] + (["v"] if rng.random() < 0.5 else [])
    fns = ["sigmoid", "exp", "sin", "cos", "tanh"]
    def arg():
        a = ["v", rng.choice(st)]
        return ["*", ["c", dy(rng, -1, 1, 4, nonzero=True)], ["*", a, ["v", rng.choice(st)]]] if rng.random() < 0.4 else \
               ["*", ["v", "a"], a] if rng.random() < 0.5 else a
    states = []
    for s in st:
        e = ["neg", ["v", s]]
        for _ in range(rng.randint(1, 3)):
            t_ = ["fn", rng.choice(fns), arg()]
            if rng.random() < 0.4:
                t_ = ["*", t_, ["v", rng.choice(st)]]
            e = [rng.choice("+-"), e, t_]
        states.append([s, dy(rng, -1, 1, 4), e])
    case = dict(nodes=[dict(name="A", states=states, inters=[], params=[["a", dy(rng, -2, 2, 4, nonzero=True)]], input=False)],
                edges=[], solver="euler", sparse=False)
    case["points"] = [dict(t="0", y={s: dy(rng, -1, 1, 4) for s in all_states(case)}, params={}, h0={}, h1={}) for _ in range(2)]
    return case


# ---------------------------------------------------------------------------------------------- model side
HEADER = """From Coq Require Import List ZArith QArith Qcanon Bool.
From PV Require Import Jacobian Corr.
Import ListNotations.
Local Open Scope nat_scope.
Definition R := result (list (list Qc)).
(* point = variables, hist(t - delay) per delay symbol, observed results (dense [, sparse]), observed vector field *)
Definition point := (list (nat * Qc) * list (nat * list Qc) * list R * list Qc)%type.
Definition kase := (sys Qc * list point)%type.
Definition on_points (f : sys Qc -> (atom -> Qc) -> list R -> list Qc -> bool) (c : kase) : bool :=
  let '(s, pts) := c in forallb (fun p => let '(vars, hist, obs, obsF) := p in f s (env (states s) vars hist) obs obsF) pts.
Definition okI := on_points (fun s r obs _ => forallb (result_eqb (jac_impl QcO s r)) obs).
Definition okS := on_points (fun s r obs _ => forallb (result_eqb (jac_spec QcO s r)) obs).
Definition okF := on_points (fun s r _ obsF => qrow_eqb (vf QcO (fun c => c) s r) obsF).
Definition g_wf (c : kase) := wf (fst c) && forallb execb (rhs (fst c)) && forallb (fun ma => execb (snd ma)) (algs (fst c)).
Definition g_delayed (c : kase) := fixed_D08b || no_delayed_factor_in_j0 QcO (fst c).
"""


class Ids:
    def __init__(self, case):
        self.ids = {}
        for i, nd in enumerate(case["nodes"]):
            for nm in [s[0] for s in nd["states"]] + [x[0] for x in nd["inters"]] + [p[0] for p in nd["params"]] + ["s_in"]:
                self.ids[f"{nd['name']}/{opn(case, i)}/{nm}"] = len(self.ids)
        self.lits = {}

    def var(self, path):
        return self.ids[path]

    def lit(self, q, kind="f"):
        """id of a literal delay; the code tells delays apart by their text: 1 (integer literal) and 1.0 are two delay symbols"""
        q = (kind, Fr(q))
        if q not in self.lits:
            self.lits[q] = 1000 + len(self.lits)
        return self.lits[q]


def to_coq(e, pre, ids):
    k = e[0]
    if k == "c":
        return f"(Cst {cq(e[1])})"
    if k == "v":
        return f"(At (AV {ids.var(pre + e[1])}))"
    if k == "past":
        d = ids.var(pre + e[2][1]) if e[2][0] == "par" else ids.lit(e[2][1], "i" if e[2][0] == "ilit" else "f")
        return f"(At (AP {ids.var(pre + e[1])} {d}))"
    if k in "+-*":
        return f"({ {'+': 'Add', '-': 'Sub', '*': 'Mul'}[k]} {to_coq(e[1], pre, ids)} {to_coq(e[2], pre, ids)})"
    if k == "neg":
        return f"(Neg {to_coq(e[1], pre, ids)})"
    if k == "pow":
        return f"(PowN {to_coq(e[1], pre, ids)} {int(e[2])})"
    if k == "fn":
        return f"(Fn {FN_COQ[e[1]]} {to_coq(e[2], pre, ids)})"
    if k == "fn2":
        return f"(Fn2 { {'maxi': 'FMax', 'mini': 'FMin'}[e[1]]} {to_coq(e[2], pre, ids)} {to_coq(e[3], pre, ids)})"
    raise ValueError(e)


def delay_values(case, pt, ids):
    """delay id -> value of the delay at this point (parameter value or literal)"""
    vals = {}
    for i, nd in enumerate(case["nodes"]):
        pre = f"{nd['name']}/{opn(case, i)}/"
        for _, e in [(s[0], s[2]) for s in nd["states"]] + [tuple(x) for x in nd["inters"]]:
            for x in walk(e):
                if x[0] == "past":
                    if x[2][0] == "par":
                        vals[ids.var(pre + x[2][1])] = Fr(pt["params"][pre + x[2][1]])
                    else:
                        vals[ids.lit(x[2][1], "i" if x[2][0] == "ilit" else "f")] = Fr(x[2][1])
    for e in case["edges"]:
        if e[4] is not None:
            vals[ids.lit(e[4])] = Fr(e[4])
    return vals


def coq_result(r, ids):
    if "raised" in r:
        return "NameErr"
    mat = lambda m: clist([clist([cq(x) for x in row]) for row in m])
    hs = []
    for lab, m in r["hist"]:
        d = ids.var(lab[4:]) if lab.startswith("par:") else ids.lit(lab[4:], "i" if lab.startswith("ilt:") else "f")
        hs.append(f"({d}, {mat(m)})")
    return f"(Ok {mat(r['J0'])} {clist(hs)})"


def coq_case(case, out):
    ids = Ids(case)
    names = [nd["name"] for nd in case["nodes"]]
    pre = {nd["name"]: f"{nd['name']}/{opn(case, i)}/" for i, nd in enumerate(case["nodes"])}
    smap = out["smap_run"]
    order = sorted(smap, key=lambda k: smap[k])
    assert sorted(smap.values()) == list(range(len(smap))) and set(order) == set(all_states(case)), smap
    rhs_of = {pre[nd["name"]] + s[0]: to_coq(s[2], pre[nd["name"]], ids) for nd in case["nodes"] for s in nd["states"]}
    algs = []
    for nd in case["nodes"]:
        inc = [e for e in case["edges"] if e[2] == nd["name"]]
        if inc:
            tot = None
            for sn, sv, tn, w, d in inc:
                src = f"(At (AV {ids.var(pre[sn] + sv)}))" if d is None else f"(At (AP {ids.var(pre[sn] + sv)} {ids.lit(d)}))"
                term = f"(Mul (Cst {cq(w)}) {src})"
                tot = term if tot is None else f"(Add {tot} {term})"
            algs.append(f"({ids.var(pre[nd['name']] + 's_in')}, {tot})")
        for nm, e in nd["inters"]:
            algs.append(f"({ids.var(pre[nd['name']] + nm)}, {to_coq(e, pre[nd['name']], ids)})")
    sysT = f"(mksys {clist([str(ids.var(k)) for k in order])} {clist([rhs_of[k] for k in order])} {clist(algs)})"
    pts = []
    for pi, pt in enumerate(case["points"]):
        vars_ = [f"({ids.var(k)}, {cq(v)})" for k, v in pt["y"].items()] + [f"({ids.var(k)}, {cq(v)})" for k, v in pt["params"].items()]
        hist = []
        for d, tau in sorted(delay_values(case, pt, ids).items()):
            s = Fr(pt["t"]) - tau
            hist.append(f"({d}, {clist([cq(Fr(pt['h0'][k]) + s * Fr(pt['h1'][k])) for k in order])})")
        obs = [coq_result(out[v]["res"][pi], ids) for v in ("dense", "sparse") if v in out]
        obsF = clist([cq(out["F"][pi][smap[k]]) for k in order])
        pts.append(f"({clist(vars_)}, {clist(hist)}, {clist(obs)}, {obsF})")
    return f"({sysT}, {clist(pts)})"


HEADER_AUTO = """From Coq Require Import List ZArith QArith Qcanon Bool.
From PV Require Import Jacobian Corr.
Import ListNotations.
Local Open Scope nat_scope.
(* point = variables (states, parameters, edge weights), observed F, DFDU, DFDP (all NPAR columns) *)
Definition apoint := (list (nat * Qc) * list Qc * list (list Qc) * list (list Qc))%type.
(* model, parameter id per PAR slot (an id that does not occur for an unused slot), points *)
Definition akase := (sys Qc * list nat * list apoint)%type.
Definition on_apoints (f : sys Qc -> list nat -> (atom -> Qc) -> list Qc -> list (list Qc) -> list (list Qc) -> bool) (c : akase) : bool :=
  let '(s, cols, pts) := c in forallb (fun p => let '(vars, oF, oU, oP) := p in f s cols (env (states s) vars []) oF oU oP) pts.
Definition okI := on_apoints (fun s cols r _ oU oP => qmat_eqb (eval_mat QcO r (dfdu_mat QcO s)) oU && qmat_eqb (eval_mat QcO r (dfdp_mat QcO cols s)) oP).
Definition okS := on_apoints (fun s cols r _ oU oP => qmat_eqb (spec_rect QcO s r (states s)) oU && qmat_eqb (spec_rect QcO s r cols) oP).
Definition okF := on_apoints (fun s _ r oF _ _ => qrow_eqb (vf QcO (fun c => c) s r) oF).
Definition g_wf (c : akase) := let '(s, _, _) := c in wf s && forallb execb (rhs s) && forallb (fun ma => execb (snd ma)) (algs s).
"""


def coq_sys(case, order, ids, pre, weight_id=None):
    rhs_of = {pre[nd["name"]] + s[0]: to_coq(s[2], pre[nd["name"]], ids) for nd in case["nodes"] for s in nd["states"]}
    algs = []
    for nd in case["nodes"]:
        inc = [e for e in case["edges"] if e[2] == nd["name"]]
        if inc:
            tot = None
            for k, (sn, sv, tn, w, d) in enumerate(inc):
                src = f"(At (AV {ids.var(pre[sn] + sv)}))" if d is None else f"(At (AP {ids.var(pre[sn] + sv)} {ids.lit(d)}))"
                wid = weight_id(tn, w) if weight_id else None
                term = f"(Mul (At (AV {wid})) {src})" if wid is not None else f"(Mul (Cst {cq(w)}) {src})"
                tot = term if tot is None else f"(Add {tot} {term})"
            algs.append(f"({ids.var(pre[nd['name']] + 's_in')}, {tot})")
        for nm, e in nd["inters"]:
            algs.append(f"({ids.var(pre[nd['name']] + nm)}, {to_coq(e, pre[nd['name']], ids)})")
    return f"(mksys {clist([str(ids.var(k)) for k in order])} {clist([rhs_of[k] for k in order])} {clist(algs)})"


def coq_case_auto(case, out):
    ids = Ids(case)
    pre = {nd["name"]: f"{nd['name']}/{opn(case, i)}/" for i, nd in enumerate(case["nodes"])}
    smap = out["smap_run"]
    order = sorted(smap, key=lambda k: smap[k])
    assert sorted(smap.values()) == list(range(len(smap))) and set(order) == set(all_states(case)), smap
    # PAR slot -> model variable: operator parameters by frontend name, edge weights by (target node, default value)
    wids, col_of_slot = {}, {}
    for sl, nm in out["slots"]:
        if nm in ids.ids:
            col_of_slot[sl] = ids.var(nm)
        else:
            assert "weight" in nm, nm
            tn = nm.split("/")[0]; w = Fr(out["defaults"][nm])
            assert sum(1 for e in case["edges"] if e[2] == tn and Fr(e[3]) == w) == 1, (nm, w, case["edges"])
            wids[(tn, w)] = col_of_slot[sl] = 2000 + len(wids)
    sysT = coq_sys(case, order, ids, pre, weight_id=lambda tn, w: wids.get((tn, Fr(w))))
    cols = [col_of_slot.get(sl, 9000 + sl) for sl in range(1, NPARX + 1)]
    pts = []
    for pi, pt in enumerate(case["points"]):
        vars_ = [f"({ids.var(k)}, {cq(v)})" for k, v in pt["y"].items()] + [f"({ids.var(k)}, {cq(v)})" for k, v in pt["params"].items()]
        vars_ += [f"({wid}, {cq(w)})" for (tn, w), wid in wids.items()]
        r = out["res"][pi]
        mat = lambda m: clist([clist([cq(x) for x in row]) for row in m])
        pts.append(f"({clist(vars_)}, {clist([cq(r['F'][smap[k]]) for k in order])}, {mat(r['dfdu'])}, {mat(r['dfdp'])})")
    return f"({sysT}, {clist([str(c) for c in cols])}, {clist(pts)})"


def model_compare_auto(ctx, cases, outs, tag):
    res = dict(badI=[], badS=[], badF=[], wf=[], delayed=[])
    shard = 20
    for s in range(0, len(cases), shard):
        terms = [coq_case_auto(c, o) for c, o in zip(cases[s:s + shard], outs[s:s + shard])]
        body = ("Definition cases : list akase := " + clist(terms) + ".\n" +
                "".join(f"Eval vm_compute in (mismatches {f} cases).\n" for f in ("okI", "okS", "okF", "g_wf")))
        ls = parse_nat_lists(coq_eval(ctx, f"c12_auto_{tag}_{s}", HEADER_AUTO, body))
        assert len(ls) == 4, ls
        for key, l in zip(("badI", "badS", "badF", "wf"), ls):
            res[key] += [s + i for i in l]
    return res


def identity_markers(case):
    """number of pass-through markers identity(...) the model compiles to: unit-weight undelayed edges and bare copies"""
    n = sum(1 for e in case["edges"] if Fr(e[3]) == 1 and e[4] is None)
    n += sum(1 for nd in case["nodes"] for e in [s_[2] for s_ in nd["states"]] + [i_[1] for i_ in nd["inters"]] if e[0] == "v")
    return n


def check_defaults(case, out):
    """every argument of the generated functions is either a parameter set by the point or an edge weight the model knows"""
    ws = sorted(Fr(e[3]) for e in case["edges"])
    for key in ["run_defaults"] + [v for v in ("dense", "sparse") if v in out]:
        dflt = out[key] if key == "run_defaults" else out[key]["defaults"]
        known = set(case["points"][0]["params"])
        rest = sorted(Fr(v) for k, v in dflt.items() if k not in known)
        pool = list(ws)
        for w in rest:          # an edge into an unused input, or with weight 1, has no argument: sub-multiset
            if w in pool:
                pool.remove(w)
            else:
                return f"{key}: unexpected arguments {dflt} (edge weights {ws})"
        if any(not ("weight" in k) for k in dflt if k not in known):
            return f"{key}: unexpected arguments {dflt} (edge weights {ws})"
    return None


def model_compare(ctx, cases, outs, tag):
    """index lists: bad vs Impl, bad vs Spec, vector field differs, and the guards violated"""
    ia = [i for i, c in enumerate(cases) if c.get("auto")]
    if ia:
        io = [i for i in range(len(cases)) if i not in ia]
        ra = model_compare_auto(ctx, [cases[i] for i in ia], [outs[i] for i in ia], tag)
        ro = model_compare(ctx, [cases[i] for i in io], [outs[i] for i in io], tag) if io else {k: [] for k in ra}
        return {k: sorted([ia[j] for j in ra[k]] + [io[j] for j in ro[k]]) for k in ro}
    res = dict(badI=[], badS=[], badF=[], wf=[], delayed=[])
    shard = 40
    for s in range(0, len(cases), shard):
        terms = [coq_case(c, o) for c, o in zip(cases[s:s + shard], outs[s:s + shard])]
        body = ("Definition cases : list kase := " + clist(terms) + ".\n" +
                "".join(f"Eval vm_compute in (mismatches {f} cases).\n" for f in ("okI", "okS", "okF", "g_wf", "g_delayed")))
        ls = parse_nat_lists(coq_eval(ctx, f"c12_{tag}_{s}", HEADER, body))
        assert len(ls) == 5, ls
        for key, l in zip(("badI", "badS", "badF", "wf", "delayed"), ls):
            res[key] += [s + i for i in l]
    return res


def model_outputs(ctx, case, out, tag):
    if case.get("auto"):
        body = (f"Definition c : akase := {coq_case_auto(case, out)}.\n"
                "Definition s0 := fst (fst c). Definition cols := snd (fst c).\n"
                "Definition r0 := match snd c with (vars, _, _, _) :: _ => env (states s0) vars [] | [] => fun _ => 0%Qc end.\n"
                "Eval vm_compute in (spec_rect QcO s0 r0 (states s0)).\nEval vm_compute in (spec_rect QcO s0 r0 cols).\n"
                "Eval vm_compute in (vf QcO (fun c => c) s0 r0).\n")
        try:
            return coq_eval(ctx, f"c12_show_{tag}", HEADER_AUTO, body)[:6000]
        except Exception as e:
            return f"(model evaluation failed: {e})"
    body = (f"Definition c : kase := {coq_case(case, out)}.\n"
            "Definition r0 := let '(s, pts) := c in match pts with (vars, hist, _, _) :: _ => env (states s) vars hist | [] => fun _ => 0%Qc end.\n"
            "Eval vm_compute in (jac_spec QcO (fst c) r0).\nEval vm_compute in (jac_impl QcO (fst c) r0).\n"
            "Eval vm_compute in (vf QcO (fun c => c) (fst c) r0).\n")
    try:
        return coq_eval(ctx, f"c12_show_{tag}", HEADER, body)[:6000]
    except Exception as e:
        return f"(model evaluation failed: {e})"


def nontrivial(case, out):
    """>= 2 state variables and some non-diagonal entry that is not identically 0 at the points"""
    if len(out.get("smap_run", {})) < 2:
        return False
    if case.get("auto"):        # some off-diagonal DFDU entry or some DFDP entry is non-zero
        return any(Fr(x) != 0 for r in out["res"] for i, row in enumerate(r["dfdu"]) for j, x in enumerate(row) if i != j) or \
               any(Fr(x) != 0 for r in out["res"] for row in r["dfdp"] for x in row)
    for r in out["dense"]["res"]:
        if "raised" in r:
            continue
        for m in [r["J0"]] + [h[1] for h in r["hist"]]:
            if any(Fr(x) != 0 for i, row in enumerate(m) for j, x in enumerate(row) if i != j):
                return True
    return False


# ---------------------------------------------------------------------------------------------- shrinking
def fails(ctx, case, tag):
    r = run_impl(ctx, "c12", "impl", [case], nworkers=1)[0]
    if "err" in r:
        return True, r
    if "skip" in r:
        return False, r
    res = model_compare(ctx, [case], [r], tag)
    return bool(res["badS"]), r


def shrink(ctx, case):
    best, budget = case, 12
    if len(best["points"]) > 1:
        for p in best["points"]:
            cand = dict(best, points=[p]); budget -= 1
            if fails(ctx, cand, f"s{budget}")[0]:
                best = cand; break
    if best.get("sparse"):
        cand = dict(best, sparse=False); budget -= 1
        if fails(ctx, cand, f"s{budget}")[0]:
            best = cand
    return best


# ---------------------------------------------------------------------------------------------- check
def check(ctx):
    pr = proof_gate(ctx, NEEDS)
    problem = proof_problem(pr)
    listed = {f.get("guard") for f in known_findings("C12")}
    n_main, n_sup = (110, 12) if ctx.tier == "quick" else (1500, 150)
    n_auto = 3 if ctx.tier == "quick" else 24           # auto-07p export through f2py: ~6 s per model
    if problem:
        n_main *= 3
    pending = []
    if ctx.replay:
        rp = json.load(open(ctx.replay))
        cases = [rp["case"]] if "case" in rp else []
        n_sup = 0
    else:
        corpus = load_corpus("C12")
        pending = [c for c in corpus if c.get("finding_guard") and c["finding_guard"] not in listed
                   and not (FIXED_D08B and c["finding_guard"] == GUARD_DELAYED)]
        cases = [c for c in corpus if c not in pending]
        for k in range(n_main):
            r = ctx.rng.random()
            cases.append(gen_case(ctx.rng, allow_viol=((FIXED_D08B or GUARD_DELAYED in listed) and r < 0.1),
                                  absv=(0.1 <= r < 0.25), maxmin=(0.25 <= r < 0.4),
                                  want_delay=(True if k % 2 == 0 else None), fns=(k % 4 == 1)))
        for k in range(3 if ctx.tier == "quick" else 20):
            c = gen_case(ctx.rng, want_delay=(k % 2 == 0), absv=(k % 3 == 0))
            c["jax"] = True; c["sparse"] = False
            cases.append(c)
        cases += [gen_auto_case(ctx.rng, many=(True if k % 3 < 2 else None), need_edges=(k % 3 == 0)) for k in range(n_auto)]
    outs = run_impl(ctx, "c12", "impl", cases, per_case_timeout=90)
    crashed = [i for i, r in enumerate(outs) if "err" in r]
    skipped = [i for i, r in enumerate(outs) if "skip" in r]
    if skipped:
        ctx.note(f"{len(skipped)} models skipped: get_run_func itself raised (no reference vector field): "
                 f"{sorted({outs[i]['type'] + ': ' + outs[i]['msg'][:60] for i in skipped})[:3]}")
    assert len(skipped) <= max(2, len(cases) // 5), "too many models without a reference vector field"
    for i in range(len(cases)):
        if i not in crashed and i not in skipped:
            msg = None if cases[i].get("auto") else check_defaults(cases[i], outs[i])
            if cases[i].get("jax") and not outs[i].get("sparse_refused"):
                msg = "backend='jax', sparse=True was not refused with NotImplementedError"
            if msg:
                outs[i] = {"err": "harness", "msg": msg}; crashed.append(i)
    good = [i for i in range(len(cases)) if i not in crashed and i not in skipped]
    res = model_compare(ctx, [cases[i] for i in good], [outs[i] for i in good], "main")
    res = {k: [good[i] for i in v] for k, v in res.items()}
    assert not res["wf"], f"generator produced ill-formed / non-executable models: {res['wf'][:5]}"
    guard_viol = {}
    for i in res["delayed"]:
        guard_viol.setdefault(i, []).append(GUARD_DELAYED)
    bad_impl = sorted(set(res["badI"]) | set(res["badF"]))
    smap_diff = [i for i in good if not cases[i].get("auto") and outs[i]["smap_run"] != outs[i]["dense"]["smap"]]
    n_au = [i for i in good if cases[i].get("auto")]
    ctx.note(f"auto-07p stream: {len(n_au)} models compiled with backend='fortran', auto=True through f2py, FUNC(IJAC=2) at 2 points each: F, DFDU and all "
             f"{NPARX} DFDP columns compared exactly; models with >= 10 PAR slots used: {sum(1 for i in n_au if len(outs[i]['slots']) >= 10)}, with edges between two nodes: "
             f"{sum(1 for i in n_au if any(e[0] != e[2] for e in cases[i]['edges']))}; same operator name on all nodes (D90): {sum(1 for c in cases if c.get('same_op'))} models")
    ctx.note(f"E1: {len(cases)} models x 3 points ({sum(1 for c in cases if has_delay(c))} with delays, "
             f"{sum(1 for i in good if 'sparse' in outs[i])} also compiled with sparse=True); J-vs-Impl mismatches {len(res['badI'])}, "
             f"J-vs-Spec mismatches {len(res['badS'])}, vector-field-vs-model mismatches {len(res['badF'])}, harness/worker errors {len(crashed)}, "
             f"outside guard: delayed factor {len(res['delayed'])}; with exp: {sum(1 for c in cases if any(x[0] == 'fn' and x[1] == 'exp' for nd in c['nodes'] for q in [s_[2] for s_ in nd['states']] + [i_[1] for i_ in nd['inters']] for x in walk(q)))}, with maxi/mini: {sum(1 for c in cases if any(x[0] == 'fn2' for nd in c['nodes'] for q in [s_[2] for s_ in nd['states']] + [i_[1] for i_ in nd['inters']] for x in walk(q)))}, with absv: {sum(1 for c in cases if any(x[0] == 'fn' and x[1] == 'absv' for nd in c['nodes'] for q in [s_[2] for s_ in nd['states']] + [i_[1] for i_ in nd['inters']] for x in walk(q)))}; state maps of run/jacobian differ: {len(smap_diff)}")

    # pending finding witnesses (in corpus/, finding not yet listed in known_findings.json): replayed and reported, never silent
    if pending:
        pouts = run_impl(ctx, "c12", "impl", pending, per_case_timeout=90)
        pres = model_compare(ctx, pending, pouts, "pending")
        for i, c in enumerate(pending):
            ctx.note(f"witness {c.get('id')} of a finding proposed for known_findings.json (guard {c['finding_guard']}): "
                     f"real code {'still differs from' if i in pres['badS'] else 'now agrees with'} the Spec, "
                     f"{'agrees with' if i not in pres['badI'] else 'differs from'} the Impl model; not counted (finding not listed yet)")

    # support stream (never deciding)
    sup_note = None
    if n_sup:
        sc = [gen_support(ctx.rng) for _ in range(n_sup)]
        so = run_impl(ctx, "c12", "support_impl", sc, per_case_timeout=90)
        worst = max([r["worst"] for r in so if "worst" in r] or [0.0])
        sup_note = dict(models=len(sc), errors=sum(1 for r in so if "err" in r), worst_abs_difference=worst, tolerance=1e-6,
                        over_tolerance=sum(1 for r in so if r.get("worst", 0) > 1e-6))
        ctx.note(f"support stream (not deciding): {len(sc)} transcendental models (sigmoid/exp/sin/cos/tanh) against central differences: "
                 f"worst |J - FD| = {worst:.2e}, over 1e-6: {sup_note['over_tolerance']}, errors {sup_note['errors']}")

    def witness_check(f):
        w = f.get("witness")
        path = os.path.join(VERIF, w) if w and not os.path.isabs(w) else w
        c = json.load(open(path))
        if c.get("kind") == "opaque_fn":
            r = run_impl(ctx, "c12", "opaque_impl", [c], nworkers=1)[0]
            return bool(r.get("silent_zero"))
        return fails(ctx, c, "wit")[0]

    def show(c):
        bad, r = fails(ctx, c, "show")
        return dict(equations={nd["name"]: [f"{s[0]}' = {to_py(s[2])}" for s in nd["states"]] + [f"{x[0]} = {to_py(x[1])}" for x in nd["inters"]]
                               for nd in c["nodes"]},
                    implementation_output=r, model_output=model_outputs(ctx, c, r, "show") if "err" not in r and "skip" not in r else None)

    conclude(ctx, cases=cases, impl_out=outs, bad_spec=res["badS"], bad_impl=bad_impl, crashed=crashed, problem=problem,
             guard_viol=guard_viol, spec_name="Jacobian.jac_spec (dual-number derivative of the vector field, state order of get_run_func)",
             impl_name="Jacobian.jac_impl / Jacobian.vf", shrink=lambda c: shrink(ctx, c), show=show, witness_check=witness_check)
    nt = {canon(dict(nodes=cases[i]["nodes"], edges=cases[i]["edges"])) for i in good if nontrivial(cases[i], outs[i])}
    dist = dict(models=len(cases), nodes={k: sum(1 for c in cases if len(c["nodes"]) == k) for k in (1, 2, 3)},
                state_vars={k: sum(1 for c in cases if len(all_states(c)) == k) for k in (2, 3, 4)},
                with_delay=sum(1 for c in cases if has_delay(c)), with_delayed_edge=sum(1 for c in cases if any(e[4] for e in c["edges"])),
                with_intermediates=sum(1 for c in cases if any(nd["inters"] for nd in c["nodes"])),
                with_edges=sum(1 for c in cases if c["edges"]), sparse_too=sum(1 for c in cases if c.get("sparse")),
                history_matrices=sum(len(r["hist"]) for i in good if not cases[i].get("auto") for r in outs[i]["dense"]["res"][:1] if "hist" in r),
                auto_export_models=len(n_au), auto_models_with_10_or_more_parameters=sum(1 for i in n_au if len(outs[i]["slots"]) >= 10),
                delayed_var_not_first=sum(1 for c in cases for nd in c["nodes"] for s in nd["states"] for x in walk(s[2])
                                          if x[0] == "past" and x[1] != nd["states"][0][0]))
    write_evidence(ctx, evaluations=sum(len(c["points"]) for c in cases), distinct_nontrivial=len(nt),
                   rule="random scalar polynomial models (vectorize=False, default backend, float64): 1-3 nodes, 2-4 state variables, algebraic "
                        "intermediates, edges between nodes (also from intermediates), past() with parameter or literal delays on (mostly) non-first "
                        "variables, delayed edges; 3 random dyadic (state, parameter, history) points per model; every entry of J0 and of every history "
                        "matrix, the vector field and (for a third) the sparse=True variant compared as exact rationals inside Coq; a model is "
                        "non-trivial when it has >= 2 state variables and some non-diagonal entry of J0 or of a history matrix is non-zero at a point; "
                        "distinct = distinct canonical JSON of the equations and edges",
                   samples=[dict(equations=[f"{s[0]}' = {to_py(s[2])}" for nd in c["nodes"] for s in nd["states"]], edges=c["edges"]) for c in cases[:2]],
                   extra=dict(input_distribution=dist, impl_vs_model_mismatches=len(bad_impl), impl_vs_spec_mismatches=len(res["badS"]),
                              support_stream=sup_note, pending_witnesses=[c.get("id") for c in pending]),
                   trusted_base=["float64 arithmetic is exact on the generated dyadic data (results are compared as exact rationals)",
                                 "sympy.diff itself is not modelled: the theorem is about the derivative D and PyRates' placement; the run shows that "
                                 "what sympy + the printer emit evaluates like D on every generated model",
                                 "labels of the history matrices (which delay a returned matrix belongs to) are read from the generated source"],
                   assumptions=["scalar state variables (vectorize=False), default backend", "polynomial right-hand sides in the deciding stream",
                                f"guard: {GUARD_DELAYED} (see known findings)", "IEEE rounding is outside the model: the model computes in Qc"])
