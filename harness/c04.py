"""C04 — vectorization does not change the model (vectorize=True == vectorize=False == unit-level edge sum).
Model: coq/theories/Vectorize.v (Impl `impl vec`, Spec `spec`); theorems: coq/properties/C04.v.
Tie: E1 — random circuits (1-3 structural classes x 1-12 nodes, per-node parameters on ONE shared operator template per
class, sparse/dense/permutation/fan-out edge patterns, self-connections, fan-in from several classes, parallel edges,
polynomial dyadic equations) compiled by the real PyRates with vectorize=True and vectorize=False; the vector field at
random dyadic states (and Euler trajectories through CircuitTemplate.run for a subset) is compared, as exact rationals
and inside Coq, with Impl (must agree everywhere, Err classes included) and with Spec (must agree under the guards).
A fraction of the edges is written WITHOUT a 'weight' entry (default 1; D46).  Kind `perm`: >= 10 one-to-one edges covering
a whole vector in permuted order (identity test of _get_indexed_var_str).  Stream `multiop` (node types with several operators, structurally identical ones under different names and rename chains
included): real vec vs real non-vec vs Vectorize.mimpl / mspec inside Coq (model-tied), plus a python unit-level sum.  Kind `ring`: 14-24 units, sparse with FAN-IN, fill on both sides of 0.1.  Kind `seq`: ONE
template object compiled 2-3 times (vec -> non-vec, non-vec -> vec, in_place True/False, clear=True): every step must be the
unit-level sum; the last step of each mode also goes through the Coq comparison."""
import json, os, re
from fractions import Fraction as Fr
from core import *

NEEDS = ["Vectorize", "VectorizeProofs", "Corr", "IndexedEquiv", "Gen_get_indexed_var_str"]   # IndexedEquiv: E2 tie of _get_indexed_var_str
GUARDS = ["no_constant_rhs", "no_scalar_fanout"]
RAW_GUARD = "algebraic_source_independent_of_input"
XN = ["x", "xb", "xc", "xd"]

def switches():
    """model switches of proposed repairs: `Definition fixed_Dnn : bool := true.` in Vectorize.v, or (to try a repair on a scratch
    worktree before it lands) VERIF_C04_FIXED=D32,D21 in the environment"""
    txt = open(os.path.join(COQ, "theories", "Vectorize.v")).read()
    sw = {k: bool(re.search(rf"Definition fixed_{k} : bool := true\.", txt)) for k in ("D32", "D21")}
    for k in os.environ.get("VERIF_C04_FIXED", "").split(","):
        if k.strip() in sw:
            sw[k.strip()] = True
    return sw

# ---------------------------------------------------------------------------------------------- strings
def num(c):
    return repr(float(Fr(c)))

def poly_str(p, names):
    if not p:
        return "0.0"
    out = ""
    for i, m in enumerate(p):
        c = Fr(m[0])
        fac = [num(abs(c))]
        for e, nme in zip(m[1:], names):
            fac += [nme] * e
        body = "*".join(fac)
        out = (("-" if c < 0 else "") + body) if i == 0 else out + (" - " if c < 0 else " + ") + body
    return out

def xname(case, ci):
    return XN[ci] if case.get("dn") else "x"

# ---------------------------------------------------------------------------------------------- impl side (worker)
def nname(case, ni):
    """frontend node path: `n<i>`, or `c<a|b>/n<i>` when the nodes are distributed over two sub-circuits (case["hier"])"""
    return f"c{'ab'[case['hier'][ni]]}/n{ni}" if case.get("hier") else f"n{ni}"

def opname(case, ni):
    """operator name of node ni: `op<class>`, or `op<class>v` for the variant template whose declarations write the same
    variables as length-1 arrays (same structural hash: merged with the scalar-declared nodes, operator renamed)"""
    ci = case["nodes"][ni][0]
    return f"op{ci}v" if case.get("arr1") and case["arr1"][ni] else f"op{ci}"

def build(case, x0=None):
    """class field `decl` (how variables are DECLARED; part of the structural hash, so such classes are never merged even
    with equal equations): float (default) | kint (k declared by an integer literal: dtype int; its nodes get integer and,
    since D97 landed, non-integral k) | xvar (x declared `variable(..)` instead of `output(..)`)"""
    from pyrates import OperatorTemplate, NodeTemplate, CircuitTemplate
    ops, opsv = [], []
    for ci, cl in enumerate(case["classes"]):
        xn = xname(case, ci)
        decl = cl.get("decl", "float")
        for arr in (False, True):
            a1 = ",1" if arr else ""
            eqs = []
            vs = {xn: f"{'variable' if decl == 'xvar' else 'output'}(0.0{a1})", "k": 1 if decl == "kint" else 1.0,
                  "r": f"input({num(cl['rdef'])}{a1})"}
            if cl["g"] is not None:
                eqs.append("m = " + poly_str(cl["g"], [xn, "k"]))
                vs["m"] = f"variable(0.0{a1})"
            eqs.append(f"{xn}' = " + poly_str(cl["f"], [xn, "k", "r"]))
            (opsv if arr else ops).append(OperatorTemplate(name=f"op{ci}{'v' if arr else ''}", equations=eqs, variables=vs))   # ONE template per name
    nodes = {}
    for ni, (ci, k) in enumerate(case["nodes"]):
        kint = case["classes"][ci].get("decl") == "kint"
        # an int-declared parameter gets an int where the value is integral, a float otherwise (legal since D97 = ce404fc)
        ov = {"k": int(Fr(k)) if kint and Fr(k).denominator == 1 else float(Fr(k))}
        if x0 is not None:
            ov[xname(case, ci)] = float(Fr(x0[ni]))
        tmpl = opsv[ci] if opname(case, ni).endswith("v") else ops[ci]
        nodes[ni] = NodeTemplate(f"n{ni}", operators={tmpl: ov})
    edges = []
    for ei, (s, t, w, sv) in enumerate(case["edges"]):
        sc = case["nodes"][s][0]
        attrs = {} if w is None else {"weight": float(Fr(w))}          # w None: the edge is written WITHOUT a weight entry
        if case.get("dnone") and case["dnone"][ei]:
            attrs["delay"] = None                                       # an explicit `delay: None` = an undelayed edge (D69)
        edges.append((f"{nname(case, s)}/{opname(case, s)}/{'m' if sv else xname(case, sc)}", f"{nname(case, t)}/{opname(case, t)}/r", None, attrs))
    if case.get("hier"):                               # two sub-circuits, all edges (also those inside one) at the top level
        subs = {f"c{'ab'[h]}": CircuitTemplate(f"c{'ab'[h]}", nodes={f"n{ni}": nd for ni, nd in nodes.items() if case["hier"][ni] == h})
                for h in sorted(set(case["hier"]))}
        return CircuitTemplate("c", circuits=subs, edges=edges)
    return CircuitTemplate("c", nodes={f"n{ni}": nd for ni, nd in nodes.items()}, edges=edges)

def build_raw(case):
    from pyrates import OperatorTemplate, NodeTemplate, CircuitTemplate
    ops = [OperatorTemplate(name=o["name"], equations=o["equations"], variables=o["variables"]) for o in case["operators"]]
    nodes = {n: NodeTemplate(n, operators={ops[oi]: {k: float(Fr(v)) for k, v in ov.items()}}) for n, oi, ov in case["rnodes"]}
    edges = [(e[0], e[1], None, dict({"weight": float(Fr(e[2]))}, **({"delay": float(Fr(e[3]))} if len(e) > 3 else {}))) for e in case["redges"]]
    return CircuitTemplate("c", nodes=nodes, edges=edges)

# ---- multi-operator node types (NOT modelled in Coq: real vec vs real non-vec vs the python unit-level sum) ----------
# A node type = S operators in slots (each: state p, parameter k, input r, output p) + one M operator (state v, parameter c,
# input p = sum of the S outputs of the node).  S operators of one form are structurally identical whatever their slot
# (different operator names, same equations), so {S,S',M} and {S,M} differ only in the MULTIPLICITY of an operator hash.
S_FORMS = ["p' = k*r - p", "p' = k*r - 2.0*p*p", "p' = r - k*p"]
M_FORMS = ["v' = c*p - v", "v' = c*p*v - v + 0.5"]

def build_mo(case):
    from pyrates import OperatorTemplate, NodeTemplate, CircuitTemplate
    sops, mops = {}, {}
    def sop(form, slot):
        if (form, slot) not in sops:
            sops[(form, slot)] = OperatorTemplate(name=f"s{form}j{slot}", equations=[S_FORMS[form]],
                                                  variables={"p": "output(0.0)", "k": 1.0, "r": "input(0.0)"})
        return sops[(form, slot)]
    def mop(form):
        if form not in mops:
            mops[form] = OperatorTemplate(name=f"m{form}", equations=[M_FORMS[form]],
                                          variables={"v": "output(0.0)", "c": 1.0, "p": "input(0.0)"})
        return mops[form]
    nodes = {}
    for ni, nd in enumerate(case["nodes"]):
        ty = case["types"][nd["type"]]
        ops = {}
        for (form, slot), k in zip(ty["s"], nd["k"]):
            ops[sop(form, slot)] = {"k": float(Fr(k))}
        ops[mop(ty["m"])] = {"c": float(Fr(nd["c"]))}
        nodes[f"n{ni}"] = NodeTemplate(f"n{ni}", operators=ops)
    edges = []
    for s_, t, j, w in case["edges"]:
        mf = case["types"][case["nodes"][s_]["type"]]["m"]
        form, slot = case["types"][case["nodes"][t]["type"]]["s"][j]
        edges.append((f"n{s_}/m{mf}/v", f"n{t}/s{form}j{slot}/r", None, {} if w is None else {"weight": float(Fr(w))}))
    return CircuitTemplate("c", nodes=nodes, edges=edges)

def mo_vars(case):
    """frontend state variables in a fixed order: per node its S states then v"""
    out = []
    for ni, nd in enumerate(case["nodes"]):
        ty = case["types"][nd["type"]]
        for form, slot in ty["s"]:
            out.append((f"n{ni}", f"s{form}j{slot}", "p"))
        out.append((f"n{ni}", f"m{ty['m']}", "v"))
    return out

def py_spec_mo(case, st):
    vals = dict(zip(mo_vars(case), [Fr(v) for v in st]))
    out = []
    for ni, nd in enumerate(case["nodes"]):
        ty = case["types"][nd["type"]]
        ps = []
        for j, ((form, slot), k) in enumerate(zip(ty["s"], nd["k"])):
            p, k = vals[(f"n{ni}", f"s{form}j{slot}", "p")], Fr(k)
            inc = [(s_, w) for s_, t, jj, w in case["edges"] if t == ni and jj == j]
            r = sum(((Fr(1) if w is None else Fr(w)) * vals[(f"n{s_}", f"m{case['types'][case['nodes'][s_]['type']]['m']}", "v")]
                     for s_, w in inc), Fr(0))
            out.append([k * r - p, k * r - 2 * p * p, r - k * p][form])
            ps.append(p)
        v, c, p = vals[(f"n{ni}", f"m{ty['m']}", "v")], Fr(nd["c"]), sum(ps, Fr(0))
        out.append([c * p - v, c * p * v - v + Fr(1, 2)][ty["m"]])
    return out

MO_GUARD = "no_operator_rename_chain"

def mo_rename_chain(case):
    """two node types with the same operator structure whose structurally identical operators carry names that
    overlap at different positions: cache_func's relabelling (a->b, b->c applied repeatedly) loses an operator's values"""
    tys = case["types"]
    for i, a in enumerate(tys):
        for b in tys[i + 1:]:
            if [f for f, _ in a["s"]] == [f for f, _ in b["s"]] and a["m"] == b["m"]:
                na, nb = [sl for _, sl in a["s"]], [sl for _, sl in b["s"]]
                if any(x == y and p != q_ for p, x in enumerate(na) for q_, y in enumerate(nb)):
                    return True
    return False

def gen_mo(rng):
    return _gen_mo(rng)          # rename chains (D58, repaired) are generated like everything else

def _gen_mo(rng):
    ntypes = rng.randint(2, 3)
    types = []
    base_form = rng.randrange(len(S_FORMS))
    while len(types) < ntypes:
        r = rng.random()
        if r < 0.6:      # same S form in 1..3 slots: types that differ only in the multiplicity / the names of identical operators
            ns = rng.randint(1, 3)
            slots = rng.sample([0, 1, 2], ns)
            ty = dict(s=[[base_form, sl] for sl in sorted(slots)], m=0 if rng.random() < 0.7 else 1)
        else:
            ns = rng.randint(1, 2)
            ty = dict(s=[[rng.randrange(len(S_FORMS)), sl] for sl in range(ns)], m=rng.randrange(2))
        if ty not in types:
            types.append(ty)
    order = [ti for ti in range(ntypes) for _ in range(rng.choice([1, 2, 2, 3, 4]))]
    rng.shuffle(order)
    nodes = [dict(type=ti, k=[str(Fr(rng.randint(-8, 8), 4)) for _ in types[ti]["s"]], c=str(Fr(rng.randint(-8, 8), 4))) for ti in order]
    N = len(nodes)
    edges = []
    dens = rng.choice([0.15, 0.3, 0.6])
    for s_ in range(N):
        for t in range(N):
            for j in range(len(types[nodes[t]["type"]]["s"])):
                if rng.random() < dens:
                    edges.append([s_, t, j, None if rng.random() < 0.15 else str(Fr(rng.choice([-6, -4, -3, -2, -1, 1, 2, 3, 4]), 4))])
    rng.shuffle(edges)
    edges = edges[:50]
    case = dict(mo=True, types=types, nodes=nodes, edges=edges)
    nv = len(mo_vars(case))
    case["states"] = [[str(Fr(rng.randint(-16, 16), 8)) for _ in range(nv)] for _ in range(2)]
    return case

def mo_disagrees(case, r):
    for key in ("vec", "non"):
        o = r[key]
        if "raised" in o:
            return True
        for st, row in zip(case["states"], o["ok"]):
            if isinstance(row, dict) or [Fr(v) for v in row] != py_spec_mo(case, st):
                return True
    return False

def _raised(e, where):
    return {"raised": type(e).__name__, "where": where, "msg": str(e)[:160]}

def _vector_field(case, vec, tag, template=None, in_place=True):
    """template given: one step of a SEQUENCE of compilations on that one CircuitTemplate object (clear=True, as run() does)"""
    import numpy as np, pyr
    from copy import deepcopy
    raw = bool(case.get("raw"))
    mo = bool(case.get("mo"))
    pyr.reset_pyrates()
    try:
        c = template if template is not None else deepcopy(build_raw(case) if raw else build_mo(case) if mo else build(case))
        try:
            func, args, arg_names, state_map = c.get_run_func("vf", 1e-3, file_name=f"m{tag}", backend="default", solver="euler",
                                                              vectorize=vec, float_precision="float64", in_place=in_place,
                                                              clear=template is not None, verbose=False)
        except Exception as e:
            return _raised(e, "compile")
        if raw:
            names = [(n, ops_name, xv) for n, ops_name, xv in case["rstate_vars"]]
        elif mo:
            names = mo_vars(case)
        else:
            names = [(nname(case, ni), opname(case, ni), xname(case, ci)) for ni, (ci, k) in enumerate(case["nodes"])]
        # unit positions from the compiled template's own maps (read-only)
        pos = []
        for n, op, xv in names:
            if not in_place:                                   # the template object keeps no maps of this compilation (non-vectorized only)
                try:
                    pos.append(int(state_map[f"{n}/{op}/{xv}"]))
                except (KeyError, TypeError) as e:
                    return _raised(e, "positions")
                continue
            lo = c._vectorization_labels.get(f"{n}/{op}")          # operator relabelled when merged under another name
            key = f"{lo}/{xv}" if lo else f"{c._vectorization_labels.get(n, n)}/{op}/{xv}"
            try:
                sm = state_map[key]
                base = sm[0] if isinstance(sm, (tuple, list)) else sm
                pos.append(int(base) + int(c._vectorization_indices[f"{n}/{op}/{xv}"][0]))
            except KeyError as e:                              # a frontend state variable the compiled template lost
                return _raised(e, "positions")
        if sorted(pos) != list(range(len(pos))):
            return {"raised": "PositionClash", "where": "positions", "msg": str(pos)}
        outs, args = [], list(args)
        for st in case["states"]:
            y = np.zeros(len(pos), dtype=np.float64)
            for ni, v in enumerate(st):
                y[pos[ni]] = float(Fr(v))
            args[1] = y
            args[2] = np.zeros(len(pos), dtype=np.float64)
            try:
                dy = np.asarray(func(*args), dtype=np.float64)
            except Exception as e:
                outs.append(_raised(e, "call"))
                continue
            outs.append([pyr.frac(dy[pos[ni]]) for ni in range(len(pos))])
        return {"ok": outs, "pos": pos}
    finally:
        pyr.reset_pyrates()

def _trajectory(case, vec, tag):
    import numpy as np, pyr
    tr = case["traj"]
    h, steps = Fr(tr["h"]), int(tr["steps"])
    pyr.reset_pyrates()
    try:
        c = build(case, x0=case["states"][0])
        outs = {f"n{ni}": f"{nname(case, ni)}/{opname(case, ni)}/{xname(case, ci)}" for ni, (ci, k) in enumerate(case["nodes"])}
        try:
            res = c.run(simulation_time=float(h * (steps + 1)), step_size=float(h), solver="euler", outputs=outs, vectorize=vec,
                        backend="default", float_precision="float64", verbose=False, clear=True, file_name=f"r{tag}")
        except Exception as e:
            return _raised(e, "run")
        rows = []
        for i in range(1, steps + 1):
            rows.append([pyr.frac(res[f"n{ni}"].iloc[i]) for ni in range(len(case["nodes"]))])
        first = [pyr.frac(res[f"n{ni}"].iloc[0]) for ni in range(len(case["nodes"]))]
        return {"ok": rows, "first": first, "nrows": int(res.shape[0])}
    finally:
        pyr.reset_pyrates()

def _raw_trajectory(case, vec, tag):
    """raw circuits with delays: Euler trajectory through run(); compared vec vs non-vec only (not model-tied)"""
    import pyr
    tr = case["rtraj"]
    pyr.reset_pyrates()
    try:
        c = build_raw(case)
        try:
            res = c.run(simulation_time=float(Fr(tr["T"])), step_size=float(Fr(tr["h"])), solver="euler", outputs=dict(tr["outputs"]),
                        vectorize=vec, backend="default", float_precision="float64", verbose=False, clear=True, file_name=f"q{tag}")
        except Exception as e:
            return _raised(e, "run")
        return {"ok": [[pyr.frac(res[k].iloc[i]) for k in sorted(tr["outputs"])] for i in range(int(res.shape[0]))]}
    finally:
        pyr.reset_pyrates()

def _sequence(case):
    """compile ONE template object several times (vectorize / in_place per step); every step is a vector field"""
    import pyr
    pyr.reset_pyrates()
    c = build(case)
    steps = []
    for k, (vec, ip) in enumerate(case["seq"]):
        steps.append(_vector_field(case, bool(vec), f"s{k}", template=c, in_place=bool(ip)))
    out = {"steps": steps}
    for key, flag in (("vec", 1), ("non", 0)):               # the last step of each mode goes through the model comparison
        idx = [k for k, (vec, ip) in enumerate(case["seq"]) if int(vec) == flag]
        out[key] = steps[idx[-1]]
    return out

def impl(case):
    if case.get("seq"):
        return _sequence(case)
    if case.get("rtraj"):
        return {"vec": _raw_trajectory(case, True, "v"), "non": _raw_trajectory(case, False, "n")}
    out = {"vec": _vector_field(case, True, "v"), "non": _vector_field(case, False, "n")}
    if case.get("traj"):
        out["tvec"] = _trajectory(case, True, "tv")
        out["tnon"] = _trajectory(case, False, "tn")
    return out

# ---------------------------------------------------------------------------------------------- python reference (shrinking only)
def _peval(p, vals):
    tot = Fr(0)
    for m in p:
        t = Fr(m[0])
        for e, v in zip(m[1:], vals):
            t *= v ** e
        tot += t
    return tot

def py_spec(case, st):
    x = [Fr(v) for v in st]
    kk = [Fr(k) for _, k in case["nodes"]]
    def srcval(n, sv):
        cl = case["classes"][case["nodes"][n][0]]
        return _peval(cl["g"], [x[n], kk[n]]) if sv and cl["g"] is not None else x[n]
    out = []
    for u in range(len(x)):
        cl = case["classes"][case["nodes"][u][0]]
        inc = [(s, w, sv) for s, t, w, sv in case["edges"] if t == u]
        r = sum(((Fr(1) if w is None else Fr(w)) * srcval(s, sv) for s, w, sv in inc), Fr(0)) if inc else Fr(cl["rdef"])
        out.append(_peval(cl["f"], [x[u], kk[u], r]))
    return out

def seq_disagrees(case, r):
    """some step of a compile sequence on one template object differs from the unit-level sum"""
    for o in r.get("steps", []):
        if "raised" in o:
            if not py_guards(case):
                return True
            continue
        for st, row in zip(case["states"], o["ok"]):
            if isinstance(row, dict) or [Fr(v) for v in row] != py_spec(case, st):
                return True
    return False

def py_disagrees(case, r):
    """real vec / non-vec vector fields differ from each other or from the unit-level sum (python arithmetic on Fractions)"""
    for key in ("vec", "non"):
        o = r[key]
        if "raised" in o:
            return True
        for st, row in zip(case["states"], o["ok"]):
            if isinstance(row, dict) or [Fr(v) for v in row] != py_spec(case, st):
                return True
    return False

def _const_rhs(p):
    acc = {}
    for m in p:
        acc[tuple(m[1:])] = acc.get(tuple(m[1:]), 0) + Fr(m[0])
    return all(v == 0 for e, v in acc.items() if any(e))

def py_guards(case):
    """python mirror of the Coq guards (used by the shrinker only, so that shrinking does not drift into another class)"""
    nodes, edges, classes = case["nodes"], case["edges"], case["classes"]
    cls = lambda n: nodes[n][0]
    cnt = {}
    for ci, _ in nodes:
        cnt[ci] = cnt.get(ci, 0) + 1
    bad = set()
    bad |= set(decl_guards(case))
    sw = switches()
    if not sw["D21"] and any(cnt[ci] >= 2 and _const_rhs(classes[ci]["f"]) for ci in cnt):
        bad.add("no_constant_rhs")
    pairs = {}
    for s_, t, w, sv in edges:
        pairs.setdefault((cls(s_), cls(t), sv), []).append(t)
    for (sc, tc, _sv), ts in pairs.items():
        if not sw["D32"] and cnt[sc] == 1 and len(ts) >= 10 and len(set(ts)) == len(ts):
            bad.add("no_scalar_fanout")
    return bad

# ---------------------------------------------------------------------------------------------- generator
def _q(rng, nums, dens):
    return str(Fr(rng.choice(nums), rng.choice(dens)))

def gen_poly(rng, nv, maxdeg, need=None, linear=False):
    mons = set()
    for _ in range(rng.randint(1, 4)):
        ex = [0] * nv
        for _ in range(rng.randint(0, 1 if linear else maxdeg)):
            ex[rng.randrange(nv)] += 1
        mons.add(tuple(ex))
    if need is not None:
        ex = [0] * nv; ex[need] = 1
        if not linear and rng.random() < 0.5:
            ex[rng.randrange(nv)] += 1
        mons.add(tuple(ex))
    mons = sorted(mons)
    rng.shuffle(mons)
    if linear:
        return [[_q(rng, [-2, -1, 1, 2], [1, 2])] + list(e) for e in mons]
    return [[_q(rng, [-4, -3, -2, -1, 1, 2, 3, 4, 6], [1, 2, 4])] + list(e) for e in mons]

def gen_f(rng, linear=False, allow_const=True):
    r = rng.random()
    if r < 0.93 or linear or not allow_const:
        return gen_poly(rng, 3, 3, need=2, linear=linear)
    if r < 0.96:                                   # literal constant right-hand side (D21 when the class has > 1 nodes)
        return [[_q(rng, list(range(-8, 9)), [4]), 0, 0, 0]]
    c = _q(rng, list(range(1, 9)), [4])           # cancels to a constant once like terms are collected (D21)
    v = [0, 0, 0]; v[rng.randrange(3)] = 1
    p = [[_q(rng, list(range(-8, 9)), [4]), 0, 0, 0], [c] + v, ["-" + c] + v]
    rng.shuffle(p)
    return p

# repairs that have LANDED in /repo (stage 2): the generator no longer stays inside the guards they made unnecessary
#   EDGEKEYS = D103 (ce0598c, edges of one group may carry different attribute keys)
#   ARR1     = D106 (9c22af0, list-valued defaults are copied)
#   D97      = ce404fc (an int-declared constant that receives a non-integral value becomes float)
LANDED = {"EDGEKEYS", "ARR1", "D97"}

def fixed_env():
    """landed repairs + repairs being tried on a scratch worktree (VERIF_C04_FIXED=...)"""
    return LANDED | {k.strip() for k in os.environ.get("VERIF_C04_FIXED", "").split(",") if k.strip()}

def groups_of(case):
    """vectorized edge groups (source class, source variable, target class) -> edge indices in edge-list order"""
    g = {}
    for ei, (s_, t, w, sv) in enumerate(case["edges"]):
        g.setdefault((case["nodes"][s_][0], sv, case["nodes"][t][0]), []).append(ei)
    return g

def app_order(case):
    """order in which the nodes are applied (get_nodes(['all'])): sub-circuit ca before cb when there is a hierarchy"""
    idx = list(range(len(case["nodes"])))
    return sorted(idx, key=lambda ni: (case["hier"][ni], ni)) if case.get("hier") else idx

ARR1_GUARD = "array_declared_not_first"       # finding: aliasing of list-valued defaults in VectorizedOperatorGraph
KEYS_GUARD = "uniform_edge_keys"             # finding: _group_edges KeyError on an attribute the first edge of a group lacks

def decl_guards(case):
    """python-side guards of the two declaration/attribute findings (attribution only; both are outside the Coq model's data)"""
    bad, fixed = [], fixed_env()
    if case.get("arr1") and "ARR1" not in fixed:
        first = {}
        for ni in app_order(case):
            first.setdefault(case["nodes"][ni][0], ni)
        if any(case["arr1"][ni] for ni in first.values()):
            bad.append(ARR1_GUARD)
    if case.get("dnone") and "EDGEKEYS" not in fixed:
        for idxs in groups_of(case).values():
            if not case["dnone"][idxs[0]] and any(case["dnone"][ei] for ei in idxs[1:]):
                bad.append(KEYS_GUARD); break
    return bad

def decorate(rng, case):
    """declaration variants (they change how variables are DECLARED, not the equations): classes that differ only in a
    declaration (k int vs float, x `variable` vs `output`) must NOT be merged; nodes whose template writes the variables as
    length-1 arrays have the same hash and ARE merged; edges that spell out `delay: None`."""
    classes, nodes, edges = case["classes"], case["nodes"], case["edges"]
    fixed = fixed_env()
    r = rng.random()
    if r < 0.3 and len(classes) >= 2:            # two classes with the SAME equations, different declaration
        a, b = rng.sample(range(len(classes)), 2)
        classes[b]["f"], classes[b]["g"] = json.loads(json.dumps(classes[a]["f"])), json.loads(json.dumps(classes[a]["g"]))
        if classes[b]["g"] is None:
            for e in edges:
                if nodes[e[0]][0] == b:
                    e[3] = 0
        classes[rng.choice([a, b])]["decl"] = rng.choice(["kint", "kint", "xvar"])
    elif r < 0.45:
        classes[rng.randrange(len(classes))]["decl"] = rng.choice(["kint", "xvar"])
    for ci, cl in enumerate(classes):
        if cl.get("decl") == "kint":              # integers, and (since D97 landed) non-integral overrides of the int-declared constant
            for n in nodes:
                if n[0] == ci:
                    n[1] = str(rng.randint(-3, 3)) if "D97" not in fixed or rng.random() < 0.5 else str(Fr(rng.randint(-12, 12), 4))
    for i, a in enumerate(classes):               # classes must stay pairwise different in (equations, declaration)
        for b in classes[i + 1:]:
            if (a["f"], a["g"], a.get("decl", "float")) == (b["f"], b["g"], b.get("decl", "float")):
                b["decl"] = "xvar" if a.get("decl", "float") != "xvar" else "kint"
                if b["decl"] == "kint" and "D97" not in fixed:
                    for n in nodes:
                        if classes[n[0]] is b:
                            n[1] = str(rng.randint(-3, 3))
    if len(nodes) >= 2 and rng.random() < 0.2:   # the nodes live in two sub-circuits (hierarchy depth 2), edges at the top level
        case["hier"] = [rng.randint(0, 1) for _ in nodes]
    if rng.random() < 0.3:
        seen, flags = set(), [0] * len(nodes)
        for ni in app_order(case):                 # never the first node of its class in APPLICATION order (finding ARR1)
            ci = nodes[ni][0]
            flags[ni] = 1 if (ci in seen or "ARR1" in fixed) and rng.random() < 0.4 else 0
            seen.add(ci)
        if any(flags):
            case["arr1"] = flags
    if edges and rng.random() < 0.3:
        flags = [1] * len(edges) if rng.random() < 0.4 else [1 if rng.random() < 0.4 else 0 for _ in edges]
        if "EDGEKEYS" not in fixed:
            for idxs in groups_of(case).values():
                if any(flags[ei] for ei in idxs):
                    flags[idxs[0]] = 1
        if any(flags):
            case["dnone"] = flags

def gen_case(rng, kind="mixed"):
    """kinds: mixed (random density), sparse (>= 10 edges with distinct targets from one class: indexed branch),
    fanout (one unit of a singleton class to many units: D32 boundary 9/10), clean (inside every guard), traj (linear, Euler)."""
    linear = kind == "traj"
    clean = kind in ("clean", "traj")
    base_kind = kind
    if kind == "seq":
        kind = "clean"
    ncl = rng.randint(1, 3) if kind not in ("sparse", "fanout", "perm") else rng.randint(2, 3)
    if kind == "ring":
        ncl = rng.randint(1, 2)
    classes = []
    while len(classes) < ncl:
        cl = dict(f=gen_f(rng, linear, allow_const=not clean and kind != "perm"),
                  g=gen_poly(rng, 2, 2, need=0, linear=linear) if rng.random() < 0.3 else None,
                  rdef="0" if (clean and rng.random() < 0.7) else _q(rng, [0, 0, 1, 7, -3, 5], [1, 2]))
        if all((c["f"], c["g"]) != (cl["f"], cl["g"]) for c in classes):
            classes.append(cl)
    if kind == "sparse":
        sizes = [rng.choice([10, 11, 12])] + [rng.choice([2, 3, 4]) for _ in range(ncl - 1)]
    elif kind == "perm":
        n0 = rng.choice([10, 11, 12])
        sizes = [n0, n0] + [rng.choice([1, 2]) for _ in range(ncl - 2)]
    elif kind == "ring":
        sizes = [rng.randint(14, 24)] + [rng.choice([1, 2, 3]) for _ in range(ncl - 1)]
    elif kind == "fanout":
        sizes = [rng.choice([9, 10, 11, 12]), 1] + [rng.choice([1, 2, 3]) for _ in range(ncl - 2)]
    elif kind == "traj":
        sizes = [rng.choice([1, 2, 3, 4]) for _ in range(ncl)]
    else:
        sizes = [rng.choice([1, 1, 2, 3, 4, 5, 8]) for _ in range(ncl)]
    order = [ci for ci, s in enumerate(sizes) for _ in range(s)]
    rng.shuffle(order)
    kden = 2 if linear else 8
    nodes = [[ci, str(Fr(rng.randint(-2 * kden, 2 * kden), kden))] for ci in order]
    if rng.random() < 0.25:                        # equal parameters: the constant vector collapses to a scalar
        for n in nodes:
            n[1] = "1/2"
    N = len(nodes)
    of = lambda ci: [n for n in range(N) if nodes[n][0] == ci]
    wq = lambda: (_q(rng, [-3, -2, -1, 1, 2, 3], [2]) if linear else _q(rng, [-6, -4, -3, -2, -1, 1, 2, 3, 4, 8], [4]))
    edges = []
    if kind == "sparse":                           # class 1 -> class 0: every target at most once, >= 10 edges
        tg = of(0); rng.shuffle(tg)
        for t in tg[:rng.randint(10, len(tg))]:
            edges.append([rng.choice(of(1)), t, "1" if rng.random() < 0.2 else wq()])
        if rng.random() < 0.5 and ncl > 2:
            for t in rng.sample(of(0), 3):
                edges.append([rng.choice(of(2)), t, wq()])
    elif kind == "perm":
        # one-to-one edges covering ALL units of the target vector (and all units of the source vector), >= 10 of them:
        # indexed branch with index lists that are permutations of 0..n-1.  Shapes: ends fixed (first 0, last n-1) with
        # the middle permuted; only the last fixed; identity; arbitrary.  Unit number = arrival order within the class.
        n0 = sizes[0]
        def perm():
            r = rng.random()
            mid = list(range(1, n0 - 1)); rng.shuffle(mid)
            if r < 0.4:
                return [0] + mid + [n0 - 1]
            if r < 0.7:
                p = list(range(n0 - 1)); rng.shuffle(p)
                return p + [n0 - 1]
            if r < 0.8:
                return list(range(n0))
            p = list(range(n0)); rng.shuffle(p)
            return p
        sc = rng.choice([0, 1, 1])                 # source class: the target class itself or the other big class
        tp, sp = perm(), perm()
        if rng.random() < 0.3:                     # sorted source indices of full length with repeated entries ([0,0,1,...])
            sp = sorted(rng.randrange(n0) for _ in range(n0))
        for k_ in range(n0):
            edges.append([of(sc)[sp[k_]], of(0)[tp[k_]], "1" if rng.random() < 0.15 else wq()])
    elif kind == "ring":
        # large sparse vector with FAN-IN: every target index repeated, fill = E / (distinct targets x distinct sources)
        # on both sides of matrix_sparseness = 0.1 (bidirectional ring of >= 20 nodes: fill = 2/n <= 0.1)
        ring = of(0); n0 = len(ring)
        r = rng.random()
        if r < 0.4:
            for a in range(n0):
                edges.append([ring[a], ring[(a + 1) % n0], wq()]); edges.append([ring[(a + 1) % n0], ring[a], wq()])
        else:
            want = rng.randint(n0 + 1, max(n0 + 2, int(0.13 * n0 * n0)))
            for t in ring:                         # every unit is a target at least once ...
                edges.append([rng.choice(ring), t, wq()])
            while len(edges) < want:               # ... and some of them several times
                edges.append([rng.choice(ring), rng.choice(ring), wq()])
    elif kind == "fanout":
        tg = of(0); rng.shuffle(tg)
        for t in tg[:rng.choice([9, 9, 10, 11, 12])]:
            edges.append([of(1)[0], t, wq()])
        if rng.random() < 0.3:
            edges.append([of(1)[0], tg[0], wq()])   # a repeated target: dot branch again
    dens = rng.choice([0.0, 0.05] if kind in ("sparse", "fanout", "perm") else [0.0] if kind == "ring" else [0.05, 0.15, 0.3, 0.6, 1.0])
    for s in range(N):
        for t in range(N):
            if kind in ("sparse", "fanout") and nodes[t][0] == 0 and nodes[s][0] == 1:
                continue
            if kind == "perm" and nodes[t][0] == 0 and nodes[s][0] in (0, 1):
                continue
            if rng.random() < dens:
                edges.append([s, t, wq()])
    if kind == "ring" and ncl > 1:                 # a little input from the small class as well
        for _ in range(rng.randint(0, 3)):
            edges.append([rng.choice(of(1)), rng.choice(of(0)), wq()])
    if rng.random() < 0.4 and edges and kind not in ("sparse", "perm", "ring"):
        for _ in range(rng.randint(1, 3)):        # parallel edges
            e = rng.choice(edges)
            edges.append([e[0], e[1], wq()])
    if kind != "perm":
        rng.shuffle(edges)
    edges = edges[:60] if kind != "ring" else edges[:90]
    if rng.random() < 0.35:                        # edges written without a 'weight' entry (default 1), mixed with weighted ones
        for e in edges:
            if rng.random() < 0.35:
                e[2] = None
    svmode = rng.random()
    use_m = {ci: rng.random() < 0.7 for ci in range(ncl)}
    for e in edges:
        ci = nodes[e[0]][0]
        has_m = classes[ci]["g"] is not None
        if clean or svmode < 0.75:
            e.append(1 if has_m and use_m[ci] else 0)             # one source variable per class
        else:
            e.append(1 if has_m and rng.random() < 0.5 else 0)    # mixed: D3 when one pair of classes sees both
    if clean:                                      # D14: give every unit an incoming edge or the default 0
        for u in range(N):
            if not any(e[1] == u for e in edges) and Fr(classes[nodes[u][0]]["rdef"]) != 0:
                s = rng.randrange(N)
                ci = nodes[s][0]
                edges.append([s, u, wq(), 1 if classes[ci]["g"] is not None and use_m[ci] else 0])
    sden = 2 if linear else 8
    states = [[str(Fr(rng.randint(-2 * sden, 2 * sden), sden)) for _ in range(N)] for _ in range(1 if linear else 2)]
    case = dict(classes=classes, nodes=nodes, edges=edges, states=states)
    if kind == "traj":
        case["traj"] = dict(h="1/4", steps=4)
        case["dn"] = True
    decorate(rng, case)
    if base_kind == "seq":
        # a sequence of compilations of ONE template object, both orders, 2-3 steps; in_place=False only for a non-vectorized
        # step (its unit positions are read from the returned state map; a vectorized step needs the template's own maps)
        first = rng.random() < 0.6
        order = [first, not first] + ([first] if rng.random() < 0.3 else [])
        case["seq"] = [[int(v), 1 if (v or k_ == 0 or rng.random() < 0.6) else 0] for k_, v in enumerate(order)]
    return case

def nontrivial(case):
    """some class has >= 2 units and receives >= 1 edge"""
    if case.get("raw"):
        return True
    if case.get("mo"):
        cnt = {}
        for nd in case["nodes"]:
            cnt[nd["type"]] = cnt.get(nd["type"], 0) + 1
        return any(cnt[case["nodes"][e[1]]["type"]] >= 2 for e in case["edges"])
    cnt = {}
    for ci, _ in case["nodes"]:
        cnt[ci] = cnt.get(ci, 0) + 1
    return any(cnt[case["nodes"][e[1]][0]] >= 2 for e in case["edges"])

# ---------------------------------------------------------------------------------------------- model side
HEADER = """From Coq Require Import List ZArith QArith Qcanon Bool.
From PV Require Import Vectorize Corr.
Import ListNotations.
Definition obs := list (option (list Qc)).
Definition vcase := (circuit * list (list Qc) * obs * obs)%type.
Fixpoint all2 {A B} (f : A -> B -> bool) (a : list A) (b : list B) : bool :=
  match a, b with [], [] => true | x :: a', y :: b' => f x y && all2 f a' b' | _, _ => false end.
Definition f32 : bool := @F32@.
Definition f21 : bool := @F21@.
Definition implX := impl_gen input_of true f32 f21.       (* = Vectorize.impl unless a repair is being tried (VERIF_C04_FIXED) *)
Definition no_constant_rhsX (c : circuit) := f21 || no_constant_rhs c.
Definition no_scalar_fanoutX (c : circuit) := f32 || no_scalar_fanout c.
Fixpoint euler_implX (vec : bool) (c : circuit) (h : Qc) (st : list Qc) (n : nat) : option (list (list Qc)) :=
  match n with
  | O => Some []
  | S n' => match implX vec c st with
            | None => None
            | Some d => let st' := euler_step h st d in
                        match euler_implX vec c h st' n' with Some r => Some (st' :: r) | None => None end
            end
  end.
Definition okI (p : vcase) := let '(c, sts, ov, on) := p in
  all2 (fun st o => oq_eqb (implX true c st) o) sts ov && all2 (fun st o => oq_eqb (implX false c st) o) sts on.
Definition okS (p : vcase) := let '(c, sts, ov, on) := p in
  all2 (fun st o => oq_eqb (Some (spec c st)) o) sts ov && all2 (fun st o => oq_eqb (Some (spec c st)) o) sts on.
Definition cof (p : vcase) : circuit := fst (fst (fst p)).
Definition tcase := (circuit * list Qc * Qc * nat * option (list (list Qc)) * option (list (list Qc)))%type.
Definition tokI (p : tcase) := let '(c, st, h, n, ov, on) := p in
  oqq_eqb (euler_implX true c h st n) ov && oqq_eqb (euler_implX false c h st n) on.
Definition tokS (p : tcase) := let '(c, st, h, n, ov, on) := p in
  oqq_eqb (Some (euler_spec c h st n)) ov && oqq_eqb (Some (euler_spec c h st n)) on.
"""

def header():
    sw = switches()
    return HEADER.replace("@F32@", "true" if sw["D32"] else "fixed_D32").replace("@F21@", "true" if sw["D21"] else "fixed_D21")

def coq_poly(p, nv):
    return clist([f"Mono {cq(m[0])} {m[1]} {m[2]} {m[3] if nv == 3 else 0}" for m in p])

def coq_circuit(case):
    cls = [f"Cls {coq_poly(c['f'], 3)} {'None' if c['g'] is None else '(Some ' + coq_poly(c['g'], 2) + ')'} {cq(c['rdef'])}"
           for c in case["classes"]]
    nodes = [f"Node {ci} {cq(k)}" for ci, k in case["nodes"]]
    edges = [f"Edge {s} {t} {copt(w, cq)} {cbool(sv)}" for s, t, w, sv in case["edges"]]
    return f"(Circ {clist(cls)} {clist(nodes)} {clist(edges)})"

def coq_row(v):
    return clist([cq(x) for x in v])

def coq_obs(o, nstates):
    if "raised" in o:
        return clist(["None"] * nstates)
    return clist(["None" if isinstance(r, dict) else f"(Some {coq_row(r)})" for r in o["ok"]])

def coq_vcase(case, r):
    sts = clist([coq_row(s) for s in case["states"]])
    n = len(case["states"])
    return f"({coq_circuit(case)}, {sts}, {coq_obs(r['vec'], n)}, {coq_obs(r['non'], n)})"

def coq_tobs(o):
    return "None" if "raised" in o else "(Some " + clist([coq_row(r) for r in o["ok"]]) + ")"

def coq_tcase(case, r):
    return (f"({coq_circuit(case)}, {coq_row(case['states'][0])}, {cq(case['traj']['h'])}, {cnat(case['traj']['steps'])}, "
            f"{coq_tobs(r['tvec'])}, {coq_tobs(r['tnon'])})")

# ---- multi-operator node types: Vectorize.mimpl / mspec
S_POLY = [[["1", 0, 1, 1], ["-1", 1, 0, 0]], [["1", 0, 1, 1], ["-2", 2, 0, 0]], [["1", 0, 0, 1], ["-1", 1, 1, 0]]]
M_POLY = [[["1", 0, 1, 1], ["-1", 1, 0, 0]], [["1", 1, 1, 1], ["-1", 1, 0, 0], ["1/2", 0, 0, 0]]]

def coq_mcircuit(case):
    """a class = its S operators (in slot order) followed by the M operator, which is fed by all of them; operator names:
    s<form>j<slot> -> 10*form + slot, m<form> -> 100 + form (names are not part of the structure)"""
    cls = []
    for ty in case["types"]:
        ops = [f"Opr {coq_poly(S_POLY[f], 3)} None {cq(0)} [] 0" for f, _ in ty["s"]]
        ops.append(f"Opr {coq_poly(M_POLY[ty['m']], 3)} None {cq(0)} {clist([cnat(i) for i in range(len(ty['s']))])} 0")
        cls.append(clist(ops))
    nodes = []
    for nd in case["nodes"]:
        ty = case["types"][nd["type"]]
        names = [cnat(10 * f + sl) for f, sl in ty["s"]] + [cnat(100 + ty["m"])]
        nodes.append(f"MNode {nd['type']} {clist(names)} {clist([cq(k) for k in nd['k']] + [cq(nd['c'])])}")
    edges = []
    for s_, t, j, w in case["edges"]:
        ns = len(case["types"][case["nodes"][s_]["type"]]["s"])
        edges.append(f"MEdge {s_} {ns} false {t} {j} {copt(w, cq)}")
    return f"(MCirc {clist(cls)} {clist(nodes)} {clist(edges)})"

MO_HEADER = """
Definition mcase := (mcircuit * list (list Qc) * obs * obs)%type.
Definition mokI (p : mcase) := let '(c, sts, ov, on) := p in
  all2 (fun st o => oq_eqb (Some (mimpl true c st)) o) sts ov && all2 (fun st o => oq_eqb (Some (mimpl false c st)) o) sts on.
Definition mokS (p : mcase) := let '(c, sts, ov, on) := p in
  all2 (fun st o => oq_eqb (Some (mspec c st)) o) sts ov && all2 (fun st o => oq_eqb (Some (mspec c st)) o) sts on.
Definition mcof (p : mcase) : mcircuit := fst (fst (fst p)).
"""

def model_compare_mo(ctx, cases, outs, tag):
    """multi-operator circuits against Vectorize.mimpl / mspec -> badI, badS, ill-formed (indices into cases)"""
    badI, badS, wff = [], [], []
    shard = 40
    for s in range(0, len(cases), shard):
        terms = []
        for c, o in zip(cases[s:s + shard], outs[s:s + shard]):
            n = len(c["states"])
            terms.append(f"({coq_mcircuit(c)}, {clist([coq_row(x) for x in c['states']])}, {coq_obs(o['vec'], n)}, {coq_obs(o['non'], n)})")
        body = ("Definition mcases : list mcase := " + clist(terms) + ".\n"
                "Eval vm_compute in (mismatches mokI mcases).\nEval vm_compute in (mismatches mokS mcases).\n"
                "Eval vm_compute in (mismatches (fun p => mwf (mcof p)) mcases).\n")
        ls = parse_nat_lists(coq_eval(ctx, f"c04_mo_{tag}_{s}", header() + MO_HEADER, body))
        assert len(ls) == 3, ls
        badI += [s + i for i in ls[0]]; badS += [s + i for i in ls[1]]; wff += [s + i for i in ls[2]]
    return badI, badS, wff

def model_compare(ctx, cases, outs, tag):
    """-> badI, badS (indices into cases), guard_viol {index: [guard names]}, wf_false [indices]"""
    badI, badS, gv, wff = set(), set(), {}, []
    shard = 40
    for s in range(0, len(cases), shard):
        cs, os_ = cases[s:s + shard], outs[s:s + shard]
        body = "Definition cases : list vcase := " + clist([coq_vcase(c, o) for c, o in zip(cs, os_)]) + ".\n"
        body += "Eval vm_compute in (mismatches okI cases).\nEval vm_compute in (mismatches okS cases).\n"
        body += "Eval vm_compute in (mismatches (fun p => wf (cof p)) cases).\n"
        for g in GUARDS:
            body += f"Eval vm_compute in (mismatches (fun p => {g}X (cof p)) cases).\n"
        tidx = [i for i, c in enumerate(cs) if c.get("traj")]
        if tidx:
            body += "Definition tcases : list tcase := " + clist([coq_tcase(cs[i], os_[i]) for i in tidx]) + ".\n"
            body += "Eval vm_compute in (mismatches tokI tcases).\nEval vm_compute in (mismatches tokS tcases).\n"
        ls = parse_nat_lists(coq_eval(ctx, f"c04_{tag}_{s}", header(), body))
        assert len(ls) == 3 + len(GUARDS) + (2 if tidx else 0), ls
        badI |= {s + i for i in ls[0]}; badS |= {s + i for i in ls[1]}
        wff += [s + i for i in ls[2]]
        for g, l in zip(GUARDS, ls[3:3 + len(GUARDS)]):
            for i in l:
                gv.setdefault(s + i, []).append(g)
        if tidx:
            badI |= {s + tidx[i] for i in ls[-2]}; badS |= {s + tidx[i] for i in ls[-1]}
    return sorted(badI), sorted(badS), gv, wff

def model_outputs(ctx, case, r, tag):
    body = (f"Definition c := {coq_circuit(case)}.\nDefinition st := {coq_row(case['states'][0])}.\n"
            "Eval vm_compute in (spec c st).\nEval vm_compute in (implX true c st).\nEval vm_compute in (implX false c st).\n"
            "Eval vm_compute in (no_constant_rhsX c, no_scalar_fanoutX c).\n")
    try:
        return coq_eval(ctx, f"c04_show_{tag}", header(), body)[:6000]
    except Exception as e:
        return f"(model evaluation failed: {e})"

# ---------------------------------------------------------------------------------------------- shrinking
def shrink(ctx, case):
    if case.get("raw"):
        return case
    mo = bool(case.get("mo"))
    best = dict(case, states=case["states"][:1])
    best.pop("traj", None)
    budget = [24]
    allowed = set() if mo else py_guards(case)
    def fails(c):
        if not mo and not py_guards(c) <= allowed:          # do not drift into the class of another (known) finding
            return False
        budget[0] -= 1
        r = run_impl(ctx, "c04", "impl", [c], nworkers=1)[0]
        return "err" in r or (mo_disagrees(c, r) if mo else (py_disagrees(c, r) or seq_disagrees(c, r)))
    if not fails(best):
        return case
    chunk = max(1, len(best["edges"]) // 2)
    while chunk >= 1 and budget[0] > 0:
        i, progressed = 0, False
        while i < len(best["edges"]) and budget[0] > 0:
            cand = dict(best, edges=best["edges"][:i] + best["edges"][i + chunk:])
            if fails(cand):
                best, progressed = cand, True
            else:
                i += chunk
        if not progressed:
            chunk //= 2
    return best

# ---------------------------------------------------------------------------------------------- check
def _mixed_group(c):
    """some (source class, target class, source variable) group has a weightless edge after a weighted one, or the reverse"""
    seen = {}
    for s_, t, w, sv in c["edges"]:
        key = (c["nodes"][s_][0], c["nodes"][t][0], sv)
        seen.setdefault(key, set()).add(w is None)
    return any(len(v) == 2 for v in seen.values())

def _sparse_fanin(c):
    """a (source class, target class, variable) group with a repeated target and fill = E/(distinct targets x distinct sources) <= 0.1"""
    g = {}
    for s_, t, w, sv in c["edges"]:
        g.setdefault((c["nodes"][s_][0], c["nodes"][t][0], sv), []).append((s_, t))
    for l in g.values():
        ts, ss = {t for _, t in l}, {s_ for s_, _ in l}
        if len(ts) < len(l) and 10 * len(l) <= len(ts) * len(ss):
            return True
    return False

def _same_eq_diff_decl(c):
    cl = c.get("classes", [])
    return any((a["f"], a["g"]) == (b["f"], b["g"]) for i, a in enumerate(cl) for b in cl[i + 1:])

def _mixed_sv(c):
    """one (source class, target class) pair is fed through both source variables (the D3 class, repaired by D59)"""
    seen = {}
    for s_, t, w, sv in c["edges"]:
        seen.setdefault((c["nodes"][s_][0], c["nodes"][t][0]), set()).add(sv)
    return any(len(v) == 2 for v in seen.values())

def _mult_only(c):
    """two node types whose operator sets have the same structural hashes and differ only in multiplicity"""
    sig = [(frozenset(f for f, _ in ty["s"]), ty["m"], len(ty["s"])) for ty in c["types"]]
    return any(a[:2] == b[:2] and a[2] != b[2] for i, a in enumerate(sig) for b in sig[i + 1:])

def raw_differs(r):
    v, n = r["vec"], r["non"]
    return ("raised" in v) != ("raised" in n) or ("ok" in v and v["ok"] != n["ok"])

def check(ctx):
    pr = proof_gate(ctx, NEEDS)
    problem = proof_problem(pr)
    plan = dict(mixed=80, clean=30, sparse=14, perm=26, ring=12, fanout=8, traj=12, multiop=34, seq=24) if ctx.tier == "quick" else \
           dict(mixed=1400, clean=500, sparse=250, perm=300, ring=200, fanout=150, traj=200, multiop=500, seq=300)
    corpus_files = []
    if ctx.replay:
        rp = json.load(open(ctx.replay))
        cases = [rp["case"]] if "case" in rp else []
    else:
        cdir = os.path.join(VERIF, "corpus", "C04")
        corpus_files = sorted(f for f in os.listdir(cdir) if f.endswith(".json")) if os.path.isdir(cdir) else []
        cases = [json.load(open(os.path.join(cdir, f))) for f in corpus_files]
        for kind, n in plan.items():
            cases += [gen_mo(ctx.rng) if kind == "multiop" else gen_case(ctx.rng, kind) for _ in range(n * (3 if problem else 1))]
    outs = run_impl(ctx, "c04", "impl", cases, per_case_timeout=120)
    crashed = [i for i, r in enumerate(outs) if "err" in r]
    rawi = [i for i in range(len(cases)) if cases[i].get("raw") and i not in crashed]
    moi = [i for i in range(len(cases)) if cases[i].get("mo") and i not in crashed]
    good = [i for i in range(len(cases)) if i not in crashed and i not in rawi and i not in moi]
    badI, badS, gv, wff = model_compare(ctx, [cases[i] for i in good], [outs[i] for i in good], "main")
    badI = [good[i] for i in badI]; badS = [good[i] for i in badS]
    guard_viol = {good[i]: g for i, g in gv.items()}
    for i in good:                                  # findings about declarations / edge attribute keys (outside the Coq model's data)
        extra = decl_guards(cases[i])
        if extra:
            guard_viol[i] = guard_viol.get(i, []) + extra
    assert not wff, f"generator produced ill-formed circuits: {[good[i] for i in wff][:5]}"
    # the property itself, on the real outputs alone (python, exact): vec == non-vec
    vec_ne_non = [i for i in good if raw_differs(outs[i])]
    for i in vec_ne_non:
        if i not in badS:
            badS.append(i)                          # cannot happen when the Coq comparison is right; never silently dropped
    seq_bad = [i for i in good if cases[i].get("seq") and seq_disagrees(cases[i], outs[i])]
    for i in seq_bad:
        if i not in badS:
            badS.append(i)
    mo_bad = [i for i in moi if mo_disagrees(cases[i], outs[i])]     # multi-operator node types: real vec vs real non-vec vs python sum
    mbI, mbS, mwff = model_compare_mo(ctx, [cases[i] for i in moi], [outs[i] for i in moi], "main")   # ... and vs Vectorize.mimpl / mspec
    assert not mwff, f"generator produced ill-formed multi-operator circuits: {[moi[i] for i in mwff][:5]}"
    badI += [moi[i] for i in mbI]
    mo_bad = sorted(set(mo_bad) | {moi[i] for i in mbS})
    badS += mo_bad
    for i in rawi:                                 # unmodelled family (D23): vec vs non-vec only
        if raw_differs(outs[i]):
            badS.append(i)
            if cases[i].get("raw_guard"):          # only the raw witness of a recorded finding is attributed to it
                guard_viol[i] = [cases[i]["raw_guard"]]
    loud = sum(1 for i in good if "raised" in outs[i]["vec"] or any(isinstance(r, dict) for r in outs[i]["vec"].get("ok", [])))
    ctx.note(f"E1: {len(cases)} circuits x (vectorize=True, False), {sum(len(c['states']) for c in cases)} states, "
             f"{sum(1 for c in cases if c.get('traj'))} Euler trajectories; real-vs-Impl mismatches {len(badI)}, real-vs-Spec mismatches {len(badS)} "
             f"(of which outside the guards {sum(1 for i in badS if guard_viol.get(i))}), vec != non-vec on {len(vec_ne_non)}, "
             f"loud (raised, predicted by Impl) {loud}, harness/worker errors {len(crashed)}")
    by_file = {f: i for i, f in enumerate(corpus_files)}
    def witness_check(f):
        w = os.path.basename(f.get("witness", ""))
        if w not in by_file:
            return True
        return by_file[w] in badS
    def show(c):
        r = run_impl(ctx, "c04", "impl", [c], nworkers=1)[0]
        return dict(implementation_output=r, model_output=None if c.get("raw") or c.get("mo") or "err" in r else model_outputs(ctx, c, r, "show"),
                    python_sum=[[str(v) for v in py_spec_mo(c, st)] for st in c["states"]] if c.get("mo") else None,
                    equations=None if c.get("raw") or c.get("mo") else [dict(f=poly_str(cl["f"], ["x", "k", "r"]), g=None if cl["g"] is None else poly_str(cl["g"], ["x", "k"]),
                                                              r_default=cl["rdef"]) for cl in c["classes"]])
    conclude(ctx, cases=cases, impl_out=outs, bad_spec=sorted(badS), bad_impl=badI, crashed=crashed, problem=problem, guard_viol=guard_viol,
             spec_name="Vectorize.spec (unit-level edge sum; vectorize=True and vectorize=False must both equal it)",
             impl_name="Vectorize.impl", shrink=lambda c: shrink(ctx, c), show=show, witness_check=witness_check)
    nt = {canon(c) for c in cases if nontrivial(c)}
    def branch_hist():
        h = dict(dot_candidates=0, indexed_ge10=0)
        for c in cases:
            if c.get("raw") or c.get("mo"):
                continue
            pairs = {}
            for s, t, w, sv in c["edges"]:
                pairs.setdefault((c["nodes"][s][0], c["nodes"][t][0]), []).append(t)
            for ts in pairs.values():
                if len(set(ts)) == len(ts) and len(ts) >= 10:
                    h["indexed_ge10"] += 1
                elif len(ts) > 1:
                    h["dot_candidates"] += 1
        return h
    hist = dict(kinds=plan, corpus=len(corpus_files), guard_violations={g: sum(1 for v in guard_viol.values() if g in v) for g in GUARDS + [RAW_GUARD]},
                inside_all_guards=sum(1 for i in good if not guard_viol.get(i)), loud=loud, branches=branch_hist(),
                with_parallel_edges=sum(1 for c in cases if not c.get("raw") and not c.get("mo") and len({(e[0], e[1]) for e in c["edges"]}) < len(c["edges"])),
                with_self_connection=sum(1 for c in cases if not c.get("raw") and not c.get("mo") and any(e[0] == e[1] for e in c["edges"])),
                with_weightless_edges=sum(1 for c in cases if not c.get("raw") and any(e[-2 if not c.get("mo") else -1] is None for e in c["edges"])),
                weightless_after_weighted_in_group=sum(1 for c in cases if not c.get("raw") and not c.get("mo") and _mixed_group(c)),
                multi_operator=dict(cases=len(moi), mismatches=len(mo_bad),
                                    types_differing_only_in_multiplicity=sum(1 for i in moi if _mult_only(cases[i])),
                                    operator_rename_chains=sum(1 for i in moi if mo_rename_chain(cases[i]))),
                compile_sequences=dict(cases=sum(1 for c in cases if c.get("seq")), mismatching=len(seq_bad),
                                       vec_then_nonvec=sum(1 for c in cases if c.get("seq") and c["seq"][0][0] == 1),
                                       with_in_place_false=sum(1 for c in cases if c.get("seq") and any(ip == 0 for _, ip in c["seq"]))),
                sparse_fan_in_groups=sum(1 for c in cases if not c.get("raw") and not c.get("mo") and _sparse_fanin(c)),
                declaration_variants=dict(
                    same_equations_different_declaration=sum(1 for c in cases if _same_eq_diff_decl(c)),
                    kint=sum(1 for c in cases if any(cl.get("decl") == "kint" for cl in c.get("classes", []))),
                    xvar=sum(1 for c in cases if any(cl.get("decl") == "xvar" for cl in c.get("classes", []))),
                    array_declared_nodes=sum(1 for c in cases if c.get("arr1")), explicit_delay_none=sum(1 for c in cases if c.get("dnone")),
                    two_subcircuits=sum(1 for c in cases if c.get("hier"))),
                mixed_source_variables=sum(1 for c in cases if not c.get("raw") and not c.get("mo") and _mixed_sv(c)),
                max_nodes=max((len(c.get("nodes", [])) for c in cases), default=0))
    sample = dict(cases[-1]) if cases else {}
    write_evidence(ctx, evaluations=2 * sum(len(c["states"]) for c in cases) + 2 * sum(1 for c in cases if c.get("traj")),
                   distinct_nontrivial=len(nt),
                   rule="random circuits: 1-3 structural classes x 1-12 nodes in shuffled order, per-node parameter values on one shared operator "
                        "template per class, polynomial dyadic equations (degree <= 3), optional algebraic output variable, edge patterns: random density "
                        "0.05-1.0, >= 10 edges with distinct targets (indexed branch), single-unit fan-out to 9-12 units (D32 boundary), self-connections, "
                        "fan-in from several classes, parallel edges, edges without a weight entry mixed with weighted ones in one group (both orders), "
                        "declaration variants (classes with equal equations whose variables are declared differently: k by an integer literal, x as `variable`; "
                        "nodes whose template writes the variables as length-1 arrays; edges spelling out `delay: None`; nodes spread over two sub-circuits); "
                        ">= 10 one-to-one edges covering a whole vector in permuted order (ends fixed / last fixed / identity / arbitrary; sorted source indices "
                        "with repeats); rings / random sparse graphs of 14-24 units with fan-in and fill E/(targets x sources) on both sides of 0.1; "
                        "sequences of 2-3 compilations of ONE template object (vec->non-vec, non-vec->vec, in_place True/False, clear=True); "
                        "multiop stream (model-tied: Vectorize.mimpl / mspec): node types of 1-3 S operators + 1 M operator, structurally identical operators under "
                        "different names, types differing only in operator multiplicity, compared vec vs non-vec vs the multi-operator model (and a python sum); each compiled with vectorize=True and False (default backend, float64), vector field at "
                        "2 random dyadic states (+ Euler trajectories through run() for the linear subset); a circuit is non-trivial when some class has >= 2 "
                        "nodes and receives >= 1 edge; distinct = distinct canonical JSON",
                   samples=[sample], extra=dict(input_distribution=hist, impl_vs_model_mismatches=len(badI), impl_vs_spec_mismatches=len(badS),
                                                guards=GUARDS, unmodelled=[
                                                            RAW_GUARD + " (D23: algebraic source variable that depends on its own input; "
                                                                           "raw witness compared vec vs non-vec only)"]),
                   trusted_base=["numpy float64 arithmetic is exact on the generated dyadic data (results are compared as exact rationals, no tolerance)",
                                 "unit positions in the merged state vector are read from the compiled template's own maps "
                                 "(_vectorization_indices, _vectorization_labels, state_map of get_run_func)",
                                 "sympy's automatic collection of like terms is modelled by Vectorize.const_rhs (sums of monomials only)"],
                   assumptions=["structural classes of a generated circuit have pairwise different equation lists (otherwise PyRates merges them)",
                                "edges carry a scalar weight, no delay and no edge template; one operator per node (wider families are outside this model)",
                                "IEEE rounding is outside the model: the model computes in Qc"])
