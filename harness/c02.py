"""C02 — all backends (NumPy 'default', PyTorch, JAX, Fortran) compute the same function for the same model.
Model: coq/theories/Backends.v (index hooks, roll/cshift, solver loops, linear test systems, polynomial networks),
BackendInterp.v (numpy interp Spec; torch and Fortran helpers as coded); theorems: coq/properties/C02.v.
Tie (E1), five kinds of cases, every one executed on the real backends and compared inside Coq as exact rationals:
  interp : helper functions through the real backends (torch source string exec'ed with its registry imports, jax.numpy.interp,
           numpy.interp, and the *compiled* vector field of a model with an extrinsic input for default/torch/jax/fortran,
           `time` / `inp_input` / `t` arguments replaced by name) on dyadic grids; interp_rows helpers of base and jax
  net    : random polynomial scalar networks compiled per backend, evaluated at dyadic states, arguments matched by frontend name
  traj   : CircuitTemplate.run on linear dyadic models (optional extrinsic input array) with every fixed-step solver the backend
           supports, vectorize on/off, inplace_vectorfield on/off
  hooks  : _process_idx / create_index_str / ComputeVar shift-once / roll / Fortran cshift rewrite called directly
  vec    : (traj kind) two structural classes x 2-4 units with a dense edge block (matvec) and sparse edges (indexed assignment), compiled
           vectorized for default/torch/jax and scalar for default/fortran; delayed variants (roll buffer) compared across backends only
  rollnet: user-level roll(x, n) with positive / negative literal shifts on shaped vector variables, vectorize=False, four backends
  cadence: x' = u_k with integer input and DECIMAL step sizes (1e-4 .. 0.3) x multiples 1..40: updates per stored row, row count, time axis
  lits   : float literals and rational constants written in the equation text (dyadic: exact; 0.1, 1/3, ...: tolerance, support), four backends
  pop    : PopulationTemplate + Connectivity, plain matrix (matvec) and coupling EdgeTemplate (wsum / broadcast_pre / broadcast_post)
  scipy  : (support, tolerance) adaptive solver on a stiff-ish nonlinear model: no backend may fail alone; values within rtol."""
import json, os, math
from fractions import Fraction as Fr
from core import *

NEEDS = ["Backends", "BackendsProofs", "BackendInterp", "BackendInterpProofs", "Corr"]
PY_BACKENDS = ["default", "torch", "jax"]
SOLVERS = {"default": ["euler", "heun"], "torch": ["euler"], "jax": ["euler", "heun"], "fortran": ["euler", "heun"]}

# =============================================================================================== impl side (worker)
_counter = [0]

def _fname(tag):
    _counter[0] += 1
    return f"c02{tag}_{os.getpid()}_{_counter[0]}"

def dec(x):
    f = Fr(x)
    s = "%.12f" % float(f)
    assert Fr(s) == f, x
    s = s.rstrip("0")
    return s + "0" if s.endswith(".") else s

def _like(orig, value, prec):
    """value (nested floats) converted to the array type the backend handed out for this argument"""
    import numpy as np
    tname = type(orig).__module__
    if tname.startswith("torch"):
        import torch
        return torch.as_tensor(np.asarray(value, dtype=prec), dtype=orig.dtype).reshape(orig.shape)
    arr = np.asarray(value, dtype=getattr(orig, "dtype", prec)).reshape(np.shape(orig))
    if "jax" in tname:
        import jax.numpy as jnp
        return jnp.asarray(arr)
    return arr

def _call(func, a, backend):
    import numpy as np
    r = func(*a)
    if r is None:               # Fortran subroutine: result in the dy buffer
        r = a[2]
    if hasattr(r, "detach"):
        r = r.detach().numpy()
    return np.asarray(r, dtype=np.float64).reshape(-1)

def _import_ns(imports):
    ns = {}
    for imp in imports:
        mod, name = imp.rsplit(".", 1)
        exec(f"from {mod} import {name}", ns)
    return ns

def _positions(smap):
    pos = {}
    for k, v in smap.items():
        pos[k] = int(v[0]) if isinstance(v, (tuple, list)) else int(v)
    return pos

def impl_interp(case):
    import numpy as np, pyr
    from pyr import frac
    prec = "float64"
    grid = [float(Fr(x)) for x in case["grid"]]; vals = [float(Fr(x)) for x in case["vals"]]
    qs = [float(Fr(x)) for x in case["queries"]]
    out = {}
    for route in case["routes"]:
        if route == "np":
            out[route] = [frac(np.interp(q, np.array(grid), np.array(vals))) for q in qs]
        elif route == "torch_src":
            import torch
            from pyrates.backend.torch.torch_funcs import torch_funcs
            info = torch_funcs["interp"]
            ns = _import_ns(info["imports"]); exec(info["def"], ns)
            tg, tv = torch.tensor(grid, dtype=torch.float64), torch.tensor(vals, dtype=torch.float64)
            out[route] = [frac(ns["interp"](torch.tensor(q, dtype=torch.float64), tg, tv).item()) for q in qs]
        elif route == "jnp":
            import jax
            jax.config.update("jax_enable_x64", True)
            from pyrates.backend.jax.jax_funcs import jax_funcs
            ns = _import_ns(jax_funcs["interp"]["imports"])
            out[route] = [frac(float(ns["interp"](q, np.array(grid), np.array(vals)))) for q in qs]
        elif route in ("rows_np", "rows_jnp"):
            m = np.array([[float(Fr(x)) for x in r] for r in case["matrix"]], dtype=np.float64)
            if route == "rows_np":
                from pyrates.backend.base.base_funcs import base_funcs as reg
            else:
                import jax
                jax.config.update("jax_enable_x64", True)
                from pyrates.backend.jax.jax_funcs import jax_funcs as reg
            info = reg["interp_rows"]
            ns = _import_ns(info["imports"]); exec(info["def"], ns)
            out[route] = [[frac(v) for v in np.asarray(ns["interp_rows"](q, np.array(grid), m), dtype=np.float64).reshape(-1)] for q in qs]
        elif route.startswith("m_"):
            b = route[2:]
            from pyrates import OperatorTemplate, NodeTemplate, CircuitTemplate
            pyr.reset_pyrates()
            try:
                op = OperatorTemplate(name="iop", path=None, equations=["x' = -x + inp"], variables={"x": "output(0.0)", "inp": "input(0.0)"})
                net = CircuitTemplate(name="net", path=None, nodes={"A": NodeTemplate(name="A", path=None, operators=[op])})
                func, args, names, smap = net.get_run_func("vf", 0.125, file_name=_fname("i"), vectorize=False, backend=b,
                                                           inputs={"A/iop/inp": np.zeros(len(grid))}, float_precision=prec,
                                                           solver="scipy", in_place=False, clear=False, verbose=False)
                names = list(names)
                it = [i for i, n in enumerate(names) if n.endswith("/time")][0]
                iu = [i for i, n in enumerate(names) if n.endswith("/inp_input")][0]
                px = _positions(smap)["A/iop/x"]
                res = []
                for q in qs:
                    a = list(args)
                    a[0] = _like(args[0], q, prec); a[it] = _like(args[it], grid, prec); a[iu] = _like(args[iu], vals, prec)
                    a[1] = _like(args[1], np.zeros(np.shape(args[1])), prec); a[2] = _like(args[2], np.zeros(np.shape(args[2])), prec)
                    res.append(frac(_call(func, a, b)[px]))
                out[route] = res
            finally:
                pyr.reset_pyrates()
    return out

def poly_str(p):
    if not p:
        return "0.0"
    terms = []
    for c, a, b, k, d in p:
        c = Fr(c)
        t = "*".join([dec(abs(c))] + ["x"] * a + ["v"] * b + ["k"] * k + ["inp"] * d)
        terms.append(("- " if c < 0 else "+ ") + t)
    s = " ".join(terms)
    return s[2:] if s.startswith("+ ") else s

def build_net(case):
    from pyrates import OperatorTemplate, NodeTemplate, CircuitTemplate
    ops = {}
    for oname, o in case["ops"].items():
        sp = "".join((" - " if Fr(c) < 0 else " + ") + f"{dec(abs(Fr(c)))}*{fn}(w)" for fn, c in sorted(o.get("sp", {}).items()))
        variables = {"x": "output(0.0)", "v": "variable(0.0)", "k": 1.0, "inp": "input(0.0)"}
        if sp:
            variables["w"] = 0.0
        ops[oname] = OperatorTemplate(name=oname, path=None, equations=["x' = " + poly_str(o["px"]) + sp, "v' = " + poly_str(o["pv"])],
                                      variables=variables)
    nodes = {f"n{j}": NodeTemplate(name=f"n{j}", path=None, operators={ops[nd["op"]]: {"k": float(Fr(nd["k"]))}})
             for j, nd in enumerate(case["nodes"])}
    edges = [(f"n{s}/{case['nodes'][s]['op']}/x", f"n{t}/{case['nodes'][t]['op']}/inp", None, {"weight": float(Fr(w))})
             for s, t, w in case["edges"]]
    return CircuitTemplate(name="net", path=None, nodes=nodes, edges=edges)

def impl_net(case):
    import numpy as np, pyr
    from pyr import frac
    b, prec = case["backend"], case["precision"]
    pyr.reset_pyrates()
    try:
        net = build_net(case)
        func, args, names, smap = net.get_run_func("vf", 0.125, file_name=_fname("n"), vectorize=False, backend=b, float_precision=prec,
                                                   solver="euler", in_place=False, clear=False, verbose=False)
        names = list(names); pos = _positions(smap)
        declared = {nm: [frac(x) for x in np.asarray(args[i].detach().numpy() if hasattr(args[i], "detach") else args[i], dtype=np.float64).reshape(-1)]
                    for i, nm in enumerate(names) if i >= 3}
        ny = int(np.prod(np.shape(args[1])))
        if case.get("then"):
            # a later compilation in the same process (other model, other float precision, same backend) must not change what the
            # function handed out earlier computes (process-global dtype switches such as jax_enable_x64 / torch default dtype)
            from pyrates import OperatorTemplate, NodeTemplate, CircuitTemplate
            for k2, prec2 in enumerate(case["then"]):
                op2 = OperatorTemplate(name=f"later{k2}", path=None, equations=["q' = -q*c + 1.0"], variables={"q": "output(0.5)", "c": 2.0})
                net2 = CircuitTemplate(name=f"net2_{k2}", path=None, nodes={"m": NodeTemplate(name="m", path=None, operators=[op2])})
                kw2 = dict(float_precision=prec2) if prec2 else {}
                f2, a2, _, _ = net2.get_run_func("vf2", 0.125, file_name=_fname("l"), vectorize=False, backend=b, solver="euler",
                                                 in_place=False, clear=False, verbose=False, **kw2)
                f2(*a2)
        outs = []
        for pt in case["points"]:
            a = list(args)
            y = np.zeros(ny)
            for j, (x, v) in enumerate(pt["state"]):
                o = case["nodes"][j]["op"]
                y[pos[f"n{j}/{o}/x"]] = float(Fr(x)); y[pos[f"n{j}/{o}/v"]] = float(Fr(v))
            a[1] = _like(args[1], y, prec); a[2] = _like(args[2], np.zeros(ny), prec)
            for j, kv in enumerate(pt["k"]):
                nm = f"n{j}/{case['nodes'][j]['op']}/k"
                if nm in names:
                    a[names.index(nm)] = _like(args[names.index(nm)], float(Fr(kv)), prec)
                nm = f"n{j}/{case['nodes'][j]['op']}/w"
                if nm in names and "w" in pt:
                    a[names.index(nm)] = _like(args[names.index(nm)], float(Fr(pt["w"])), prec)
            dy = _call(func, a, b)
            row = []
            for j in range(len(case["nodes"])):
                o = case["nodes"][j]["op"]
                row += [frac(dy[pos[f"n{j}/{o}/x"]]), frac(dy[pos[f"n{j}/{o}/v"]])]
            outs.append(row)
        return dict(names=sorted(names[3:]), declared=declared, ny=ny, outs=outs)
    finally:
        pyr.reset_pyrates()

OPN = {0: "lin", 1: "linb"}

def impl_rollnet(case):
    """user-level roll(x, n) equations on explicitly shaped vector variables of one node, vectorize=False (so Fortran is allowed)"""
    import numpy as np, pyr
    from pyr import frac
    from pyrates import OperatorTemplate, NodeTemplate, CircuitTemplate
    b, prec, N = case["backend"], "float64", case["n"]
    n1, n2, n3 = case["shifts"]
    pyr.reset_pyrates()
    try:
        vec = lambda: {"vtype": "variable", "dtype": "float", "shape": (N,), "value": [0.0] * N}
        vx = vec(); vx["vtype"] = "output"
        op = OperatorTemplate(name="rop", path=None,
                              equations=[f"x' = -a*x + k*roll(x, {n1}) + g*roll(z, {n2})", f"z' = x - a*roll(z, {n3})"],
                              variables={"x": vx, "z": vec(), "a": 1.0, "k": 1.0, "g": 1.0})
        net = CircuitTemplate(name="net", path=None, nodes={"p": NodeTemplate(name="p", path=None, operators=[op])})
        func, args, names, smap = net.get_run_func("vf", 0.125, file_name=_fname("r"), vectorize=False, backend=b, float_precision=prec,
                                                   solver="euler", in_place=False, clear=False, verbose=False)
        names = list(names)
        px, pz = smap["p/rop/x"], smap["p/rop/z"]
        ny = int(np.prod(np.shape(args[1])))
        outs = []
        for pt in case["points"]:
            a = list(args)
            y = np.zeros(ny)
            y[px[0]:px[1]] = [float(Fr(v)) for v in pt["x"]]; y[pz[0]:pz[1]] = [float(Fr(v)) for v in pt["z"]]
            a[1] = _like(args[1], y, prec); a[2] = _like(args[2], np.zeros(ny), prec)
            for nm in ("a", "k", "g"):
                i = names.index(f"p/rop/{nm}")
                a[i] = _like(args[i], float(Fr(pt[nm])), prec)
            d = _call(func, a, b)
            outs.append([[frac(v) for v in d[px[0]:px[1]]], [frac(v) for v in d[pz[0]:pz[1]]]])
        return dict(outs=outs)
    finally:
        pyr.reset_pyrates()

def impl_cadence(case):
    """x' = u_k (integer-valued input) with DECIMAL step sizes passed as literals: the stored rows are (partial sums of u) * dt, so
    round(2*x/dt) identifies the number of updates per stored row whatever the rounding of the decimal arithmetic"""
    import numpy as np, pyr
    from pyrates import OperatorTemplate, NodeTemplate, CircuitTemplate
    b = case["backend"]
    pyr.reset_pyrates()
    try:
        op = OperatorTemplate(name="kop", path=None, equations=["x' = inp"], variables={"x": "output(0.0)", "inp": "input(0.0)"})
        net = CircuitTemplate(name="net", path=None, nodes={"p": NodeTemplate(name="p", path=None, operators=[op])})
        dt, dts, T = float(case["dt"]), float(case["dts"]), float(case["T"])          # literals, as a user writes them
        res = net.run(T, dt, sampling_step_size=dts, solver=case["solver"], backend=b, vectorize=case["vectorize"],
                      inputs={"p/kop/inp": np.array([float(u) for u in case["u"]])}, outputs={"x": "p/kop/x"}, float_precision="float64",
                      in_place=False, file_name=_fname("k"), clear=True, verbose=False)
        x = np.asarray(res.values, dtype=np.float64).reshape(-1)
        sc = 2.0 * x / dt
        r = np.round(sc)
        return dict(rows2=[int(v) for v in r], resid=float(np.max(np.abs(sc - r))) if len(x) else 0.0, n=int(len(x)),
                    index=[repr(float(t)) for t in res.index],
                    quotients=[repr(dts / dt), repr(T / dt), repr(T / dts)])
    finally:
        pyr.reset_pyrates()

def impl_lits(case):
    """numeric literals written in the equation text: x' = <float literal>*k + <rational constant>"""
    import numpy as np, pyr
    from pyr import frac
    from pyrates import OperatorTemplate, NodeTemplate, CircuitTemplate
    b = case["backend"]
    pyr.reset_pyrates()
    try:
        op = OperatorTemplate(name="lop", path=None, equations=[f"x' = {case['c']}*k + {case['q']}"], variables={"x": "output(0.0)", "k": 1.0})
        net = CircuitTemplate(name="net", path=None, nodes={"p": NodeTemplate(name="p", path=None, operators=[op])})
        func, args, names, smap = net.get_run_func("vf", 0.125, file_name=_fname("q"), vectorize=False, backend=b, float_precision="float64",
                                                   solver="euler", in_place=False, clear=False, verbose=False)
        names = list(names); i = names.index("p/lop/k"); outs = []
        for k in case["ks"]:
            a = list(args)
            a[i] = _like(args[i], float(Fr(k)), "float64"); a[2] = _like(args[2], np.zeros(np.shape(args[2])), "float64")
            v = float(_call(func, a, b)[0])
            outs.append(v if case.get("support") else frac(v))
        return dict(outs=outs)
    finally:
        pyr.reset_pyrates()

def impl_consts(case):
    """x' = pi*k with k a power of two: the value of the named constant on each backend, bit for bit"""
    import numpy as np, pyr
    from pyr import frac
    from pyrates import OperatorTemplate, NodeTemplate, CircuitTemplate
    b = case["backend"]
    pyr.reset_pyrates()
    try:
        op = OperatorTemplate(name="cop", path=None, equations=[f"x' = {case.get('const', 'pi')}*k"], variables={"x": "output(0.0)", "k": 1.0})
        net = CircuitTemplate(name="net", path=None, nodes={"p": NodeTemplate(name="p", path=None, operators=[op])})
        func, args, names, smap = net.get_run_func("vf", 0.125, file_name=_fname("c"), vectorize=False, backend=b, float_precision="float64",
                                                   solver="euler", in_place=False, clear=False, verbose=False)
        names = list(names); i = names.index("p/cop/k"); outs = []
        for k in case["ks"]:
            a = list(args)
            a[i] = _like(args[i], float(Fr(k)), "float64")
            a[2] = _like(args[2], np.zeros(np.shape(args[2])), "float64")
            outs.append(frac(_call(func, a, b)[0]))
        return dict(outs=outs)
    finally:
        pyr.reset_pyrates()

def build_lin(case):
    from pyrates import OperatorTemplate, NodeTemplate, CircuitTemplate
    eqs = ["x' = -a*x + g*v + inp", "v' = h*x - c*v"] if not case.get("stiff") else ["x' = -a*x + g*v + inp - x*x*x", "v' = h*x - c*v"]
    ops = {0: OperatorTemplate(name="lin", path=None, equations=eqs,
                               variables={"x": "output(0.0)", "v": "variable(0.0)", "a": 1.0, "g": 1.0, "h": 1.0, "c": 1.0, "inp": "input(0.0)"}),
           1: OperatorTemplate(name="linb", path=None, equations=["x' = -a*x + inp", "v' = h*x - c*v"],
                               variables={"x": "output(0.0)", "v": "variable(0.0)", "a": 1.0, "h": 1.0, "c": 1.0, "inp": "input(0.0)"})}
    nodes = {}
    for j, nd in enumerate(case["nodes"]):
        cl = nd.get("cls", 0)
        keys = ("a", "g", "h", "c", "x", "v") if cl == 0 else ("a", "h", "c", "x", "v")
        nodes[f"n{j}"] = NodeTemplate(name=f"n{j}", path=None, operators={ops[cl]: {k: float(Fr(nd[k])) for k in keys}})
    on = lambda j: OPN[case["nodes"][j].get("cls", 0)]
    edges = [(f"n{s}/{on(s)}/x", f"n{t}/{on(t)}/inp", None, {"weight": float(Fr(w))}) for s, t, w in case["edges"]]
    if case.get("delay"):
        s_, t_, w_, d_ = case["delay"]
        edges.append((f"n{s_}/{on(s_)}/v", f"n{t_}/{on(t_)}/inp", None, {"weight": float(Fr(w_)), "delay": float(d_ * Fr(case["dt"]))}))
    return CircuitTemplate(name="net", path=None, nodes=nodes, edges=edges)

def impl_traj(case):
    import numpy as np, pyr
    from pyr import frac
    pyr.reset_pyrates()
    try:
        fn = _fname("t")
        def one(c, file_name):
            net = build_lin(c)
            dt = float(Fr(c["dt"])); T = c["steps"] * dt; dts = c["ss"] * dt
            outputs = {}
            for j in range(len(c["nodes"])):
                o = OPN[c["nodes"][j].get("cls", 0)]
                outputs[f"x{j}"] = f"n{j}/{o}/x"; outputs[f"v{j}"] = f"n{j}/{o}/v"
            inputs = {f"n0/{OPN[c['nodes'][0].get('cls', 0)]}/inp": np.array([float(Fr(u)) for u in c["u"]])} if c["u"] else None
            kw = dict(c.get("kwargs", {}))
            res = net.run(T, dt, sampling_step_size=dts, solver=c["solver"], backend=c["backend"], vectorize=c["vectorize"],
                          inputs=inputs, outputs=outputs, float_precision=c["precision"], in_place=False, file_name=file_name,
                          inplace_vectorfield=c["ipv"], clear=True, verbose=False, **kw)
            cols = [k for j in range(len(c["nodes"])) for k in (f"x{j}", f"v{j}")]
            return np.asarray(res[cols].values, dtype=np.float64)
        try:
            vals = one(case, fn)
        except NotImplementedError as e:
            return dict(raised="NotImplementedError", msg=str(e)[:120])
        if case.get("support"):
            return dict(rows=[[float(v) for v in r] for r in vals])
        out = dict(rows=[[frac(v) for v in r] for r in vals])
        if case.get("second"):
            # the same model again in the SAME process (no cache reset in between), same step settings, other parameter values and inputs;
            # the file name is re-used as a user would (safe on Fortran too since fix D96: the extension module is named per source hash)
            vals2 = one(dict(case, **case["second"]), fn)
            out["rows2"] = [[frac(v) for v in r] for r in vals2]
        return out
    finally:
        pyr.reset_pyrates()

COUPLING = {1: (["m = u_s - u_t"], {"u_s": "input", "u_t": "input", "m": "output"}),
            2: (["m = u_s * u_t + u_s"], {"u_s": "input", "u_t": "input", "m": "output"})}

def impl_pop(case):
    import numpy as np, pyr
    from pyr import frac
    from pyrates import OperatorTemplate, NodeTemplate, CircuitTemplate
    from pyrates.frontend.template.edge import EdgeTemplate
    from pyrates.frontend.template.population import PopulationTemplate, Connectivity
    pyr.reset_pyrates()
    try:
        uop = OperatorTemplate(name="uop", path=None, equations=["x' = eta - a*x + s_in"],
                               variables={"x": "output(0.0)", "eta": 0.5, "a": 0.25, "s_in": "input(0.0)"})
        node = NodeTemplate(name="unode", path=None, operators=[uop])
        fl = lambda l: [float(Fr(v)) for v in l]
        pops = {f"p{i}": PopulationTemplate(name=f"p{i}", node=node, n=len(p["x"]), params={"uop/x": fl(p["x"]), "uop/eta": fl(p["eta"]), "uop/a": fl(p["a"])})
                for i, p in enumerate(case["pops"])}
        conns = []
        for c in case["conns"]:
            kw = {}
            if c["kind"]:
                eqs, vs = COUPLING[c["kind"]]
                kw["edge"] = EdgeTemplate(name=f"e{c['kind']}", path=None, operators=[OperatorTemplate(name=f"eop{c['kind']}", path=None, equations=list(eqs), variables=dict(vs))])
                kw["edge_var_map"] = {"u_s": "source", "u_t": f"p{c['t']}/uop/x"}
            conns.append(Connectivity(source=f"p{c['s']}/uop/x", target=f"p{c['t']}/uop/s_in", weights=np.array([fl(r) for r in c["W"]]), **kw))
        net = CircuitTemplate(name="cpop", populations=pops, connections=conns)
        dt = float(Fr(case["dt"]))
        try:
            res = net.run(case["steps"] * dt, dt, sampling_step_size=case["ss"] * dt, solver="euler", backend=case["backend"], vectorize=True,
                          outputs={f"p{i}": f"p{i}/uop/x" for i in range(len(case["pops"]))}, float_precision="float64", in_place=False,
                          file_name=_fname("p"), clear=True, verbose=False)
        except TypeError as e:
            return dict(raised="TypeError", msg=str(e)[:120])
        blocks = []
        for i, p in enumerate(case["pops"]):            # a one-unit population comes back as one plain column, larger ones as (name, unit)
            cs = [c for c in res.columns if (c[0] if isinstance(c, tuple) else c) == f"p{i}"]
            assert len(cs) == len(p["x"]), (list(res.columns), i)
            blocks.append(np.asarray(res[cs].values, dtype=np.float64).reshape(len(res), len(cs)))
        vals = np.concatenate(blocks, axis=1)
        return dict(rows=[[frac(v) for v in r] for r in vals])
    finally:
        pyr.reset_pyrates()

def make_backend(name):
    if name == "default":
        from pyrates.backend.base.base_backend import BaseBackend
        return BaseBackend()
    if name == "torch":
        from pyrates.backend.torch.torch_backend import TorchBackend
        return TorchBackend()
    if name == "jax":
        from pyrates.backend.jax.jax_backend import JaxBackend
        return JaxBackend()
    if name == "fortran":
        from pyrates.backend.fortran.fortran_backend import FortranBackend
        return FortranBackend()
    from pyrates.backend.base.base_backend import BaseBackend
    from pyrates.backend._one_based import OneBasedCodegenMixin
    return type("OneBased", (OneBasedCodegenMixin, BaseBackend), {})(start_idx=1, idx_left="(", idx_right=")")

def impl_hooks(case):
    import numpy as np, re
    from sympy import Symbol
    from pyrates.backend.computegraph import ComputeVar
    name = case["backend"]
    b = make_backend(name)
    out = dict(start=int(b._start_idx))
    out["ints"] = [int(b._process_idx(i)) for i in case["ints"]]
    out["int_strs"] = [int(b._process_idx(str(i))) for i in case["ints"]]
    out["brackets"] = [b.create_index_str(i)[0] for i in case["ints"][:2]]
    rng = []
    for a, c in case["ranges"]:
        lo, hi = b._process_idx((a, c)).split(":")
        rng.append([int(lo), int(hi)])
    out["ranges"] = rng
    if name == "onebased":
        sr = []
        for a, c in case["ranges"]:
            lo, hi = b._process_idx(f"{a}:{c}").split(":")
            sr.append([int(lo), int(hi)])
        out["str_ranges"] = sr
    out["noapply"] = [int(b.create_index_str(i, apply=False)[0]) for i in case["ints"]]
    out["after_noapply"] = int(b._process_idx(case["ints"][0]))            # the start index must be restored afterwards
    vs = [ComputeVar(f"iv{j}", Symbol(f"iv{j}"), vtype="constant", dtype="int32", shape=(), value=v) for j, v in enumerate(case["vars"])]
    for c in case["calls"]:
        r = b._process_idx(vs[c])
        assert r == vs[c].name
    out["vars"] = [int(v.value) for v in vs]
    v, k = case["roll"]["v"], case["roll"]["k"]
    if name in ("default", "onebased"):
        out["roll"] = [int(x) for x in b._funcs["roll"]["func"](np.array(v), k)]
    elif name == "torch":
        import torch
        out["roll"] = [int(x) for x in torch.roll(torch.tensor(v), k)]
    elif name == "jax":
        import jax.numpy as jnp
        out["roll"] = [int(x) for x in jnp.roll(jnp.asarray(v), k)]
    else:
        call = b._funcs["roll"]["call"]
        s = b.expr_to_str(f"{call}(buf,{k})", ("buf", k))
        m = re.fullmatch(r"cshift\(buf,(-?-?\d+)\)", s)
        assert m, s
        sh = m.group(1)
        out["shift"] = int(sh[2:]) if sh.startswith("--") else int(sh)
        out["call"] = call
    return out

def impl(case):
    return {"interp": impl_interp, "net": impl_net, "traj": impl_traj, "hooks": impl_hooks, "pop": impl_pop, "rollnet": impl_rollnet, "consts": impl_consts, "cadence": impl_cadence, "lits": impl_lits}[case["kind"]](case)

# =============================================================================================== generators
def dy(rng, lo, hi, den):
    return str(Fr(rng.randint(lo, hi), den))

def gen_interp(rng, fortran, big=False):
    n = rng.choice([2, 2, 3, 4, 5, 7]) if not big else rng.choice([9, 17])
    x = Fr(rng.randint(-16, 16), 4)
    grid = [x]
    for _ in range(n - 1):
        x = x + Fr(2 ** rng.randint(0, 4), 8)          # power-of-two spacings: the quotient (q - x_i)/(x_{i+1} - x_i) is exact
        grid.append(x)
    vals = [Fr(rng.randint(-64, 64), 8) for _ in range(n)]
    qs = [grid[0] - Fr(rng.randint(1, 9), 4), grid[-1] + Fr(rng.randint(1, 9), 4), grid[0], grid[-1]]
    for _ in range(6 if not big else 14):
        i = rng.randrange(n - 1)
        qs.append(grid[i] + (grid[i + 1] - grid[i]) * Fr(rng.randint(0, 16), 16))
    qs.append(grid[rng.randrange(n)])
    rng.shuffle(qs)
    routes = ["np", "torch_src", "jnp", "m_default", "m_torch", "m_jax"] + (["m_fortran"] if fortran else [])
    case = dict(kind="interp", grid=[str(g) for g in grid], vals=[str(v) for v in vals], queries=[str(q) for q in qs], routes=routes)
    if rng.random() < 0.6:
        w = rng.randint(1, 3)
        case["matrix"] = [[str(Fr(rng.randint(-32, 32), 8)) for _ in range(w)] for _ in range(n)]
        case["routes"] += ["rows_np", "rows_jnp"]
    return case

def gen_poly(rng, need_inp, long=False):
    mons = {}
    for _ in range(rng.randint(14, 20) if long else rng.randint(1, 4)):
        e = (rng.randint(0, 2), rng.randint(0, 1), rng.randint(0, 1), rng.choice([0, 0, 1, 2]))
        if sum(e) > 3:
            continue
        mons[e] = Fr(rng.choice([-6, -4, -3, -2, -1, 1, 2, 3, 4, 6]), 4)
    if need_inp and not any(e[3] for e in mons):
        mons[(0, 0, 0, 1)] = Fr(1)
    return [[str(c), *e] for e, c in sorted(mons.items())]

def _gen_net_model(rng, long=False):
    nn = rng.randint(2, 4)
    ops = {nm: dict(px=gen_poly(rng, True, long), pv=gen_poly(rng, False, long)) for nm in ["opa", "opb"][:rng.randint(1, 2)]}
    for o in ops.values():
        if rng.random() < 0.6:      # registry functions evaluated at the constant argument w = 0, where their value is exact
            o["sp"] = {fn: str(Fr(rng.choice([-3, -2, -1, 1, 2, 3]), 2)) for fn in rng.sample(["sigmoid", "tanh", "exp", "cos", "sin"], rng.randint(1, 3))}
    nodes = [dict(op=rng.choice(sorted(ops)), k=dy(rng, -8, 8, 4)) for _ in range(nn)]
    pairs = [(s, t) for s in range(nn) for t in range(nn)]
    rng.shuffle(pairs)
    edges = [[s, t, str(Fr(rng.choice([-6, -3, -2, -1, 1, 2, 3, 5, 6]), 4))] for s, t in pairs[:rng.randint(1, min(6, len(pairs)))]]
    points = []
    for _ in range(4):
        points.append(dict(state=[[dy(rng, -8, 8, 4), dy(rng, -8, 8, 4)] for _ in range(nn)],
                           k=[nd["k"] if rng.random() < 0.5 else dy(rng, -8, 8, 4) for nd in nodes]))
    return dict(kind="net", ops=ops, nodes=nodes, edges=edges, points=points)

# ---- float64 exactness by construction -----------------------------------------------------------------------------------
# The deciding streams compare float64 results with exact rationals, so every generated case must be one on which float64
# arithmetic is exact WHATEVER order / association / distribution the generated code uses.  A magnitude bound is propagated:
# Mag = (A, D): |value| <= A and the value is an integer multiple of 1/D (D a power of two).  For sums A adds and D is the max, for
# products both multiply; evaluating an expression on the absolute values of its operands therefore bounds every intermediate of
# every evaluation order (partial sums, partial products, expanded or factored forms).  A case is accepted only if A*D < 2^50 and
# D <= 2^50 for every expression: each intermediate is then n/D with |n| < 2^50, exactly representable (53-bit significand) with
# margin, and IEEE +,-,* return it exactly.  Cases failing the bound are resampled (never compared with a tolerance).
EXACT_BITS = 50

class Mag:
    __slots__ = ("A", "D")
    def __init__(self, A, D=1):
        self.A = Fr(A); self.D = int(D)
    @staticmethod
    def of(x):
        f = Fr(x)
        assert f.denominator & (f.denominator - 1) == 0, x
        return Mag(abs(f), f.denominator)
    def __add__(self, o):
        return Mag(self.A + o.A, max(self.D, o.D))
    def __mul__(self, o):
        return Mag(self.A * o.A, self.D * o.D)
    def ok(self):
        return self.D <= 2 ** EXACT_BITS and self.A * self.D < 2 ** EXACT_BITS

ZERO = Mag(0, 1)

def msum(ms):
    r = ZERO
    for m in ms:
        r = r + m
    return r

def lin_abs(case):
    """|coefficient| of every term of the linear right-hand side as separate contributions (incl. the delayed edge, whatever its delay),
    and the largest denominator among the contributions"""
    nn = len(case["nodes"]); M = [[Fr(0)] * (2 * nn) for _ in range(2 * nn)]; D = [[1] * (2 * nn) for _ in range(2 * nn)]
    def add(i, j, c):
        c = Fr(c); M[i][j] += abs(c); D[i][j] = max(D[i][j], c.denominator)
    for j, nd in enumerate(case["nodes"]):
        add(2 * j, 2 * j, nd["a"]); add(2 * j + 1, 2 * j, nd["h"]); add(2 * j + 1, 2 * j + 1, nd["c"])
        if nd.get("cls", 0) == 0:
            add(2 * j, 2 * j + 1, nd["g"])
    for s_, t_, w in case["edges"]:
        add(2 * t_, 2 * s_, w)
    if case.get("delay"):
        s_, t_, w, _d = case["delay"]
        add(2 * t_, 2 * s_ + 1, w)
    return M, D

def traj_exact(case):
    """bound propagation for Euler and Heun (both corrector conventions have the same bound) over all steps any backend executes"""
    (M, DD) = lin_abs(case); n = len(M); dt = Mag.of(case["dt"]); half = Mag(Fr(1, 2), 2)
    U = Mag(max([abs(Fr(x)) for x in case["u"]] + [Fr(0)]), 2) if case["u"] else None
    coef = [[Mag(M[i][j], DD[i][j]) for j in range(n)] for i in range(n)]
    def f(B):
        return [msum([coef[i][j] * B[j] for j in range(n) if M[i][j]]) + (U if (U and i == 0) else ZERO) for i in range(n)]
    for variant in ("euler", "heun"):
        B = [Mag.of(nd[k]) for nd in case["nodes"] for k in ("x", "v")]
        for _ in range(case["steps"] + case["ss"]):
            k1 = f(B)
            yp = [b + dt * k for b, k in zip(B, k1)]
            if variant == "euler":
                allm, B = k1 + yp, yp
            else:
                k2 = f(yp)
                B2 = [b + half * dt * (ka + kb) for b, ka, kb in zip(B, k1, k2)]
                allm, B = k1 + yp + k2 + B2, B2
            if not all(m.ok() for m in allm):
                return False
    return True

def pop_exact(case):
    sizes = [len(p["x"]) for p in case["pops"]]
    B = [[Mag.of(v) for v in p["x"]] for p in case["pops"]]
    dt = Mag.of(case["dt"])
    for _ in range(case["steps"] + case["ss"]):
        new = []
        for t, p in enumerate(case["pops"]):
            row = []
            for i in range(sizes[t]):
                terms = [Mag.of(p["eta"][i]), Mag.of(p["a"][i]) * B[t][i]]
                for c in case["conns"]:
                    if c["t"] != t:
                        continue
                    for j in range(sizes[c["s"]]):
                        w = Mag(abs(Fr(c["W"][i][j])), 2)
                        bs, bt = B[c["s"]][j], B[t][i]
                        cv = bs if c["kind"] == 0 else (bs + bt if c["kind"] == 1 else bs * bt + bs)
                        terms.append(w * cv)           # kept even for a zero weight: the product is formed by wsum / matvec
                rhs = msum(terms)
                y = B[t][i] + dt * rhs
                if not (rhs.ok() and y.ok() and all(m.ok() for m in terms)):
                    return False
                row.append(y)
            new.append(row)
        B = new
    return True

AT0 = {"sigmoid": Fr(1, 2), "tanh": Fr(0), "exp": Fr(1), "cos": Fr(1), "sin": Fr(0)}       # Spec of the registry functions at 0

def py_net_deriv(case, pt):
    xs = [Fr(x) for x, _ in pt["state"]]; vs = [Fr(v) for _, v in pt["state"]]
    out = []
    for j, nd in enumerate(case["nodes"]):
        inp = sum((Fr(w) * xs[s_] for s_, t_, w in case["edges"] if t_ == j), Fr(0))
        k = Fr(pt["k"][j]); o = case["ops"][nd["op"]]
        ev = lambda poly: sum((Fr(c) * xs[j] ** a_ * vs[j] ** b_ * k ** k_ * inp ** d_ for c, a_, b_, k_, d_ in poly), Fr(0))
        out += [ev(o["px"]) + sum((Fr(c) * AT0[fn] for fn, c in o.get("sp", {}).items()), Fr(0)), ev(o["pv"])]
    return out

def needs_double(case):
    """some output of some point is not representable with a 24-bit significand (a float32 evaluation cannot return it)"""
    def sig_bits(f):
        n = abs(f.numerator)
        return n.bit_length() if n else 0          # reduced fraction with power-of-two denominator: the numerator is the odd significand
    return any(sig_bits(v) > 24 for pt in case["points"] for v in py_net_deriv(case, pt))

def fine_points(rng, case):
    """states with 12 fractional bits: products of two or three of them need 26..40 significand bits"""
    fv = lambda: str(Fr(rng.randint(-8, 8), 4) + Fr(rng.randrange(1, 4096, 2), 4096))
    return [dict(pt, state=[[fv(), fv()] for _ in pt["state"]]) for pt in case["points"][:3]]

def net_exact(case):
    for pt in case["points"]:
        xs = [Mag.of(x) for x, _ in pt["state"]]; vs = [Mag.of(v) for _, v in pt["state"]]
        for j, nd in enumerate(case["nodes"]):
            inp = msum([Mag.of(w) * xs[s_] for s_, t_, w in case["edges"] if t_ == j])
            k = Mag.of(pt["k"][j]) + Mag.of(nd["k"])
            o = case["ops"][nd["op"]]
            for poly in (o["px"], o["pv"]):
                terms = []
                for c, a_, b_, k_, d_ in poly:
                    m = Mag.of(c)
                    for fac, e in ((xs[j], a_), (vs[j], b_), (k, k_), (inp, d_)):
                        for _ in range(e):
                            m = m * fac
                    terms.append(m)
                terms += [Mag(abs(Fr(c)), 4) for c in o.get("sp", {}).values()]
                if not (msum(terms).ok() and inp.ok()):
                    return False
    return True

def rollnet_exact(case):
    for pt in case["points"]:
        xm = Mag(max(abs(Fr(v)) for v in pt["x"]), 4); zm = Mag(max(abs(Fr(v)) for v in pt["z"]), 4)
        a, k, g = Mag.of(pt["a"]), Mag.of(pt["k"]), Mag.of(pt["g"])
        if not ((a * xm + k * xm + g * zm).ok() and (xm + a * zm).ok()):
            return False
    return True

def lin_matrix(case):
    nn = len(case["nodes"]); M = [[Fr(0)] * (2 * nn) for _ in range(2 * nn)]
    for j, nd in enumerate(case["nodes"]):
        M[2 * j][2 * j] -= Fr(nd["a"]); M[2 * j + 1][2 * j] += Fr(nd["h"]); M[2 * j + 1][2 * j + 1] -= Fr(nd["c"])
        if nd.get("cls", 0) == 0:
            M[2 * j][2 * j + 1] += Fr(nd["g"])
    for s, t, w in case["edges"]:
        M[2 * t][2 * s] += Fr(w)
    return M

def _redraw_lin(rng, case, scale):
    """new node values, edge weights (same topology) and input samples for a linear model"""
    den = rng.choice([1, 2])
    val = lambda lo, hi: str(Fr(rng.randint(lo * den, hi * den) // max(1, scale), den))
    nz = lambda: str(Fr(rng.choice([-3, -2, -1, 1, 2, 3]), den))
    nodes = [dict(nd, a=val(-1, 2), g=val(-1, 1), h=val(-1, 1), c=val(-1, 2), x=val(-2, 2), v=val(-2, 2)) for nd in case["nodes"]]
    edges = [[s_, t_, nz()] for s_, t_, _w in case["edges"]]
    u = [str(Fr(rng.randint(-8, 8), 2)) for _ in case["u"]]
    if u and len(set(u[:case["steps"]])) < 2:
        u[1] = str(Fr(u[0]) + 1)                       # really time dependent
    return dict(case, nodes=nodes, edges=edges, u=u)

def gen_lin_model(rng, with_input, second=False):
    """rows >= 2 (mostly >= 3), store_step 1..3 also with inputs: a wrong step counter after the first stored block shows from row 2 on"""
    while True:
        nn = rng.randint(1, 3)
        pairs = [(s_, t_) for s_ in range(nn) for t_ in range(nn)]
        rng.shuffle(pairs)
        ss = rng.choice([1, 2, 2, 3])
        rows = rng.choice([2, 3, 3, 4])
        steps = rows * ss
        if ss >= 3 and rng.random() < 0.3:
            steps -= 1                                 # not a multiple: ceil(steps/ss) == round(T/dts) still (the row count is C03's subject)
        dt = Fr(1, rng.choice([2, 2, 4]))
        base = dict(kind="traj", nodes=[dict() for _ in range(nn)],
                    edges=[[s_, t_, "1"] for s_, t_ in pairs[:rng.randint(0 if nn == 1 else 1, min(3, len(pairs)))]],
                    dt=str(dt), steps=steps, ss=ss, u=["0"] * (steps + ss + 2) if with_input else [])
        found = [c for c in (_redraw_lin(rng, base, 1 + t // 12) for t in range(36)) if traj_exact(c)]
        if not found or (second and len(found) < 2):
            continue                                   # this step layout cannot be made exact with these magnitudes: draw another layout
        case = found[0]
        if second:                                     # a second parameterisation of the SAME structure, run in the same process
            c2 = found[-1]
            if c2["nodes"] == case["nodes"] and c2["u"] == case["u"]:
                continue
            case["second"] = dict(nodes=c2["nodes"], edges=c2["edges"], u=c2["u"])
        return case          # (a run with ONE stored row and >= 2 outputs raises in run(): np.squeeze; not a backend matter)

def gen_vec_model(rng, with_input, delay):
    """two structural classes x 2-4 units; a dense block (-> matvec) and sparse extra edges (-> indexed assignment)"""
    while True:
        na, nb = rng.randint(2, 4), rng.randint(2, 4)
        val = lambda lo, hi: str(Fr(rng.randint(lo, hi), 2))
        nodes = [dict(cls=0 if j < na else 1, a=val(-1, 3), g=val(-2, 2), h=val(-2, 2), c=val(-1, 2), x=val(-4, 4), v=val(-4, 4)) for j in range(na + nb)]
        A, B = list(range(na)), list(range(na, na + nb))
        src, tgt = (A, B) if rng.random() < 0.5 else (B, A)
        edges = [[s_, t_, str(Fr(rng.choice([-2, -1, 1, 2, 3]), 2))] for s_ in src for t_ in tgt]           # dense block
        extra = [(s_, t_) for s_ in tgt for t_ in src] + [(s_, t_) for s_ in A for t_ in A] + [(s_, t_) for s_ in B for t_ in B]
        rng.shuffle(extra)
        edges += [[s_, t_, str(Fr(rng.choice([-3, -1, 1, 2]), 2))] for s_, t_ in extra[:rng.randint(1, 3)]]  # sparse
        dt = Fr(1, rng.choice([2, 4])); ss = rng.choice([1, 1, 2]); steps = rng.choice([2, 3, 4]) * ss
        u = [str(Fr(rng.randint(-4, 4), 2)) for _ in range(steps + ss + 2)] if with_input else []
        case = dict(kind="traj", nodes=nodes, edges=edges, dt=str(dt), steps=steps, ss=ss, u=u)
        if delay:
            s_ = rng.choice(tgt); t_ = rng.choice(src)
            case["delay"] = [s_, t_, str(Fr(rng.choice([-3, -1, 1, 3]), 2)), rng.choice([2, 3])]
            case["steps"] = steps = 6 * ss
        if traj_exact(case):
            return case

def _gen_pop_model(rng):
    val = lambda lo, hi, den=2: str(Fr(rng.randint(lo, hi), den))
    sizes = [rng.randint(2, 4), rng.randint(2, 4)]
    r = rng.random()
    if r < 0.45:            # one-unit populations: 1-row and 1-column coupling / weight matrices (raised before fix_D92 / D20 / D25)
        sizes[rng.randrange(2)] = 1
        if r < 0.12:
            sizes = [1, 1]
    pops = [dict(x=[val(-4, 4) for _ in range(n)], eta=[val(-2, 2) for _ in range(n)], a=[val(-1, 3) for _ in range(n)]) for n in sizes]
    mat = lambda nt, ns: [[str(Fr(rng.choice([-2, -1, 0, 0, 1, 2, 3]), 2)) for _ in range(ns)] for _ in range(nt)]
    k = rng.choice([1, 2])
    first = rng.randrange(2)
    conns = [dict(s=first, t=1 - first, kind=0, W=mat(sizes[1 - first], sizes[first])),
             dict(s=1 - first, t=first, kind=k, W=mat(sizes[first], sizes[1 - first]))]
    if rng.random() < 0.3:
        conns[0]["kind"] = rng.choice([1, 2])
    ss = rng.choice([1, 1, 2])
    return dict(kind="pop", pops=pops, conns=conns, dt=str(Fr(1, rng.choice([2, 4]))), steps=rng.choice([2, 3]) * ss, ss=ss)

def _gen_rollnet(rng):
    N = rng.randint(2, 6)
    sh = lambda: rng.choice([-1, -1, -2, 1, 2, -N, N + 1, -(N + 1), rng.randint(-7, 7)])
    vec = lambda: [dy(rng, -8, 8, 4) for _ in range(N)]
    return dict(kind="rollnet", n=N, shifts=[sh(), sh(), sh()],
                points=[dict(x=vec(), z=vec(), a=dy(rng, -4, 4, 2), k=dy(rng, -4, 4, 2), g=dy(rng, -4, 4, 2)) for _ in range(3)])

def _until(gen, ok):
    def g(rng, *a):
        while True:
            c = gen(rng, *a)
            if ok(c):
                return c
    return g

gen_pop_model = _until(_gen_pop_model, pop_exact)          # resample until float64 arithmetic is exact by construction (see Mag)
gen_net_model = _until(_gen_net_model, net_exact)
gen_rollnet = _until(_gen_rollnet, rollnet_exact)

DEC_DT = ["0.0001", "0.001", "0.01", "0.025", "0.05", "0.1", "0.3"]

def gen_cadence(rng, want_inexact):
    """decimal step size x integer multiple 1..40; want_inexact: the float quotient float(dts)/float(dt) is not the integer itself"""
    from decimal import Decimal
    while True:
        dt = rng.choice(DEC_DT); m = rng.randint(1, 40); rows = rng.randint(3, 4)
        dts = str(Decimal(dt) * m); T = str(Decimal(dt) * m * rows)
        if (float(dts) / float(dt) != float(m)) != want_inexact:
            continue
        steps = m * rows
        return dict(kind="cadence", dt=dt, dts=dts, T=T, m=m, rows=rows, u=[rng.randint(1, 3) for _ in range(steps + m + 2)])

def cadence_class(case):
    """the code rounds FLOAT quotients; the model uses the exact rationals.  -> (agree?, float cadence, exact cadence)"""
    import numpy as np
    dt, dts, T = float(case["dt"]), float(case["dts"]), float(case["T"])
    fl = (int(np.round(T / dt)), int(np.round(T / dts)), int(np.round(dts / dt)))
    ex = (case["m"] * case["rows"], case["rows"], case["m"])
    return fl == ex, fl, ex

def gen_hooks(rng, backend):
    nv = rng.randint(1, 4)
    v = list(range(1, rng.randint(2, 7)))
    rng.shuffle(v)
    return dict(kind="hooks", backend=backend, ints=[rng.randint(0, 40) for _ in range(4)],
                ranges=[[a, a + rng.randint(-2, 9)] for a in (rng.randint(2, 30) for _ in range(4))],
                vars=[rng.randint(0, 20) for _ in range(nv)], calls=[rng.randrange(nv) for _ in range(rng.randint(0, 7))],
                roll=dict(v=v, k=rng.randint(-9, 9)))

def generate(ctx):
    rng = ctx.rng
    q = ctx.tier == "quick"
    cases = []
    # interp
    n_int, n_int_f = (10, 2) if q else (60, 8)
    for i in range(n_int):
        cases.append(gen_interp(rng, fortran=i < n_int_f, big=(i % 5 == 4)))
    # polynomial networks
    n_net, n_net_f = (10, 2) if q else (120, 14)
    for i in range(n_net):
        m = gen_net_model(rng, i < n_net_f and i % 2 == 0)      # long right-hand sides on Fortran models: continuation lines (break_line)
        for b in PY_BACKENDS + (["fortran"] if i < n_net_f else []):
            cases.append(dict(m, backend=b, precision="float64", mid=f"net{i}"))
        if i % 3 == 0:
            for b in PY_BACKENDS:
                cases.append(dict(m, backend=b, precision="float32", mid=f"net{i}", support=True))
        if i % 2 == 0:                 # precision / compile sequences in one process: float64 function, later float32 and default-precision compiles
            for _ in range(40):
                mf = dict(m, points=fine_points(rng, m))
                if net_exact(mf) and needs_double(mf):
                    for b in PY_BACKENDS:
                        cases.append(dict(mf, backend=b, precision="float64", mid=f"netseq{i}", then=rng.choice([["float32"], [None], ["float32", "float64", None]])))
                    break
        if any("sp" in o for o in m["ops"].values()):      # transcendental values away from 0: tolerance, support only
            mw = dict(m, points=[dict(pt, w=dy(rng, -8, 8, 4)) for pt in m["points"]])
            for b in PY_BACKENDS + (["fortran"] if i < n_net_f else []):
                cases.append(dict(mw, backend=b, precision="float64", mid=f"netw{i}", support=True))
    # trajectories
    n_tr, n_tr_f = (10, 2) if q else (140, 12)
    for i in range(n_tr):
        m = gen_lin_model(rng, with_input=(i % 2 == 0), second=(i % 3 != 2))
        nn = len(m["nodes"])
        for b in PY_BACKENDS + (["fortran"] if i < n_tr_f else []):
            for sv in SOLVERS[b]:
                variants = [(False, True)] if b == "fortran" else [(rng.random() < 0.5, True)]
                if b != "fortran" and nn >= 2 and i % 3 == 1:
                    variants.append((True, False))          # returned-array convention needs vector-valued state variables
                for vec, ipv in variants:
                    cases.append(dict(m, backend=b, solver=sv, vectorize=vec, ipv=ipv, precision="float64", mid=f"lin{i}"))
    # vectorized circuits: two classes, dense + sparse edge groups; every other one with an extrinsic input
    n_vec, n_vec_f = (6, 1) if q else (60, 6)
    for i in range(n_vec):
        m = gen_vec_model(rng, with_input=(i % 2 == 1), delay=False)
        for b in PY_BACKENDS:
            for sv in SOLVERS[b]:
                cases.append(dict(m, backend=b, solver=sv, vectorize=True, ipv=(i % 3 != 2), precision="float64", mid=f"vec{i}"))
        for b in ["default"] + (["fortran"] if i < n_vec_f else []):
            cases.append(dict(m, backend=b, solver="euler", vectorize=False, ipv=True, precision="float64", mid=f"vec{i}"))
    # roll-based delay buffer (no Spec here: the delay semantics is C09's subject; exact agreement across backends AND across vectorize on/off (possible since fix_D70);
    # jax must refuse)
    n_del, n_del_f = (3, 1) if q else (24, 4)
    for i in range(n_del):
        m = gen_vec_model(rng, with_input=False, delay=True)
        for b, vec in [("default", True), ("torch", True), ("jax", True), ("default", False), ("torch", False)] + ([("fortran", False)] if i < n_del_f else []):
            cases.append(dict(m, backend=b, solver="euler", vectorize=vec, ipv=True, precision="float64", mid=f"del{i}", nospec=True))
    # population circuits: matvec + coupling template (wsum / broadcast helpers)
    for i in range(7 if q else 60):
        m = gen_pop_model(rng)
        for b in PY_BACKENDS:
            cases.append(dict(m, backend=b, mid=f"pop{i}"))
    # user-level roll equations with positive and negative literal shifts (all four backends)
    n_roll, n_roll_f = (4, 2) if q else (40, 16)
    for i in range(n_roll):
        m = gen_rollnet(rng)
        for b in PY_BACKENDS + (["fortran"] if i < n_roll_f else []):
            cases.append(dict(m, backend=b, mid=f"roll{i}"))
    # non-dyadic step sizes: the number of updates per stored row on every fixed-step loop
    n_cad, n_cad_f = (10, 1) if q else (80, 6)
    for i in range(n_cad):
        m = gen_cadence(rng, want_inexact=(i % 2 == 0))
        for b in PY_BACKENDS + (["fortran"] if i < n_cad_f else []):
            for sv in SOLVERS[b]:
                cases.append(dict(m, backend=b, solver=sv, vectorize=(b != "fortran" and i % 3 == 0), mid=f"cad{i}"))
    # numeric literals in the equation text: float literals and rational constants (dyadic: exact; otherwise tolerance, support)
    DY_C, DY_Q = ["0.125", "0.75", "2.5", "1.5e0", "0.375"], [("7/2", "7/2"), ("2**(-3)", "1/8"), ("5/4", "5/4"), ("13/8", "13/8"), ("3/2", "3/2")]
    ND_C, ND_Q = ["0.1", "0.3", "1.5e-1", "0.7"], [("1/3", "1/3"), ("7/2", "7/2"), ("2/7", "2/7"), ("1/10", "1/10")]
    for i in range(3 if q else 12):
        c = rng.choice(DY_C); qt, qv = rng.choice(DY_Q); ks = [str(Fr(2) ** rng.randint(-3, 3)) for _ in range(2)]
        for b in PY_BACKENDS + ["fortran"]:
            cases.append(dict(kind="lits", backend=b, mid=f"lit{i}", c=c, q=qt, qval=qv, ks=ks))
    for i in range(2 if q else 8):
        c = rng.choice(ND_C); qt, qv = rng.choice(ND_Q); ks = [str(Fr(2) ** rng.randint(-3, 3)) for _ in range(2)]
        for b in PY_BACKENDS + ["fortran"]:
            cases.append(dict(kind="lits", backend=b, mid=f"litn{i}", c=c, q=qt, qval=qv, support=True, ks=ks))
    # named constants: pi on every backend, bit for bit
    for b in PY_BACKENDS + ["fortran"]:
        cases.append(dict(kind="consts", backend=b, mid="consts", ks=[str(Fr(2) ** rng.randint(-6, 6)) for _ in range(3)]))
        # `E` on every backend (the Fortran module declares it since fix D111)
        cases.append(dict(kind="consts", const="E", backend=b, mid="constsE", ks=[str(Fr(2) ** rng.randint(-6, 6)) for _ in range(2)]))
    # hooks
    for b in ["default", "torch", "jax", "fortran", "onebased"]:
        for _ in range(3 if q else 20):
            cases.append(gen_hooks(rng, b))
    # adaptive support stream
    for i in range(2 if q else 8):
        m = gen_lin_model(rng, with_input=False)
        m["nodes"][0]["a"] = str(Fr(rng.choice([30, 40, 60])))
        for b in PY_BACKENDS:
            cases.append(dict(m, stiff=True, backend=b, solver="scipy", vectorize=bool(i % 2), ipv=True, precision="float64", mid=f"stiff{i}",
                              support=True, steps=4, ss=1, dt="1/2", kwargs=dict(method="RK45", rtol=1e-7, atol=1e-10)))
        cases.append(dict(m, stiff=True, backend="jax", solver="diffrax", vectorize=bool(i % 2), ipv=True, precision="float64", mid=f"stiff{i}",
                          support=True, steps=4, ss=1, dt="1/2", kwargs=dict(rtol=1e-8, atol=1e-11)))
        md = gen_vec_model(rng, with_input=False, delay=True)
        for b in ["default", "torch", "jax"]:                  # delayed edge under an adaptive solver: DDEHistory path, torch _solve_scipy_dde
            cases.append(dict(md, backend=b, solver="scipy", vectorize=False, ipv=True, precision="float64", mid=f"dde{i}", support=True,
                              steps=8, ss=1, dt="1/4", kwargs=dict(rtol=1e-8, atol=1e-11)))
    return cases

def nontrivial(case):
    k = case["kind"]
    if k == "interp":
        g = [Fr(x) for x in case["grid"]]
        return any(g[0] < Fr(q) < g[-1] and Fr(q) not in g for q in case["queries"])
    if k == "net":
        return bool(case["edges"]) and any(sum(m[1:]) >= 2 for o in case["ops"].values() for m in o["px"] + o["pv"])
    if k == "pop":
        return any(c["kind"] for c in case["conns"]) and max(len(p["x"]) for p in case["pops"]) >= 2
    if k == "rollnet":
        return any(sh % case["n"] != 0 for sh in case["shifts"])
    if k == "consts":
        return True
    if k == "cadence":
        return case["m"] >= 2
    if k == "lits":
        return True
    if k == "traj":
        return case["steps"] >= 2 and (case["backend"] != "default" or case["solver"] != "euler" or case["vectorize"])
    if k == "hooks":
        return case["backend"] in ("fortran", "onebased") or case["roll"]["k"] % max(1, len(case["roll"]["v"])) != 0
    return False

# =============================================================================================== model side
HEADER = """From Coq Require Import List ZArith QArith Qcanon Bool Arith.
From PV Require Import History Corr Backends BackendInterp.
Import ListNotations.
Open Scope nat_scope.
Definition qeq (a b : Qc) : bool := Qeq_bool (this a) (this b).
Fixpoint rows_eqb (a b : list row) : bool :=
  match a, b with [] , [] => true | x :: a', y :: b' => row_eqb x y && rows_eqb a' b' | _, _ => false end.
(* interp *)
Definition imodel (w : nat) := match w with 0 => interp_np | 1 => interp_torch | _ => interp_fortran end.
Definition i_okI (e : list Qc * list Qc * Qc * nat * Qc) := let '(xs, ys, q, w, o) := e in qeq (imodel w xs ys q) o.
Definition i_okS (e : list Qc * list Qc * Qc * nat * Qc) := let '(xs, ys, q, w, o) := e in qeq (interp_np xs ys q) o.
Definition i_guard (e : list Qc * list Qc * Qc * nat * Qc) := let '(xs, ys, q, w, o) := e in increasingb xs && (2 <=? length xs) && (length xs =? length ys).
Definition r_okI (e : Qc * list Qc * list row * row) := let '(q, xs, m, o) := e in row_eqb (interp_rows q xs m) o.
Definition r_okS (e : Qc * list Qc * list row * row) := let '(q, xs, m, o) := e in row_eqb (interp_rows_spec q xs m) o.
(* networks *)
Definition flat (l : list (Qc * Qc)) : row := flat_map (fun p => [fst p; snd p]) l.
Definition n_ok (e : pnet * list (Qc * Qc) * row) := let '(net, st, o) := e in row_eqb (flat (net_deriv net st)) o.
Definition mono5 c a b k d := {| coef := c; ex := a; ev := b; ek := k; ei := d |}.
(* trajectories *)
Definition t_okI (e : backend * solver * linsys * Qc * nat * nat * row * list row) :=
  let '(b, sv, s, dt, steps, ss, y0, o) := e in rows_eqb (run_impl b sv s dt steps ss y0) o.
Definition t_okS (e : backend * solver * linsys * Qc * nat * nat * row * list row) :=
  let '(b, sv, s, dt, steps, ss, y0, o) := e in rows_eqb (run_spec sv s dt steps ss y0) o.
Definition t_guard (e : backend * solver * linsys * Qc * nat * nat * row * list row) :=
  let '(b, sv, s, dt, steps, ss, y0, o) := e in heun_time_free b sv s.
(* populations *)
Definition p_okI (e : backend * popsys * Qc * nat * nat * row * list row) :=
  let '(b, s, dt, steps, ss, y0, o) := e in rows_eqb (pop_run_impl b s dt steps ss y0) o.
Definition p_okS (e : backend * popsys * Qc * nat * nat * row * list row) :=
  let '(b, s, dt, steps, ss, y0, o) := e in rows_eqb (pop_run_spec s dt steps ss y0) o.
(* user-level roll equations *)
Definition pair_eqb (a b : row * row) := row_eqb (fst a) (fst b) && row_eqb (snd a) (snd b).
Definition l_okI (e : backend * (Qc * Qc * Qc) * (Z * Z * Z) * row * row * (row * row)) :=
  let '(b, (a, k, g), (n1, n2, n3), x, z, o) := e in pair_eqb (roll_net_deriv (roll_of b) a k g n1 n2 n3 x z) o.
Definition l_okS (e : backend * (Qc * Qc * Qc) * (Z * Z * Z) * row * row * (row * row)) :=
  let '(b, (a, k, g), (n1, n2, n3), x, z, o) := e in pair_eqb (roll_net_deriv roll a k g n1 n2 n3 x z) o.
(* cadence: rows scaled by 2/dt are integers; the model runs with dt = 1 *)
Definition k_rows (l : list row) : list Qc := map (fun r => Qcmult two (nth 0 r (Q2Qc 0))) l.
Definition k_sys (u : list Qc) : linsys := {| mat := [[Q2Qc 0]]; inw := [Q2Qc 1]; usamp := u |}.
Definition k_okI (e : backend * solver * list Qc * nat * nat * list Qc) :=
  let '(b, sv, u, steps, ss, o) := e in row_eqb (k_rows (run_impl b sv (k_sys u) 1%Qc steps ss [Q2Qc 0])) o.
Definition k_okS (e : backend * solver * list Qc * nat * nat * list Qc) :=
  let '(b, sv, u, steps, ss, o) := e in row_eqb (k_rows (run_spec sv (k_sys u) 1%Qc steps ss [Q2Qc 0])) o.
Definition k_guard (e : backend * solver * list Qc * nat * nat * list Qc) := let '(b, sv, u, steps, ss, o) := e in heun_time_free b sv (k_sys u).
(* literals *)
Definition lt_ok (e : Qc * Qc * Qc * Qc) := let '(c, k, q0, o) := e in qeq (Qcplus (Qcmult c k) q0) o.
(* named constants *)
Definition c_okI (e : backend * Qc * Qc) := let '(b, k, o) := e in qeq (Qcmult k (backend_pi b)) o.
Definition c_okS (e : backend * Qc * Qc) := let '(b, k, o) := e in qeq (Qcmult k pi_f64) o.
Definition ce_ok (e : backend * Qc * Qc) := let '(b, k, o) := e in qeq (Qcmult k e_f64) o.
Definition c_guard (e : backend * Qc * Qc) := let '(b, k, o) := e in fortran_pi_free b true.
(* cross-backend agreement without a Spec (delay buffers) *)
Definition x_ok (e : list row * list row) := rows_eqb (fst e) (snd e).
(* hooks: (base, ints, rendered ints, ranges, rendered ranges, var values, calls, values after, roll v, k, observed, fortran shift) *)
Definition natl_eqb (a b : list nat) := (length a =? length b) && forallb (fun p => fst p =? snd p) (combine a b).
Definition zl_eqb (a b : list Z) := (length a =? length b) && forallb (fun p => Z.eqb (fst p) (snd p)) (combine a b).
Definition h_idx (e : nat * list nat * list nat) := let '(base, is, os) := e in natl_eqb (map (render_idx base) is) os && natl_eqb (map (lang_elem base) os) is.
Definition h_rngI (e : nat * list (nat * nat) * list (nat * nat)) := let '(base, rs, os) := e in
  forallb (fun p => let '((a, b), (lo, hi)) := p in (fst (render_range base a b) =? lo) && (snd (render_range base a b) =? hi)) (combine rs os).
Definition h_rngS (e : nat * list (nat * nat) * list (nat * nat)) := let '(base, rs, os) := e in
  forallb (fun p => let '((a, b), (lo, hi)) := p in natl_eqb (lang_range base lo hi) (seq a (b - a))) (combine rs os).
Definition h_var (e : Z * list Z * list nat * list Z) := let '(start, vs, calls, os) := e in
  zl_eqb (map (fun i => vals (process_vars start (fresh_state (fun j => nth j vs 0%Z)) calls) i) (seq 0 (length vs))) os.
Definition h_roll (e : list nat * Z * list nat) := let '(v, k, o) := e in natl_eqb (roll v k) o.
Definition h_shiftI (e : list nat * Z * Z) := let '(v, k, s) := e in Z.eqb s (- k).
Definition h_shiftS (e : list nat * Z * Z) := let '(v, k, s) := e in natl_eqb (cshift v s) (roll v k).
"""

def crow(v):
    return clist([cq(x) for x in v])

WHICH = {"np": 0, "jnp": 0, "m_default": 0, "m_jax": 0, "torch_src": 1, "m_torch": 1, "m_fortran": 2}
BK = {"default": "BDefault", "torch": "BTorch", "jax": "BJax", "fortran": "BFortran"}

def cnet(case, ks):
    def cpoly(p):
        return clist([f"mono5 {cq(m[0])} {m[1]} {m[2]} {m[3]} {m[4]}" for m in p])
    AT0 = {"sigmoid": Fr(1, 2), "tanh": Fr(0), "exp": Fr(1), "cos": Fr(1), "sin": Fr(0)}       # Spec of the registry functions at 0
    def cpx(o):
        c0 = sum((Fr(c) * AT0[fn] for fn, c in o.get("sp", {}).items()), Fr(0))
        return cpoly(o["px"] + ([[str(c0), 0, 0, 0, 0]] if o.get("sp") else []))
    nodes = clist([f"{{| px := {cpx(case['ops'][nd['op']])}; pv := {cpoly(case['ops'][nd['op']]['pv'])}; kval := {cq(k)} |}}"
                   for nd, k in zip(case["nodes"], ks)])
    edges = clist([f"({s}, {t}, {cq(w)})" for s, t, w in case["edges"]])
    return f"{{| pnodes := {nodes}; pedges := {edges} |}}"

def clin(case):
    M = lin_matrix(case)
    inw = ["1" if (i == 0 and case["u"]) else "0" for i in range(len(M))]
    return (f"{{| mat := {clist([crow(r) for r in M])}; inw := {crow(inw)}; usamp := {crow(case['u'])} |}}")

def entries(case, out):
    """-> list of (stream, term).  stream in I (interp), R (rows), N, T, H1..H6"""
    k = case["kind"]; es = []
    if k == "interp":
        for route, res in out.items():
            if route in WHICH:
                for q, o in zip(case["queries"], res):
                    es.append(("I", f"({crow(case['grid'])}, {crow(case['vals'])}, {cq(q)}, {WHICH[route]}, {cq(o)})"))
            else:
                m = clist([crow(r) for r in case["matrix"]])
                for q, o in zip(case["queries"], res):
                    es.append(("R", f"({cq(q)}, {crow(case['grid'])}, {m}, {crow(o)})"))
    elif k == "net":
        for pt, o in zip(case["points"], out["outs"]):
            st = clist([f"({cq(x)}, {cq(v)})" for x, v in pt["state"]])
            es.append(("N", f"({cnet(case, pt['k'])}, {st}, {crow(o)})"))
    elif k == "cadence":
        agree, fl, ex = cadence_class(case)
        if agree and "rows2" in out:        # the model's cadence is the exact-rational one; compared only where the float quotients round to it
            sv = "Euler" if case["solver"] == "euler" else "Heun"
            es.append(("K", f"({BK[case['backend']]}, {sv}, {crow([str(u) for u in case['u']])}, {ex[0]}, {ex[2]}, {crow([str(v) for v in out['rows2']])})"))
    elif k == "lits":
        from decimal import Decimal
        for kk, o in zip(case["ks"], out["outs"]):
            es.append(("LT", f"({cq(Fr(Decimal(case['c'])))}, {cq(kk)}, {cq(case['qval'])}, {cq(o)})"))
    elif k == "consts":
        for kk, o in zip(case["ks"], out["outs"]):
            es.append(("C" if case.get("const", "pi") == "pi" else "CE", f"({BK[case['backend']]}, {cq(kk)}, {cq(o)})"))
    elif k == "rollnet":
        n1, n2, n3 = case["shifts"]
        for pt, o in zip(case["points"], out["outs"]):
            es.append(("L", f"({BK[case['backend']]}, ({cq(pt['a'])}, {cq(pt['k'])}, {cq(pt['g'])}), ({cz(n1)}, {cz(n2)}, {cz(n3)}), "
                            f"{crow(pt['x'])}, {crow(pt['z'])}, ({crow(o[0])}, {crow(o[1])}))"))
    elif k == "pop":
        if "rows" in out:
            sysm = (f"{{| psizes := {clist([str(len(p['x'])) for p in case['pops']])}; petas := {clist([crow(p['eta']) for p in case['pops']])}; "
                    f"pavals := {clist([crow(p['a']) for p in case['pops']])}; pconns := " +
                    clist([f"{{| csrc := {c['s']}; ctgt := {c['t']}; cW := {clist([crow(r) for r in c['W']])}; ckind := {c['kind']} |}}" for c in case["conns"]]) + " |}")
            y0 = crow([v for p in case["pops"] for v in p["x"]])
            es.append(("P", f"({BK[case['backend']]}, {sysm}, {cq(case['dt'])}, {case['steps']}, {case['ss']}, {y0}, {clist([crow(r) for r in out['rows']])})"))
    elif k == "traj" and (case.get("nospec") or "rows" not in out):
        pass
    elif k == "traj":
        y0 = crow([nd[kk] for nd in case["nodes"] for kk in ("x", "v")])
        sv = "Euler" if case["solver"] == "euler" else "Heun"
        es.append(("T", f"({BK[case['backend']]}, {sv}, {clin(case)}, {cq(case['dt'])}, {case['steps']}, {case['ss']}, {y0}, "
                        f"{clist([crow(r) for r in out['rows']])})"))
        if "rows2" in out:
            c2 = dict(case, **case["second"])
            y2 = crow([nd[kk] for nd in c2["nodes"] for kk in ("x", "v")])
            es.append(("T", f"({BK[case['backend']]}, {sv}, {clin(c2)}, {cq(case['dt'])}, {case['steps']}, {case['ss']}, {y2}, "
                            f"{clist([crow(r) for r in out['rows2']])})"))
    elif k == "hooks":
        base = out["start"]
        pr = lambda l: clist([f"({a}, {b})" for a, b in l])
        zs = lambda l: clist([cz(x) for x in l])
        ns = lambda l: clist([str(int(x)) for x in l])
        nonneg = [(r, o) for r, o in zip(case["ranges"], out["ranges"])]
        es.append(("H1", f"({base}, {ns(case['ints'])}, {ns(out['ints'])})"))
        es.append(("H1", f"({base}, {ns(case['ints'])}, {ns(out['int_strs'])})"))
        es.append(("H1", f"(0, {ns(case['ints'])}, {ns(out['noapply'])})"))
        es.append(("H1", f"({base}, {ns(case['ints'][:1])}, {ns([out['after_noapply']])})"))
        es.append(("H2", f"({base}, {pr([r for r, _ in nonneg])}, {pr([o for _, o in nonneg])})"))
        if "str_ranges" in out:
            es.append(("H2", f"({base}, {pr(case['ranges'])}, {pr(out['str_ranges'])})"))
        es.append(("H3", f"({cz(base)}, {zs(case['vars'])}, {ns(case['calls'])}, {zs(out['vars'])})"))
        if "roll" in out:
            es.append(("H4", f"({ns(case['roll']['v'])}, {cz(case['roll']['k'])}, {ns(out['roll'])})"))
        else:
            es.append(("H5", f"({ns(case['roll']['v'])}, {cz(case['roll']['k'])}, {cz(out['shift'])})"))
    return es

STREAMS = {  # stream -> (okI, okS, guard or None)
    "I": ("i_okI", "i_okS", "i_guard"), "R": ("r_okI", "r_okS", None), "N": ("n_ok", "n_ok", None),
    "T": ("t_okI", "t_okS", "t_guard"), "P": ("p_okI", "p_okS", None), "X": ("x_ok", "x_ok", None), "L": ("l_okI", "l_okS", None), "C": ("c_okI", "c_okS", "c_guard"), "K": ("k_okI", "k_okS", "k_guard"), "LT": ("lt_ok", "lt_ok", None), "CE": ("ce_ok", "ce_ok", None), "H1": ("h_idx", "h_idx", None), "H2": ("h_rngI", "h_rngS", None),
    "H3": ("h_var", "h_var", None), "H4": ("h_roll", "h_roll", None), "H5": ("h_shiftI", "h_shiftS", None)}

def model_compare(ctx, cases, outs, tag):
    """-> (badI, badS, guard_false) sets of case indices"""
    per = {s: [] for s in STREAMS}
    for ci, (c, o) in enumerate(zip(cases, outs)):
        for s, term in entries(c, o):
            per[s].append((ci, term))
    groups = {}
    for ci, (c, o) in enumerate(zip(cases, outs)):
        if c["kind"] == "traj" and c.get("nospec") and "rows" in o:
            groups.setdefault(c["mid"], []).append(ci)
    for grp in groups.values():
        ref = grp[0]
        for ci in grp[1:]:
            per["X"].append((ci, f"({clist([crow(r) for r in outs[ref]['rows']])}, {clist([crow(r) for r in outs[ci]['rows']])})"))
    badI, badS, gfalse = set(), set(), set()
    shard = 150
    for s, lst in per.items():
        okI, okS, guard = STREAMS[s]
        for st in range(0, len(lst), shard):
            part = lst[st:st + shard]
            body = ("Definition es := " + clist([t for _, t in part]) + ".\n"
                    f"Eval vm_compute in (mismatches {okI} es).\nEval vm_compute in (mismatches {okS} es).\n"
                    + (f"Eval vm_compute in (mismatches {guard} es).\n" if guard else ""))
            ls = parse_nat_lists(coq_eval(ctx, f"c02_{tag}_{s}_{st}", HEADER, body))
            assert len(ls) == (3 if guard else 2), ls
            badI |= {part[i][0] for i in ls[0]}; badS |= {part[i][0] for i in ls[1]}
            if guard:
                gfalse |= {part[i][0] for i in ls[2]}
    return badI, badS, gfalse

def structural_problems(cases, outs):
    """things that are not numbers: the returned argument names must be the same set on every backend for one model"""
    bad = set()
    by_mid = {}
    for i, (c, o) in enumerate(zip(cases, outs)):
        if c["kind"] != "net" or not isinstance(o, dict) or "names" not in o:
            continue
        by_mid.setdefault((c["mid"], c["precision"]), []).append(i)
    cad = {}
    for i, (c, o) in enumerate(zip(cases, outs)):
        if c["kind"] == "cadence" and isinstance(o, dict) and "rows2" in o:
            if o["resid"] > 1e-6 or o["n"] != c["rows"]:
                bad.add(i)                          # not (integer sums) * dt, or a wrong number of stored rows
            cad.setdefault(c["mid"], []).append(i)
    for grp in cad.values():
        ref = grp[0]
        for i in grp[1:]:
            if outs[i]["index"] != outs[ref]["index"] or outs[i]["n"] != outs[ref]["n"]:
                bad.add(i)                          # the time axis must be the same on every backend, bit for bit
        for sv in ("euler", "heun"):                # same solver: the same updates per stored row on every backend (jax heun aside: D16)
            same = [i for i in grp if cases[i]["solver"] == sv and not (sv == "heun" and cases[i]["backend"] == "jax")]
            for i in same[1:]:
                if outs[i]["rows2"] != outs[same[0]]["rows2"]:
                    bad.add(i)
    for grp in by_mid.values():
        ref = outs[grp[0]]
        for i in grp[1:]:
            if outs[i]["names"] != ref["names"] or any(outs[i]["declared"][n] != ref["declared"][n] for n in ref["names"]) or outs[i]["ny"] != ref["ny"]:
                bad.add(i)
    return bad

def support_compare(ctx, cases, outs):
    """tolerance streams: float32 function values against the float64 run of the same model/backend; adaptive trajectories across
    backends.  Never decides the property; an exception raised by one backend alone is reported through `crashed`."""
    notes, lone = {}, set()
    f64 = {(c["mid"], c["backend"]): o for c, o in zip(cases, outs) if c["kind"] == "net" and c["precision"] == "float64" and "outs" in o and not c.get("support")}
    n32 = worst32 = 0
    for c, o in zip(cases, outs):
        if c["kind"] == "net" and c["precision"] == "float32" and "outs" in o and (c["mid"], c["backend"]) in f64:
            for r32, r64 in zip(o["outs"], f64[(c["mid"], c["backend"])]["outs"]):
                for a, b in zip(r32, r64):
                    n32 += 1
                    worst32 = max(worst32, abs(float(Fr(a)) - float(Fr(b))) / max(1.0, abs(float(Fr(b)))))
    lg, worstl = {}, 0.0
    for c, o in zip(cases, outs):
        if c["kind"] == "lits" and c.get("support") and isinstance(o, dict) and "outs" in o:
            lg.setdefault(c["mid"], []).append(o["outs"])
    for grp in lg.values():
        for other in grp[1:]:
            for a_, b_ in zip(grp[0], other):
                worstl = max(worstl, abs(a_ - b_) / max(1e-300, abs(a_)))
    notes["literal_models_nondyadic"] = len(lg); notes["literal_max_rel_diff"] = worstl; notes["literal_tolerance"] = 1e-12
    cad = [c for c in cases if c["kind"] == "cadence"]
    notes["cadence_cases"] = len(cad)
    notes["cadence_float_quotient_not_integral"] = sum(1 for c in cad if float(c["dts"]) / float(c["dt"]) != float(c["m"]))
    notes["cadence_float_vs_exact_rounding_disagree"] = sum(1 for c in cad if not cadence_class(c)[0])      # would be a finding about the code
    notes["float32_values"] = n32; notes["float32_max_rel_err"] = worst32; notes["float32_tolerance"] = 1e-5
    wg, worstw = {}, 0.0
    for c, o in zip(cases, outs):
        if c["kind"] == "net" and c["mid"].startswith("netw") and "outs" in o:
            wg.setdefault(c["mid"], []).append(o["outs"])
    for grp in wg.values():
        for other in grp[1:]:
            for ra, rb in zip(grp[0], other):
                for a, b in zip(ra, rb):
                    worstw = max(worstw, abs(float(Fr(a)) - float(Fr(b))) / max(1.0, abs(float(Fr(a)))))
    notes["transcendental_models"] = len(wg); notes["transcendental_max_rel_diff"] = worstw; notes["transcendental_tolerance"] = 1e-12
    groups = {}
    for i, (c, o) in enumerate(zip(cases, outs)):
        if c["kind"] == "traj" and c.get("support"):
            groups.setdefault(c["mid"], []).append(i)
    lgi = {}
    for i, (c, o) in enumerate(zip(cases, outs)):
        if c["kind"] == "lits" and c.get("support"):
            lgi.setdefault(c["mid"], []).append(i)
    for idx in lgi.values():
        okl = [i for i in idx if isinstance(outs[i], dict) and "outs" in outs[i]]
        if okl and len(okl) < len(idx):
            lone |= set(idx) - set(okl)
    worst = 0.0
    for mid, idx in groups.items():
        ok = [i for i in idx if "rows" in outs[i]]
        if ok and len(ok) < len(idx):
            lone |= set(idx) - set(ok)                 # integrates on one backend, raises on another
        for i in ok[1:]:
            for ra, rb in zip(outs[ok[0]]["rows"], outs[i]["rows"]):
                for a, b in zip(ra, rb):
                    worst = max(worst, abs(a - b) / max(1e-3, abs(a)))
    notes["adaptive_groups"] = len(groups); notes["adaptive_max_rel_diff"] = worst; notes["adaptive_tolerance"] = 1e-4
    return notes, lone

# =============================================================================================== check
def run_cases(ctx, cases, tag):
    import time as _t
    t0 = _t.time()
    def cost(c):
        if c.get("backend") == "fortran" or "m_fortran" in c.get("routes", []):
            return 6
        if c["kind"] == "interp":
            return 3
        return 2 if c.get("backend") == "jax" else 1
    order = sorted(range(len(cases)), key=lambda i: -cost(cases[i]))        # heavy cases first, dealt round-robin over the workers
    res = run_impl(ctx, "c02", "impl", [cases[i] for i in order], nworkers=min(int(os.environ.get("VERIF_JOBS", "6")), 8), per_case_timeout=240)
    outs = [None] * len(cases)
    for i, r in zip(order, res):
        outs[i] = r
    t1 = _t.time()
    def expected_raise(c):
        if c["kind"] == "traj" and c.get("delay") and c["backend"] == "jax":
            return "NotImplementedError"           # SUPPORTS_EDGE_DELAY_BUFFER = False: jax refuses the ring-buffer path
        return None
    crashed = {i for i, r in enumerate(outs) if isinstance(r, dict) and ("err" in r or ("raised" in r and r["raised"] != expected_raise(cases[i])))}
    crashed |= {i for i, r in enumerate(outs) if isinstance(r, dict) and "rows" in r and expected_raise(cases[i])}
    deciding = [i for i in range(len(cases)) if i not in crashed and not cases[i].get("support")]
    badI, badS, gfalse = model_compare(ctx, [cases[i] for i in deciding], [outs[i] for i in deciding], tag)
    badI = {deciding[i] for i in badI}; badS = {deciding[i] for i in badS}; gfalse = {deciding[i] for i in gfalse}
    sp = structural_problems(cases, outs)
    badI |= sp; badS |= sp
    notes, lone = support_compare(ctx, cases, outs)
    if tag == "main":
        ctx.note(f"timing: real code {t1 - t0:.0f}s, Coq evaluation {_t.time() - t1:.0f}s")
    # a crash of a support case counts only when a sibling backend succeeds (exact criterion: "no backend fails alone")
    crashed = {i for i in crashed if not cases[i].get("support")} | lone
    return outs, sorted(badI), sorted(badS), sorted(gfalse), sorted(crashed), notes

def shrink_case(ctx, case):
    """keep only the failing query / point"""
    if case["kind"] == "interp":
        for route in case["routes"]:
            for q in case["queries"]:
                cand = dict(case, routes=[route], queries=[q])
                o, bi, bs, _, cr, _ = run_cases(ctx, [cand], "shr")
                if bs or cr:
                    return cand
    if case["kind"] in ("net", "rollnet"):
        for pt in case["points"]:
            cand = dict(case, points=[pt])
            o, bi, bs, _, cr, _ = run_cases(ctx, [cand], "shr")
            if bs or cr:
                return cand
    return case

def check(ctx):
    pr = proof_gate(ctx, NEEDS)
    problem = proof_problem(pr)
    corpus = load_corpus("C02")
    if ctx.replay:
        rp = json.load(open(ctx.replay))
        cases = ([rp["case"]] if "case" in rp else []) + [c for c in corpus if c.get("finding")]      # witnesses of the known findings are always replayed
    else:
        cases = corpus + generate(ctx)
    outs, badI, badS, gfalse, crashed, notes = run_cases(ctx, cases, "main")
    guard_viol = {i: ["heun_time_free"] for i in gfalse if cases[i]["kind"] == "traj"}
    guard_viol.update({i: ["heun_time_free"] for i in gfalse if cases[i]["kind"] == "cadence"})
    guard_viol.update({i: ["fortran_pi_free"] for i in gfalse if cases[i]["kind"] == "consts" and cases[i].get("const", "pi") == "pi"})
    kinds = {}
    for c in cases:
        key = c["kind"] + ("/support" if c.get("support") else "")
        kinds[key] = kinds.get(key, 0) + 1
    ctx.note(f"E1: {len(cases)} cases {kinds}; real-vs-Impl mismatches {len(badI)}, real-vs-Spec mismatches {len(badS)} "
             f"(outside the guard heun_time_free: {len([i for i in badS if i in guard_viol])}), crashes {len(crashed)}; support: {notes}")
    if (notes["float32_max_rel_err"] > notes["float32_tolerance"] or notes["adaptive_max_rel_diff"] > notes["adaptive_tolerance"]
            or notes["transcendental_max_rel_diff"] > notes["transcendental_tolerance"] or notes["literal_max_rel_diff"] > notes["literal_tolerance"]):
        ctx.note("SUPPORT stream outside its tolerance (does not decide the property; look at it): " + json.dumps(notes))
    def witness_check(f):
        w = [i for i, c in enumerate(cases) if c.get("finding") == f["id"]]
        if not w:
            return True
        return any(i in badS or i in crashed for i in w)
    def show(c):
        o = run_impl(ctx, "c02", "impl", [c], nworkers=1, per_case_timeout=240)[0]
        d = dict(implementation_output=o)
        if not (isinstance(o, dict) and "err" in o) and not c.get("support"):
            bi, bs, gf = model_compare(ctx, [c], [o], "show")
            d.update(differs_from_Impl=bool(bi), differs_from_Spec=bool(bs), guard_heun_time_free=not gf,
                     coq_terms=[t[:1500] for _, t in entries(c, o)][:6])
        return d
    conclude(ctx, cases=cases, impl_out=outs, bad_spec=badS, bad_impl=badI, crashed=crashed, problem=problem, guard_viol=guard_viol,
             spec_name="the Spec of Backends.v/BackendInterp.v (numpy interp, explicit Euler/Heun rows, polynomial network, element sets, roll)",
             impl_name="the backend mechanism models (interp_torch, interp_fortran, base_solve/jax_solve, render_idx/range, cshift)",
             shrink=lambda c: shrink_case(ctx, c), show=show, witness_check=witness_check)
    deciding = [c for c in cases if not c.get("support")]
    nt = {canon(c) for c in deciding if nontrivial(c)}
    hist = dict(kinds=kinds, backends={b: sum(1 for c in cases if c.get("backend") == b or ("m_" + b) in c.get("routes", [])) for b in BK},
                solvers={s: sum(1 for c in cases if c.get("solver") == s) for s in ("euler", "heun", "scipy")},
                vectorized=sum(1 for c in cases if c.get("vectorize")), returned_array_convention=sum(1 for c in cases if c.get("ipv") is False),
                with_extrinsic_input=sum(1 for c in cases if c.get("u")),
                interp_queries=sum(len(c["queries"]) * len(c["routes"]) for c in cases if c["kind"] == "interp"))
    write_evidence(ctx, evaluations=len(cases), distinct_nontrivial=len(nt),
                   rule="a case is one (model, backend, option) run: interp case = dyadic grid (power-of-two spacings) x queries inside/outside/on "
                        "grid points x routes (direct helpers and the compiled vector field of a model with an extrinsic input on each backend); net = "
                        "random polynomial 2-4 node network at 4 dyadic points with k overridden by frontend name; traj = run() on a linear model; "
                        "vectorized traj = two classes x 2-4 units, dense block + sparse edges, optional delayed edge (d = 2..3 steps, compared across backends and across vectorize on/off, "
                        "jax must raise NotImplementedError); pop = two populations, one matvec connection and one coupling-template connection; "
                        "rollnet = one node with two shaped vector variables and three roll(x, n) calls, n literal in -7..7 incl. multiples of the length; "
                        "hooks = direct calls of the index/roll hooks. Non-trivial: pop with a coupling template; rollnet with a shift that is not a multiple of the length; interp with >= 1 query strictly inside an interval; net with >= 1 edge "
                        "and a monomial of degree >= 2; traj on a non-default backend / heun / vectorized; hooks on a 1-based backend or a non-identity roll. "
                        "distinct = distinct canonical JSON",
                   samples=[c for c in cases if c["kind"] == "traj"][:1] + [c for c in cases if c["kind"] == "interp"][:1],
                   extra=dict(input_distribution=hist, impl_vs_model_mismatches=len(badI), impl_vs_spec_mismatches=len(badS), support=notes),
                   trusted_base=["float64 arithmetic of numpy / torch / XLA / gfortran is exact on the generated dyadic data BY CONSTRUCTION: every deciding case (net, rollnet, "
                                 "traj incl. vectorized and delayed, pop) is accepted by the generator only if a magnitude bound (|value| <= A, value multiple of 1/D, propagated through "
                                 "sums and products on absolute values, over every step any backend executes) gives A*D < 2^50 and D <= 2^50 for every expression - then every "
                                 "intermediate of every evaluation order is an exactly representable float64 with margin; other candidates are resampled; interp grids have power-of-two "
                                 "spacings and hooks are integers. No comparison is ever loosened",
                                 "torch.searchsorted, torch.clamp, jax.numpy.interp, numpy.interp, gfortran cshift/do-loop semantics are library/compiler "
                                 "behaviour, modelled by their documented meaning and exercised by the interp/hooks cases",
                                 "transcendental functions, matmul and the adaptive solvers are outside the model (support stream with tolerance only)"],
                   assumptions=["grids strictly increasing with >= 2 points (hypothesis of C02_interp_torch_full)",
                                "store_step >= 1; the number of stored rows ceil(steps/store_step) equals round(T/dts) (otherwise C03)",
                                "guard heun_time_free (finding D16): textbook Heun evaluates the corrector at t+dt, which is what JaxBackend._solve_heun does (k2 = func(t+1, y_pred)); "
                                "BaseBackend._solve_heun (default, fortran) evaluates both stages at t. The two agree exactly for autonomous systems (C02_heun_partial) and differ for "
                                "time-dependent inputs; run_spec follows the default backend's convention only to have one reference - which backend deviates is a maintainer decision",
                                "D61 (repaired): torch compiles coupling EdgeTemplates since fix_D61; corpus/C02/D61_torch_wsum.json is the regression case (torch rows = Spec rows)",
                                "D108 (repaired, switch Backends.fixed_fortran_pi = true): the Fortran module constant PI is numpy.pi bit for bit; corpus/C02/reg_D108_fortran_pi.json "
                                "is the regression case; D111 (repaired): the Fortran module declares E = exp(1.0d0) = numpy.e bit for bit, regression case corpus/C02/reg_D111_fortran_E.json",
                                "cadence stream: decimal step sizes are passed as literals; the model's cadence is round_half_even of the EXACT quotients (C02_cadence_multiple), the code "
                                "rounds the float quotients: compared with the model only where both agree (disagreements are counted in support.cadence_float_vs_exact_rounding_disagree; "
                                "none occur for integer multiples), and always across backends (rows scaled by 2/dt, number of rows, time axis bit for bit)",
                                "delayed edges: no Spec in this property (C09); only exact agreement default = torch = fortran, vectorized = scalar, and the jax refusal are checked",
                                "IEEE rounding is outside the model: the model computes in Qc"])
