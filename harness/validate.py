"""python3-vt harness/validate.py : validate MANIFEST.json and every evidence file against the schemas."""
import json, glob, sys, jsonschema
m = json.load(open('/verif/MANIFEST.json'))
jsonschema.validate(m, json.load(open('/root/.vp/MANIFEST.schema.json')))
es = json.load(open('/root/.vp/EVIDENCE.schema.json'))
for c in m['checks']:
    f = '/verif/' + c['evidence_file']
    try:
        jsonschema.validate(json.load(open(f)), es); print("ok", f)
    except jsonschema.ValidationError as e:
        print("INVALID", f, str(e)[:200])
    except FileNotFoundError:
        print('MISSING', f)
ids = {c['property_id'] for c in m['checks']} | {n['property_id'] for n in m.get('not_applicable', [])}
allp = {json.loads(l)['id'] for l in open('/verif/properties.jsonl')}
print('uncovered ids:', sorted(allp - ids), 'claimed:', len(m['checks']))
