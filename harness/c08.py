"""C08 — extrinsic inputs are applied at the right time to the right unit.
Model: coq/theories/Inputs.v (Impl `run_inputs`/`vf_adaptive`, Spec `spec_run_inputs`), Interp.v (numpy interp / linspace),
Solver.v (the loops); theorems: coq/properties/C08.v.
Tie (E1): networks of 1-3 integrators x_i' = u_i (+ weighted edges x_j -> u_i) driven by non-constant small-integer arrays:
  kind "fixed"   : CircuitTemplate.run(solver='euler'|'heun', inputs=...) -- trajectories compared exactly;
  kind "adaptive": get_run_func(inputs=..., solver='scipy') evaluated at dyadic t (N = 2^m+1 samples so that the
                   interpolation grid is dyadic) -- compared exactly with interp_np on linspace(0, N*dt, N)."""
import json, os
from fractions import Fraction as Fr
from core import *
from c03 import py_round, _fr, _err

NEEDS = ["Solver", "SolverProofs", "Interp", "Inputs", "InputsProofs", "Corr", "InputsConv"]
GUARDS = ["multi_sample"]
ERRMAP = {"IndexError": "ErrIndex", "ZeroDivisionError": "ErrZeroDiv", "ValueError": "ErrShape", "AttributeError": "ErrAttribute"}

# ---------------------------------------------------------------------------------------------- impl side (worker)
def _prefix(depth):
    return "".join(f"s{d}/" for d in reversed(range(depth)))

def _target(case, inp):
    """the key of the inputs dict: the same set of nodes can be addressed by different strings"""
    depth = case["depth"]
    if inp["nodes"] == "all":
        levels = ["all" if (inp["form"] >> d) & 1 else f"s{d}" for d in reversed(range(depth))]
        return "/".join(levels + ["all", "op", "u"])
    return _prefix(depth) + f"n{case['names'][inp['nodes']]}/op/u"

def _build(case):
    import numpy as np
    from pyrates import OperatorTemplate, NodeTemplate, CircuitTemplate
    op = OperatorTemplate(name="op", equations=["x' = u"], variables={"x": "output(0.0)", "u": f"input({float(Fr(case.get('udef', 0)))})"})
    names = case["names"]
    nodes = {f"n{names[i]}": NodeTemplate(name=f"n{names[i]}", operators={op: {"x": float(Fr(case["x0"][i]))}}) for i in range(case["nn"])}
    edges = [(f"n{names[j]}/op/x", f"n{names[i]}/op/u", None, {"weight": float(Fr(w))})
             for i, row in enumerate(case["W"]) for j, w in enumerate(row) if Fr(w) != 0]
    c = CircuitTemplate(name="c", nodes=nodes, edges=edges)
    for d in range(case["depth"]):
        c = CircuitTemplate(name=f"h{d}", circuits={f"s{d}": c})
    inputs = {}
    for inp in case["inputs"]:
        a = np.array([[float(Fr(v)) for v in r] for r in inp["data"]] if inp["shape"] != "1d" else [float(Fr(v)) for v in inp["data"]], dtype=np.float64)
        key = _target(case, inp)
        assert key not in inputs
        inputs[key] = a
    return c, inputs

def impl(case):
    import numpy as np
    from pyr import reset_pyrates
    reset_pyrates()
    try:
        if case.get("prelude"):
            # an earlier compilation in the same process with another array on the same variable, kept (clear=False),
            # then the documented partial cache reset: must not leak into the measured run
            c0, inputs0 = _build(case)
            try:
                c0.get_run_func("vf0", step_size=float(Fr(case["dt"])), inputs={k: 100.0 + 7.0 * np.asarray(v) for k, v in inputs0.items()} or None,
                                solver="euler", vectorize=False, in_place=False, verbose=False, clear=False,
                                float_precision="float64", backend="default", file_name="vf0m")
            except (IndexError, ValueError, AttributeError, ZeroDivisionError):
                pass
            from pyrates import clear_frontend_caches
            clear_frontend_caches(clear_ir_cache=False)
        c, inputs = _build(case)
        pre = _prefix(case["depth"])
        try:
            if case["kind"] == "fixed":
                outputs = {f"o{i}": f"{pre}n{case['names'][i]}/op/x" for i in range(case["nn"])}
                res = c.run(simulation_time=float(Fr(case["T"])), step_size=float(Fr(case["dt"])), solver=case["solver"], inputs=inputs or None,
                            outputs=outputs, vectorize=case["vectorize"], in_place=False, verbose=False, clear=True,
                            float_precision="float64", backend=case.get("backend", "default"), cutoff=float(Fr(case.get("cutoff", 0))),
                            **({"sampling_step_size": float(Fr(case["dts"]))} if case.get("dts") else {}))
                vals = np.asarray(res.values, dtype=np.float64)
                if list(res.columns) != list(outputs) or vals.shape != (len(res.index), case["nn"]):
                    return {"raised": "BadFrame", "msg": f"columns={list(res.columns)} shape={vals.shape}"}
                return {"rows": [[_fr(t)] + [_fr(v) for v in row] for t, row in zip(res.index.values, vals)]}
            if case.get("via_run"):
                # run(solver='scipy'): the integrator is replaced by a stub that evaluates the vector field run() built (with
                # T = simulation_time handed to the input nodes) at the case's times and returns a constant trajectory
                import scipy.integrate as _si
                cap, orig = {}, _si.solve_ivp
                def stub(fun=None, t_span=None, y0=None, args=(), t_eval=None, **kw):
                    y = np.array(y0, dtype=np.float64).reshape(-1)
                    cap["y"] = y.copy()
                    cap["rows"] = [np.array(fun(np.float64(float(Fr(t))), y.copy(), *args), dtype=np.float64).reshape(-1).copy() for t in case["ts"]]
                    return {"y": np.tile(y.reshape(-1, 1), (1, len(t_eval)))}
                _si.solve_ivp = stub
                try:
                    c.run(simulation_time=float(Fr(case["T"])), step_size=float(Fr(case["dt"])), solver="scipy", inputs=inputs or None,
                          outputs={f"o{i}": f"{pre}n{case['names'][i]}/op/x" for i in range(case["nn"])}, vectorize=case["vectorize"],
                          in_place=False, verbose=False, clear=True, float_precision="float64", backend="default")
                finally:
                    _si.solve_ivp = orig
                y, pos = cap["y"], []
                for i in range(case["nn"]):
                    hits = [k for k in range(len(y)) if y[k] == float(Fr(case["x0"][i]))]
                    assert len(hits) == 1, (y.tolist(), case["x0"])
                    pos.append(hits[0])
                return {"rows": [[_fr(dy[p]) for p in pos] for dy in cap["rows"]]}
            func, args, names, smap = c.get_run_func("vf", step_size=float(Fr(case["dt"])), inputs=inputs or None, solver="scipy",
                                                     vectorize=case["vectorize"], in_place=False, verbose=False, clear=False,
                                                     float_precision="float64", backend="default", file_name="vfm")
        except (IndexError, ValueError, AttributeError, ZeroDivisionError) as e:
            return _err(e)
        y = np.array(args[1], dtype=np.float64).reshape(-1)
        pos = []
        for i in range(case["nn"]):      # initial values are pairwise distinct: they identify the slot of every unit
            hits = [k for k in range(len(y)) if y[k] == float(Fr(case["x0"][i]))]
            assert len(hits) == 1, (y.tolist(), case["x0"])
            pos.append(hits[0])
        rows = []
        for t in case["ts"]:
            a = list(args); a[0] = np.float64(float(Fr(t)))
            dy = np.array(func(*a), dtype=np.float64).reshape(-1)
            rows.append([_fr(dy[p]) for p in pos])
        return {"rows": rows}
    finally:
        reset_pyrates()

# ---------------------------------------------------------------------------------------------- generator
def gen_inputs(rng, nn, vectorize, N, allow_bad=True):
    inputs, used = [], set()
    for _ in range(rng.choice([0, 1, 1, 1, 2, 2, 3])):
        nodes = "all" if rng.random() < (0.55 if nn < 10 else 0.85) else rng.randrange(nn)
        form = rng.randrange(8)
        r = rng.random()
        shape = "1d" if r < 0.5 else "col" if r < 0.7 else "2d"
        if shape == "2d" and (nodes != "all" or nn < 2 or (not vectorize and not (allow_bad and rng.random() < 0.15))):
            shape = "1d"
        val = lambda: str(rng.randint(-4, 6))
        if shape == "1d":
            data = [val() for _ in range(N)]
        elif shape == "col":
            data = [[val()] for _ in range(N)]
        else:
            data = [[val() for _ in range(nn)] for _ in range(N)]
        inputs.append(dict(nodes=nodes, form=form, shape=shape, data=data))
    return inputs

def dedup_targets(case):
    seen, keep = set(), []
    for inp in case["inputs"]:
        k = _target(case, inp)
        if k not in seen:
            seen.add(k); keep.append(inp)
    case["inputs"] = keep

def gen_net(rng, nn):
    x0 = rng.sample([Fr(k, 2) for k in range(-8, 13) if k != 0], nn)
    W = [[Fr(0)] * nn for _ in range(nn)]
    if 1 < nn < 10 and rng.random() < 0.5:
        for _ in range(rng.randint(1, 2)):
            i, j = rng.sample(range(nn), 2)
            W[i][j] = Fr(rng.choice([-2, -1, 1, 2, 1, Fr(1, 2)]))
    names = rng.sample(range(30), nn)
    return x0, W, names

def exact_ok(case):
    """Generator-side filter (never decides anything): every intermediate of the float64 run is a multiple of 2^-E below
    2^(50-E), so that numpy's arithmetic is exact.  Edges with dt*w not an integer add bits in every step (Heun: 2p+1)."""
    dt = Fr(case["dt"]); steps = py_round(Fr(case["T"]) / dt); nn = case["nn"]
    W = [[Fr(w) for w in r] for r in case["W"]]
    x = [Fr(v) for v in case["x0"]]
    def u(i, k):
        tot = Fr(0)
        for inp in case["inputs"]:
            tg = addressed(case, inp)
            if i in tg and k < len(inp["data"]):
                row = inp["data"][k]
                tot += Fr(row) if inp["shape"] == "1d" else Fr(row[0]) if len(row) == 1 else Fr(row[tg.index(i)]) if len(row) == len(tg) else 0
        return tot
    E, M = 0, Fr(0)
    def see(v, mag=None):
        nonlocal E, M
        d = v.denominator
        if d & (d - 1):
            raise ValueError
        E = max(E, d.bit_length() - 1); M = max(M, abs(v) if mag is None else mag)
    def f(k, y):
        out = []
        for i in range(nn):
            cov = any(i in addressed(case, inp) for inp in case["inputs"]) or any(W[i][j] != 0 for j in range(nn))
            terms = [u(i, k) if cov else Fr(case.get("udef", 0))] + [W[i][j] * y[j] for j in range(nn)]
            v = sum(terms); see(v, sum(abs(t) for t in terms) + 64); out.append(v)
        return out
    try:
        for k in range(steps):
            r1 = f(k, x)
            if case["solver"] == "euler":
                x = [a + dt * r for a, r in zip(x, r1)]
            else:
                y0 = [a + dt * r for a, r in zip(x, r1)]
                for a in y0:
                    see(a, 2 * abs(a) + 1)
                r2 = f(k, y0)
                for p_, q_ in zip(r1, r2):
                    see(dt / 2 * (p_ + q_), abs(p_) + abs(q_))
                x = [a + dt / 2 * (p_ + q_) for a, p_, q_ in zip(x, r1, r2)]
            for a in x:
                see(a, 2 * abs(a) + 1)
    except ValueError:
        return False
    return M * 2 ** E < 2 ** 50

def make_exact(case):
    if exact_ok(case):
        return case
    dt = Fr(case["dt"])
    case["W"] = [[str(Fr(w) / dt) for w in r] for r in case["W"]]       # dt*w integer: no new bits per step
    if exact_ok(case):
        return case
    case["W"] = [["0"] * case["nn"] for _ in range(case["nn"])]
    return case

def gen_single_sample(rng):
    """arrays with one time sample: with one step inside the contract (known finding), with more steps 'too short'"""
    nn = rng.choice([1, 2, 3, 3, 10, 11])
    dt = Fr(1, 2 ** rng.choice([0, 1, 2]))
    steps = rng.choice([1, 1, 2, 3, 4])
    vectorize = rng.random() < 0.65
    x0, W, names = gen_net(rng, nn)
    shape = rng.choice(["1d", "col", "2d", "2d"]) if nn > 1 else rng.choice(["1d", "col"])
    nodes = "all" if shape == "2d" or rng.random() < 0.6 else rng.randrange(nn)
    val = lambda: str(rng.randint(-4, 6))
    data = [val()] if shape == "1d" else [[val()]] if shape == "col" else [[val() for _ in range(nn)]]
    case = dict(kind="fixed", solver=rng.choice(["euler", "heun"]), backend="default", dts=None, cutoff="0", vectorize=vectorize,
                depth=rng.choice([0, 0, 1, 2]), udef="0", prelude=False, T=str(steps * dt), dt=str(dt), nn=nn,
                x0=[str(v) for v in x0], W=[["0"] * nn for _ in range(nn)], names=names,
                inputs=[dict(nodes=nodes, form=rng.randrange(8), shape=shape, data=data)])
    return case

def gen_fixed(rng):
    if rng.random() < 0.06:
        return gen_single_sample(rng)
    nn = rng.choice([1, 2, 2, 3, 3]) if rng.random() < 0.9 else rng.choice([10, 11, 12])      # 1-D broadcast to >= 10 nodes (D85)
    dt = Fr(1, 2 ** rng.choice([0, 1, 2, 3]))
    # every backend with its own fixed-step loop, with store_step in {1,2,3,4} and a cutoff.  torch rejects heun; jax + heun
    # with a time-dependent field (every case here) is the class of finding D16 (corrector at t+1), owned by C02/C03
    backend = rng.choice(["default"] * 6 + ["torch"] * 2 + ["jax"] * 3)
    mult = rng.choice([1, 1, 2, 2, 3, 4])
    steps = mult * (rng.randint(1, 4) if nn < 10 else rng.randint(1, 2))
    if steps < 2:
        steps = 2 * mult
    T = steps * dt                                            # a multiple of the sampling step: C03's rows_fit holds
    vectorize = rng.random() < 0.6
    depth = rng.choice([0, 0, 0, 1, 1, 2, 2, 3])
    extra = rng.choice([0, 0, 0, 1, 3]) if (rng.random() < 0.93 or backend == "jax") else -1   # a too short array: IndexError (jax clamps instead)
    if backend != "default" and steps + extra < 2:
        extra = 0              # single-sample arrays fail with backend-specific exception types: default backend only (gen_single_sample)
    x0, W, names = gen_net(rng, nn)
    r = rng.random()
    nrows = steps // mult
    cutoff = Fr(0) if r < 0.4 else mult * dt * rng.randint(0, nrows) if r < 0.75 else mult * dt * rng.randint(0, nrows) + mult * dt * rng.choice([Fr(1, 2), Fr(-1, 4)])
    case = dict(kind="fixed", solver="euler" if backend != "default" else rng.choice(["euler", "heun"]), backend=backend,
                dts=None if (mult == 1 and rng.random() < 0.5) else str(mult * dt), cutoff=str(cutoff), vectorize=vectorize, depth=depth,
                udef=str(rng.choice([0, 0, Fr(1, 2), 1, Fr(-1, 2), 2])), prelude=(not vectorize) and rng.random() < 0.3, T=str(T), dt=str(dt), nn=nn,
                x0=[str(v) for v in x0], W=[[str(v) for v in r] for r in W], names=names,
                # forms the implementation rejects ((N,n) without vectorize) raise backend-specific exception types: default only
                inputs=gen_inputs(rng, nn, vectorize, max(1, steps + extra), allow_bad=(backend == "default")))
    dedup_targets(case)
    return make_exact(case)

def gen_adaptive(rng):
    nn = rng.choice([1, 2, 2, 3])
    dt = Fr(1, 2 ** rng.choice([0, 1, 2, 3]))
    m = rng.choice([1, 2, 3])
    N = 2 ** m + 1
    vectorize = rng.random() < 0.6
    x0, W, names = gen_net(rng, nn)
    T = N * dt                                     # what get_run_func passes to create_input_node
    via_run = rng.random() < 0.4
    if via_run:                                    # run() passes simulation_time: N samples on [0, T] with T/dt != N steps
        T = (N - 1) * dt * rng.choice([1, 2, 4])
    h = T / (N - 1)
    ts = []
    for _ in range(6):
        r = rng.random()
        if r < 0.25:
            ts.append(h * rng.randint(0, N - 1))                                  # on a grid point
        elif r < 0.8:
            ts.append(h * rng.randint(0, N - 2) + h * Fr(rng.randint(1, 7), 8))   # strictly between
        else:
            ts.append(rng.choice([Fr(-1, 2), T, T + 1, T - h / 4, Fr(0)]))        # clamped / last interval
    case = dict(kind="adaptive", via_run=via_run, solver="scipy", udef=str(rng.choice([0, 0, Fr(1, 2), 1, -1])), prelude=(not vectorize) and rng.random() < 0.3, vectorize=vectorize, depth=rng.choice([0, 0, 1, 2, 3]), T=str(T), dt=str(dt), nn=nn,
                x0=[str(v) for v in x0], W=[[str(v) for v in r] for r in W], names=names, ts=[str(t) for t in ts],
                inputs=gen_inputs(rng, nn, vectorize, N, allow_bad=False))
    dedup_targets(case)
    return case

def addressed(case, inp):
    return list(range(case["nn"])) if inp["nodes"] == "all" else [inp["nodes"]]

def nontrivial(case):
    def nonconst(inp):
        flat = [tuple(r) if isinstance(r, list) else r for r in inp["data"]]
        return len(set(flat)) > 1
    ins = [i for i in case["inputs"] if nonconst(i)]
    return bool(ins) and (len(case["inputs"]) >= 2 or any(len(addressed(case, i)) >= 2 for i in ins))

# ---------------------------------------------------------------------------------------------- model side
HEADER = """From Coq Require Import List ZArith QArith Qcanon Bool Arith.
From PV Require Import History Solver Interp Inputs Corr.
Import ListNotations.
Local Open Scope nat_scope.
Record tcase := { adaptive : bool; viarun : bool; sv : solver; vec : bool; cdepth : nat; cT : Qc; cdt : Qc; cdts : option Qc; ccut : Qc; cudef : Qc; cW : list row;
                  cin : list (arr * list nat); cx0 : row; cts : list Qc }.
Definition dts_of c := match cdts c with Some d => d | None => cdt c end.
Fixpoint collect (l : list (option row)) : option (list row) :=
  match l with [] => Some [] | Some r :: l' => option_map (cons r) (collect l') | None :: _ => None end.
Definition implO (c : tcase) : outcome :=
  if adaptive c then
    match collect (map (fun t => if viarun c then vf_adaptive_run (cT c) (cudef c) (cW c) (cin c) t (cx0 c)
                                 else vf_adaptive (cdt c) (cudef c) (cW c) (cin c) t (cx0 c)) (cts c)) with Some rows => Rows rows | None => ErrShape end
  else run_inputs (sv c) (vec c) (cdepth c) (cT c) (cdt c) (cdts c) (ccut c) (cudef c) (cW c) (cin c) (cx0 c).
Definition specO (c : tcase) : outcome :=
  if adaptive c then implO c      (* the adaptive Spec is interp_np on linspace itself: see C08.v for what it means *)
  else Rows (spec_run_inputs (sv c) (cT c) (cdt c) (cdts c) (ccut c) (cudef c) (cW c) (cin c) (cx0 c)).
Definition okI (p : tcase * outcome) := outcome_eqb (implO (fst p)) (snd p).
Definition okS (p : tcase * outcome) := outcome_eqb (specO (fst p)) (snd p).
Definition g_multi (p : tcase * outcome) := adaptive (fst p) || multi_sample (cin (fst p)).
(* forms the implementation accepts, arrays long enough, >= 2 rows: outside, only model = code is demanded *)
Definition g_scope (p : tcase * outcome) :=
  adaptive (fst p) || (forallb (input_ok (vec (fst p)) (rnd (cT (fst p) / cdt (fst p)))) (cin (fst p)) &&
                       rows_fit (cT (fst p)) (cdt (fst p)) (dts_of (fst p)) && frame_ok (cT (fst p)) (dts_of (fst p))).
"""

def coq_outcome(r):
    if "rows" in r:
        return "(Rows " + clist([clist([cq(x) for x in row]) for row in r["rows"]]) + ")"
    return ERRMAP[r["raised"]]

def coq_case(case, out):
    row = lambda v: clist([cq(x) for x in v])
    ins = []
    for inp in case["inputs"]:
        a = f"(A1 {row(inp['data'])})" if inp["shape"] == "1d" else f"(A2 {clist([row(r) for r in inp['data']])})"
        ins.append(f"({a}, {clist([cnat(i) for i in addressed(case, inp)])})")
    t = (f"{{| adaptive := {cbool(case['kind'] == 'adaptive')}; viarun := {cbool(bool(case.get('via_run')))}; sv := {'Heun' if case['solver'] == 'heun' else 'Euler'}; "
         f"vec := {cbool(case['vectorize'])}; cdepth := {cnat(case['depth'])}; cT := {cq(case['T'])}; cdt := {cq(case['dt'])}; cdts := {copt(case.get('dts'), cq)}; ccut := {cq(case.get('cutoff', 0))}; cudef := {cq(case.get('udef', 0))}; "
         f"cW := {clist([row(r) for r in case['W']])}; cin := {clist(ins)}; cx0 := {row(case['x0'])}; "
         f"cts := {row(case.get('ts', []))} |}}")
    return f"({t}, {coq_outcome(out)})"

def model_compare(ctx, cases, outs, tag):
    res = [[], [], [], []]
    shard = 80
    for s in range(0, len(cases), shard):
        terms = [coq_case(c, o) for c, o in zip(cases[s:s + shard], outs[s:s + shard])]
        body = ("Definition cases : list (tcase * outcome) := " + clist(terms) + ".\n" +
                "".join(f"Eval vm_compute in (mismatches {fn} cases).\n" for fn in ("okI", "okS", "g_scope", "g_multi")))
        out = coq_eval(ctx, f"c08_{tag}_{s}", HEADER, body)
        ls = parse_nat_lists(out)
        assert len(ls) == 4, out[:400]
        for k in range(4):
            res[k] += [s + i for i in ls[k]]
    return res

def model_outputs(ctx, case, out, tag):
    body = f"Definition c := {coq_case(case, out)}.\nEval vm_compute in (specO (fst c)).\nEval vm_compute in (implO (fst c)).\n"
    try:
        import re
        txt = coq_eval(ctx, f"c08_show_{tag}", HEADER, body)
        txt = re.sub(r"\{\|\s*this := ([^;]*);\s*canon := [^|]*\|\}", r"\1", txt)
        return " ".join(txt.split())[:5000]
    except Exception as e:
        return f"(model evaluation failed: {e})"

def known_outcome(r):
    return isinstance(r, dict) and ("rows" in r or r.get("raised") in ERRMAP)

def fails(ctx, case, tag):
    r = run_impl(ctx, "c08", "impl", [case], nworkers=1)[0]
    if not known_outcome(r):
        return True, r
    res = model_compare(ctx, [case], [r], tag)
    return bool(res[1]) and not res[2], r

def fails_strict(ctx, case, tag):
    r = run_impl(ctx, "c08", "impl", [case], nworkers=1)[0]
    if not known_outcome(r):
        return True, r
    res = model_compare(ctx, [case], [r], tag)
    return bool(res[1]) and not (res[2] or res[3]), r

def shrink(ctx, case):
    best, budget = case, 10
    def attempt(cand, tag):
        nonlocal best, budget
        if budget <= 0 or canon(cand) == canon(best):
            return
        budget -= 1
        try:
            if (cand["kind"] != "fixed" or exact_ok(cand)) and fails_strict(ctx, cand, tag)[0]:
                best = cand
        except Exception:
            pass
    for it in range(2):
        for k in range(len(best["inputs"])):
            if len(best["inputs"]) > 1:
                attempt(dict(best, inputs=best["inputs"][:k] + best["inputs"][k + 1:]), f"sh{it}i{k}")
        if any(Fr(w) != 0 for r in best["W"] for w in r):
            attempt(dict(best, W=[["0"] * best["nn"] for _ in range(best["nn"])]), f"sh{it}w")
        if best["kind"] == "adaptive" and len(best["ts"]) > 1:
            for t in best["ts"]:
                attempt(dict(best, ts=[t]), f"sh{it}t")
    return best

# ---------------------------------------------------------------------------------------------- check
def check(ctx):
    pr = proof_gate(ctx, NEEDS)
    problem = proof_problem(pr)
    n_fixed, n_adapt = (170, 70) if ctx.tier == "quick" else (2200, 800)
    if problem:
        n_fixed *= 4; n_adapt *= 4
    if ctx.replay:
        rp = json.load(open(ctx.replay))
        cases = [rp["case"]] if "case" in rp else []
    else:
        cases = load_corpus("C08") + [gen_fixed(ctx.rng) for _ in range(n_fixed)] + [gen_adaptive(ctx.rng) for _ in range(n_adapt)]
    cases = [{k: v for k, v in c.items() if k not in ("id", "comment")} for c in cases]
    outs = run_impl(ctx, "c08", "impl", cases)
    crashed = [i for i, r in enumerate(outs) if not known_outcome(r)]
    good = [i for i in range(len(cases)) if i not in crashed]
    res = model_compare(ctx, [cases[i] for i in good], [outs[i] for i in good], "main")
    badI, badS, noscope, nomulti = [[good[i] for i in l] for l in res]
    # unaccepted forms / too short arrays (IndexError at every depth) are outside the property: model = code only
    badS = [i for i in badS if i not in noscope]
    # a single-sample array inside the contract (one step): known finding `single_sample`, attributed when the code fails as modelled
    guard_viol = {i: ["multi_sample"] for i in nomulti if i not in noscope and i not in badI}
    ctx.note(f"E1: {len(cases)} cases ({sum(1 for c in cases if c['kind'] == 'fixed')} run(euler/heun, inputs), "
             f"{sum(1 for c in cases if c['kind'] == 'adaptive')} get_run_func(scipy, inputs), of which {sum(1 for c in cases if c.get('via_run'))} through run(solver='scipy') with a stubbed integrator); impl-vs-Impl mismatches {len(badI)}, "
             f"impl-vs-Spec mismatches {len(badS)} (of which outside the guard: {sum(1 for i in badS if i in guard_viol)}), "
             f"unexpected exceptions/worker errors {len(crashed)}")
    def witness_check(f):
        c = json.load(open(os.path.join(VERIF, f["witness"])))
        c = {k: v for k, v in c.items() if k not in ("id", "comment")}
        return fails(ctx, c, "wit_" + f["id"])[0]
    conclude(ctx, cases=cases, impl_out=outs, bad_spec=badS, bad_impl=badI, crashed=crashed, problem=problem, guard_viol=guard_viol,
             spec_name="Inputs.spec_run_inputs (sample k drives step k of exactly the addressed units; column i -> i-th target; sources add) / interp_np on linspace(0,T,N)",
             impl_name="Inputs.run_inputs/vf_adaptive", shrink=lambda c: shrink(ctx, c), witness_check=witness_check,
             show=lambda c: (lambda r: dict(implementation_output=r, model_output=model_outputs(ctx, c, r, "show") if known_outcome(r) else None))(fails(ctx, c, "show")[1]))
    nt = {canon(c) for c in cases if nontrivial(c)}
    outcome_hist = {}
    for r in outs:
        k = "rows" if isinstance(r, dict) and "rows" in r else (r.get("raised") or r.get("err")) if isinstance(r, dict) else "?"
        outcome_hist[k] = outcome_hist.get(k, 0) + 1
    hist = dict(kind=dict(fixed=sum(1 for c in cases if c["kind"] == "fixed"), adaptive=sum(1 for c in cases if c["kind"] == "adaptive")),
                solver={s: sum(1 for c in cases if c["solver"] == s) for s in ("euler", "heun", "scipy")},
                vectorize=sum(1 for c in cases if c["vectorize"]), depth={str(d): sum(1 for c in cases if c["depth"] == d) for d in (0, 1, 2, 3)},
                broadcast_to_10_or_more=sum(1 for c in cases if c["nn"] >= 10 and any(i["nodes"] == "all" for i in c["inputs"])),
                n_inputs={str(k): sum(1 for c in cases if len(c["inputs"]) == k) for k in range(4)},
                shapes={s: sum(1 for c in cases for i in c["inputs"] if i["shape"] == s) for s in ("1d", "col", "2d")},
                backend={b: sum(1 for c in cases if c["kind"] == "fixed" and c.get("backend", "default") == b) for b in ("default", "torch", "jax")},
                store_step_gt_1_by_backend={b: sum(1 for c in cases if c["kind"] == "fixed" and c.get("backend", "default") == b and c.get("dts") and Fr(c["dts"]) > Fr(c["dt"])) for b in ("default", "torch", "jax")},
                cutoff_gt_0=sum(1 for c in cases if Fr(c.get("cutoff", 0)) > 0),
                nonzero_default=sum(1 for c in cases if Fr(c.get("udef", 0)) != 0), with_prelude=sum(1 for c in cases if c.get("prelude")),
                default_and_two_inputs_on_different_units=sum(1 for c in cases if Fr(c.get("udef", 0)) != 0 and c["vectorize"] and
                                                              len({tuple(addressed(c, i)) for i in c["inputs"]}) >= 2),
                with_edges=sum(1 for c in cases if any(Fr(w) != 0 for r in c["W"] for w in r)),
                two_sources_on_one_unit=sum(1 for c in cases if any(sum(1 for i in c["inputs"] if u in addressed(c, i)) +
                                                                    sum(1 for w in c["W"][u] if Fr(w) != 0) >= 2 for u in range(c["nn"]))),
                guard_false=dict(out_of_scope_forms=len(noscope), multi_sample=len(nomulti)), real_outcomes=outcome_hist)
    write_evidence(ctx, evaluations=len(cases), distinct_nontrivial=len(nt),
                   rule="a case is non-trivial when some input is non-constant and (>= 2 nodes are addressed by it or the case has >= 2 inputs) "
                        "(DESIGN summary table); distinct = distinct canonical JSON. Networks of 1-3 integrators with shuffled node names, optional weighted "
                        "edges, hierarchy depth 0/1/2, vectorize on/off; 0-3 inputs of shape (N,), (N,1), (N,n) addressed to one node or to all "
                        "(several address strings for the same node set); N = steps + {0,1,3} or too short; adaptive: N = 2^m+1, t on / between / outside grid points",
                   samples=[c for c in cases if nontrivial(c)][:3],
                   extra=dict(input_distribution=hist, impl_vs_model_mismatches=len(badI), impl_vs_spec_mismatches=len(badS)),
                   trusted_base=["numpy float64 arithmetic is exact on the generated data (small integers, dyadic steps and grid)",
                                 "get_nodes order for the pattern 'all' is the declaration order of the nodes (C06 is the property about get_nodes)"],
                   assumptions=["default backend; the jax Heun (corrector at t+1, D16) is C02's subject",
                                "adaptive: the value at time t is decided on the vector field returned by get_run_func (T = N*step_size there); the scipy integration itself is not modelled",
                                "(N,n) arrays with n not in {1, number of addressed nodes} are outside the property and not generated"])
