#!/bin/bash
# try_seed.sh <patch.diff> <Cnn> [--reverse] : run ./check Cnn against a scratch checkout of /repo with the patch applied
set -u
patch=$(readlink -f "$1"); pid=$2; rev=${3:-}
d=$(mktemp -d /tmp/ts_XXXXXX)
git -C /repo worktree add -q --detach "$d/wt" HEAD || exit 3
if [ "$rev" = "--reverse" ]; then git -C "$d/wt" apply -R "$patch" || { echo "PATCH DOES NOT APPLY"; git -C /repo worktree remove --force "$d/wt"; rm -rf "$d"; exit 3; }
else git -C "$d/wt" apply "$patch" || { echo "PATCH DOES NOT APPLY"; git -C /repo worktree remove --force "$d/wt"; rm -rf "$d"; exit 3; }; fi
cd /verif && VERIF_REPO="$d/wt" ./check "$pid" 2>&1 | grep -E "VIOLATION|KNOWN-FINDING|done in|E1:|failed" | head -12
rc=${PIPESTATUS[0]}
git -C /repo worktree remove --force "$d/wt"; rm -rf "$d"
exit $rc
