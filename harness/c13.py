"""C13 — results do not depend on what the process did before (process-global caches).
Model: coq/theories/Caches.v (the caches as a record of finite maps, the public API as a step function, `compile`);
theorems: coq/properties/C13.v.
Tie: E1 — random histories (<= 10 API calls) over a pool of small models executed in ONE worker process without any reset
between the steps; the final observable is compared (a) with the same model compiled in a FRESH interpreter (full
observable, exact) and (b) with the model's prediction evaluated inside Coq (names, k values, state map, dy, or the
exception class; also the exception class of every step of the history)."""
import json, os, re, sys, subprocess, tempfile, shutil
from concurrent.futures import ThreadPoolExecutor
from fractions import Fraction as Fr
from core import *

NEEDS = ["Caches", "CachesProofs", "Corr"]

def fixed_clear():
    """the one-line switch of Caches.v (false = PyRates as it is, true = proposed_fix_C13_clear.diff applied);
    VERIF_C13_FIXED=1/0 overrides it for trying the fix on a scratch worktree"""
    env = os.environ.get("VERIF_C13_FIXED")
    if env in ("0", "1"):
        return env == "1"
    txt = open(os.path.join(COQ, "theories", "Caches.v")).read()
    return re.search(r"Definition fixed_clear : bool := (true|false)\.", txt).group(1) == "true"

EQS = {"E1": "d/dt * x = -k*x + r", "E2": "d/dt * x = k*x*x - r"}
COQ_EQ = {"E1": "E1", "E2": "E2"}
# pool: nodes [(label, operator name, equation, default k, node-level override of k or None)], edges [(source, target, weight)]
POOL = {
    "M0": ([("A", "op", "E1", "2", None)], []),
    "M1": ([("A", "op", "E2", "2", None)], []),                                    # same operator name, another equation
    "M2": ([("A", "op", "E1", "3", None)], []),                                    # same operator name, another default
    "M3": ([("A", "oq", "E1", "2", None), ("B", "oq", "E1", "2", None)], [("A", "B", "2")]),   # same structure, another name
    "M4": ([("A", "op", "E1", "2", None), ("B", "op", "E1", "2", "3")], [("A", "B", "2")]),
    "M5": ([("A", "op", "E1", "2", None), ("B", "op", "E1", "2", None), ("C", "op", "E1", "2", "1/2")],
           [("A", "B", "2"), ("B", "C", "1/2"), ("A", "C", "3/2")]),
    "M7": ([("A", "op", "E1", "2", None), ("B", "op", "E2", "3", None)], [("A", "B", "2")]),   # D26: two templates, one name
    "M8": ([("A", "op", "E1", "1099511627777/549755813888", None)], []),      # k = 2 + 2^-39: differs from M0 beyond the 8th digit
}
MODELS = sorted(POOL)
# models whose equation calls a user-supplied helper passed through the public `ops=` keyword (outside the Coq model: these are
# compared with fresh interpreters only).  Same generated function text, different preamble (the helper definition).
HPOOL = {"H1": ("d/dt * x = -k*gain(x) + r", "2"), "H2": ("d/dt * x = -k*gain(x) + r", "3"), "H3": ("d/dt * x = k*gain(x) - r", "2")}
def helper(m):
    return {'gain': {'call': 'gain', 'def': f"def gain(x):\n    return {HPOOL[m][1]}*x\n"}} if m in HPOOL else None
YAML = """%YAML 1.2
---
op:
  base: OperatorTemplate
  equations: "d/dt * x = -k*x + r"
  variables:
    x: output(0.5)
    k: 2.0
    r: input(0.0)
nd:
  base: NodeTemplate
  operators:
    - op
nd2:
  base: nd
net:
  base: CircuitTemplate
  nodes:
    A: nd
    B: nd2
  edges:
    - [A/op/x, B/op/r, null, {weight: 2.0}]
"""
YPATH = "ym/t/net"

# ---------------------------------------------------------------------------------------------- impl side (worker)
def build(m):
    from pyrates import OperatorTemplate, NodeTemplate, CircuitTemplate
    if m in HPOOL:
        op = OperatorTemplate(name="oh", equations=[HPOOL[m][0]], path=None, variables={'x': 'output(0.5)', 'k': 2.0, 'r': 'input(0.0)'})
        return CircuitTemplate(name="net", nodes={"A": NodeTemplate(name="A", operators=[op], path=None)}, edges=[], path=None)
    nodes, edges = POOL[m]
    ops, nd, opof = {}, {}, {}
    for lab, opname, eq, k, ov in nodes:
        key = (opname, eq, k)
        if key not in ops:      # one template object per distinct (name, equation, default): M7 has two objects named `op`
            ops[key] = OperatorTemplate(name=opname, equations=[EQS[eq]], path=None,
                                        variables={'x': 'output(0.5)', 'k': float(Fr(k)), 'r': 'input(0.0)'})
        opof[lab] = opname
        nd[lab] = NodeTemplate(name=lab, operators={ops[key]: {'k': float(Fr(ov))}} if ov is not None else [ops[key]], path=None)
    es = [(f"{s}/{opof[s]}/x", f"{t}/{opof[t]}/r", None, {'weight': float(Fr(w))}) for s, t, w in edges]
    return CircuitTemplate(name="net", nodes=nd, edges=es, path=None)

# ---- constants stream: same-named operators (`oc`) that differ only subtly in an array-valued constant
def karray(v):
    import numpy as np
    if v == "K0":     # long protocol, pulse in the middle
        a = np.zeros(1500); a[600:900] = 2.0; return a
    if v == "K1":     # differs from K0 only in the middle of a > 1000-element array
        a = np.zeros(1500); a[300:500] = -1.0; return a
    if v == "K2":
        return np.ones(4)
    if v == "K3":     # differs from K2 only beyond the 8th significant digit
        a = np.ones(4); a[1] = 1.0 + 2.0 ** -40; return a
    if v == "K4":     # differs from K2 only in dtype
        return np.ones(4, dtype=np.int64)
    if v == "K5":     # differs from K0 only in length (same head, same tail)
        a = np.zeros(1501); a[600:900] = 2.0; return a
    if v == "K6":
        a = np.ones(4); a[0] = 0.0; return a
    if v == "K7":     # differs from K6 only in the sign of zero
        a = np.ones(4); a[0] = -0.0; return a
    if v == "K8":     # one element in the middle of a long array, beyond the 8th digit
        a = np.zeros(1500) + 1.0; a[750] = 1.0 + 2.0 ** -40; return a
    if v == "K9":
        return np.zeros(1500) + 1.0
    raise ValueError(v)
KVARS = ["K0", "K1", "K2", "K3", "K4", "K5", "K6", "K7", "K8", "K9", "KN"]

# scalar defaults of same-named operators `os` that are hash-colliding or ==-equal without being identical
def sval(v):
    import numpy as np
    return {"S0": -1, "S1": -2,                    # CPython: hash(-1) == hash(-2) == -2
            "S2": -1.0, "S3": -2.0,                # ... also for floats
            "S4": 0.0, "S5": -0.0,                 # == but not identical (the value pipeline drops the sign of a scalar zero anyway)
            "S6": 1, "S7": 1.0, "S8": True,        # 1 == 1.0 == True, one hash
            "S9": 0, "S10": 2.0 ** 61,             # hash modulus 2^61-1: hash(2.0**61) == 1 == hash(1.0)
            "S11": 0.1, "S12": np.float64(0.1),    # numpy scalar vs Python scalar of equal value
            "S13": "1",                            # string '1' vs 1
            "S14": 2.0 ** 61 - 2.0 ** 9}[v]        # hash(2^61 - 512) == hash(-511.0)... another residue class
SVARS = ["S%d" % i for i in range(15)]

def kbuild(variants):
    """one node per variant (A, B), each with its OWN OperatorTemplate object named `oc`"""
    from pyrates import OperatorTemplate, NodeTemplate, CircuitTemplate
    nd = {}
    for lab, v in zip("AB", variants):
        if v.startswith("S"):
            op = OperatorTemplate(name="os", path=None, equations=["d/dt * x = -k*x"], variables={'x': 'output(0.5)', 'k': sval(v)})
        elif v == "KN":     # right-hand side that is a bare number: ExpressionParser's dummy-constant path
            op = OperatorTemplate(name="oc", path=None, equations=["d/dt * x = 0.5"], variables={'x': 'output(0.5)'})
        else:
            a = karray(v)
            op = OperatorTemplate(name="oc", path=None, equations=["d/dt * x = -x + index(c, t)"],
                                  variables={'x': 'output(0.5)', 'c': {'vtype': 'constant', 'value': a, 'shape': a.shape, 'dtype': 'float'},
                                             't': {'vtype': 'variable', 'value': 0, 'dtype': 'int', 'shape': ()}})
        nd[lab] = NodeTemplate(name=lab, operators=[op], path=None)
    return CircuitTemplate(name="net", nodes=nd, edges=[], path=None)

def kecho(variants, o, raw):
    """the clause `never inherit ... values ... from earlier ones`, directly: every node's constant argument is the array its own
    operator declared (as float64, bit for bit) and dy = -x + c[0] (0.5 for KN)"""
    import numpy as np
    from pyr import frac
    names, dy = o["names"], o["dy"]
    if variants[0].startswith("S"):      # scalar defaults: the argument k is the declared number, dy = -k*x
        kargs = [r for n, r in zip(names, raw) if n.endswith("/os/k")]
        if len(kargs) != len(variants) or len(dy) != len(variants):
            return False
        for i, (got, v) in enumerate(zip(kargs, variants)):
            k = float(sval(v))
            g = np.asarray(got, dtype=np.float64).reshape(-1)
            if g.shape != (1,) or g[0] != k or Fr(dy[i]) != -Fr(k) * Fr(i + 1, 4):
                return False
        return True
    cargs = [r for n, r in zip(names, raw) if n.endswith("/oc/c")]
    want = [v for v in variants if v != "KN"]
    if len(cargs) != len(want) or len(dy) != len(variants):
        return False
    for got, v in zip(cargs, want):
        a = np.asarray(karray(v), dtype=np.float64)
        g = np.asarray(got, dtype=np.float64).reshape(-1)
        if g.shape != a.shape or g.tobytes() != a.tobytes():      # bit for bit: also the sign of zero
            return False
    for i, v in enumerate(variants):
        y = Fr(i + 1, 4)
        exp = Fr(1, 2) if v == "KN" else -y + Fr(float(np.asarray(karray(v), dtype=np.float64)[0]))
        if Fr(dy[i]) != exp:
            return False
    return True

def call(f, a):
    """default backend: the function returns dy; Fortran (f2py): dy is an in/out argument and nothing is returned"""
    import numpy as np
    r = f(*a)
    return np.array(a[2] if r is None else r)

def fixed_op_cache_key():
    """second one-line switch of Caches.v (true = repair D90: OperatorTemplate.cache keyed by the definition; false = keyed by name)"""
    txt = open(os.path.join(COQ, "theories", "Caches.v")).read()
    return re.search(r"Definition fixed_op_cache_key : bool := (true|false)\.", txt).group(1) == "true"

def fixed_yaml_copy():
    """third one-line switch of Caches.v (true = repair D91: from_yaml hands out copies of loaded circuits)"""
    txt = open(os.path.join(COQ, "theories", "Caches.v")).read()
    return re.search(r"Definition fixed_yaml_copy : bool := (true|false)\.", txt).group(1) == "true"

def fixed_D29():
    """fourth one-line switch of Caches.v (true = repair D96, in /repo since 8faa606: the Fortran extension module is named per source)"""
    txt = open(os.path.join(COQ, "theories", "Caches.v")).read()
    return re.search(r"Definition fixed_D29 : bool := (true|false)\.", txt).group(1) == "true"

def vec_models():
    """with the structural operator-cache key M7 has two structural classes: outside the model's domain when vectorizing"""
    return [m for m in MODELS if not (m == "M7" and fixed_op_cache_key())]

def pick(rng, vec):
    return rng.choice(vec_models() if vec else MODELS)

def deco(f, factor=1):
    """user decorator of the decorator=/decorator_kwargs= stream: scales the vector field"""
    def scaled(*a):
        import numpy as np
        return np.asarray(f(*a)) * factor
    return scaled

def observe(c, vec, clr, inplace, ops=None, backend='default', file='m', extra=None):
    import numpy as np
    from pyr import fracs
    kw = dict(ops=ops) if ops else {}
    kw.update(extra or {})
    f, args, names, smap = c.get_run_func('f', 0.125, file_name=file, backend=backend, solver='euler', vectorize=vec,
                                          float_precision='float64', in_place=inplace, clear=clr, verbose=False, **kw)
    vals = [fracs(v) for v in args[3:]]              # before the call: the function writes into its buffers
    n = len(args[1])
    a = list(args); a[1] = np.array([0.25 * (i + 1) for i in range(n)])
    dy = fracs(call(f, a))
    sm = sorted(([k, [int(v[0]), int(v[1])] if isinstance(v, tuple) else [int(v), int(v) + 1]] for k, v in smap.items()),
                key=lambda e: (e[1][0], e[0]))
    return dict(names=list(names[3:]), vals=vals, smap=sm, dy=dy), (f, a, dy)

def run_steps(case, fresh):
    """Executes the history and the final compilation in THIS process.  fresh=True: the process is a new interpreter and
    nothing is reset; otherwise the caches are reset once, before the history starts (and after the case)."""
    import numpy as np
    from pyr import fracs, reset_pyrates
    from pyrates import CircuitTemplate, clear, clear_frontend_caches
    if not fresh:
        reset_pyrates()
    os.makedirs("ym", exist_ok=True)
    open("ym/t.yaml", "w").write(YAML)
    handles, funcs = [], []
    def one(op):
        kind = op[0]
        try:
            if kind in ("cin", "dcompile"):
                c = build(op[1]); handles.append(c)
                if kind == "cin":       # extrinsic input on variable r of node A: a constant array of dyadic values
                    extra = dict(inputs={f"A/{POOL[op[1]][0][0][1]}/r": np.zeros(4) + float(Fr(op[5]))})
                else:
                    extra = dict(decorator=deco, decorator_kwargs=dict(factor=float(Fr(op[5]))))
                o, fn = observe(c, op[2], op[3], op[4], extra=extra)
                funcs.append(fn)
                return dict(ok="compile", **o)
            if kind == "kcompile":      # [kind, [variants], False, clear, in_place, to_file]
                c = kbuild(op[1]); handles.append(c)
                o, fn = observe(c, False, op[3], op[4], extra=dict(to_file=op[5]))
                funcs.append(fn)
                o["echo"] = kecho(op[1], o, fn[1][3:])
                o["vals"] = [v if len(v) <= 8 else v[:3] + [f"... {len(v)} values, sha " + __import__("hashlib").sha1(",".join(v).encode()).hexdigest()[:12]] + v[-3:]
                             for v in o["vals"]]
                return dict(ok="compile", **o)
            if kind in ("jcompile", "jrun"):      # [kind, model, precision, clear]
                c = build(op[1]); handles.append(c)
                if kind == "jrun":
                    res = c.run(simulation_time=0.5, step_size=0.125, solver='euler', backend='jax', vectorize=True, clear=op[3], in_place=False,
                                verbose=False, float_precision=op[2], file_name='m', outputs={'o': f"A/{POOL[op[1]][0][0][1]}/x"})
                    return dict(ok="compile", names=[], vals=[], smap=[], dy=fracs(np.asarray(res.values, dtype=np.float64)))
                f, args, names, smap = c.get_run_func('f', 0.125, file_name='m', backend='jax', solver='euler', vectorize=True,
                                                      float_precision=op[2], in_place=False, clear=op[3], verbose=False)
                a = list(args); a[1] = np.array([0.25 * (i + 1) for i in range(len(args[1]))], dtype=np.asarray(args[1]).dtype)
                dy = fracs(np.asarray(f(*a), dtype=np.float64))
                funcs.append((lambda *aa, _f=f: np.asarray(_f(*aa), dtype=np.float64), a, dy))
                return dict(ok="compile", names=list(names[3:]), vals=[fracs(np.asarray(v, dtype=np.float64)) for v in args[3:]], smap=[], dy=dy,
                            dtype=str(np.asarray(f(*a)).dtype))
            if kind == "fcompile":
                c = build(op[1]); handles.append(c)
                o, fn = observe(c, False, op[3], False, backend='fortran', file=op[2])
                funcs.append(fn)
                return dict(ok="compile", **o)
            if kind in ("compile", "run", "jac", "yload"):
                c = CircuitTemplate.from_yaml(YPATH) if kind == "yload" else build(op[1])
                handles.append(c)
                if kind == "jac":
                    kw = dict(ops=helper(op[1])) if op[1] in HPOOL else {}
                    c.get_jacobian_func('j', 0.125, file_name='m', backend='default', solver='euler', vectorize=op[2], clear=op[3],
                                        in_place=op[4], verbose=False, float_precision='float64', **kw)
                    return dict(ok="jac")
                if kind == "run":
                    opn = "oh" if op[1] in HPOOL else POOL[op[1]][0][0][1]
                    kw = dict(ops=helper(op[1])) if op[1] in HPOOL else {}
                    res = c.run(simulation_time=0.25, step_size=0.125, solver='euler', vectorize=op[2], clear=op[3], in_place=op[4],
                                verbose=False, float_precision='float64', file_name='m', outputs={'o': f"A/{opn}/x"}, **kw)
                    return dict(ok="run", out=fracs(res.values))
                o, fn = observe(c, op[2], op[3], op[4], helper(op[1]) if kind != 'yload' else None)
                funcs.append(fn)
                return dict(ok="compile", **o)
            if kind in ("mclear", "uclear"):
                c = handles[op[1] % len(handles)] if handles else build("M0")
                c.clear() if kind == "mclear" else clear(c)
                return dict(ok=kind)
            if kind == "cfc":
                clear_frontend_caches(clear_template_cache=op[1], clear_ir_cache=op[2]); return dict(ok="cfc")
            if kind == "yupd":
                CircuitTemplate.from_yaml(YPATH).update_var(node_vars={"A/op/k": float(Fr(op[1]))}); return dict(ok="yupd")
        except Exception as e:
            return dict(err=type(e).__name__, msg=str(e)[:160])
        raise ValueError(f"unknown step {kind}")
    try:
        trace = [one(op) for op in case["hist"]]
        final = one(case["final"])
        stable = True       # functions returned earlier keep computing their own model
        for f, a, dy in (funcs[:-1] if final.get("ok") == "compile" else funcs):
            try:
                stable = stable and fracs(call(f, a)) == dy
            except Exception:
                stable = False
    finally:
        if not fresh:
            reset_pyrates()
    echo_fail = [i for i, t in enumerate(trace + [final]) if t.get("echo") is False]
    return dict(final=final, trace=[t["err"] if "err" in t else "" for t in trace], stable=stable, echo_fail=echo_fail)

def impl(case):
    return run_steps(case, fresh=False)

# ---------------------------------------------------------------------------------------------- fresh interpreters
def fresh_results(ctx, finals):
    """{canon(final): observable of `final` as the first thing a new Python process does} — one interpreter per entry."""
    def one(final):
        wd = tempfile.mkdtemp(prefix="fresh_", dir=ctx.scratch)
        p = subprocess.run([PY, os.path.abspath(__file__), "--fresh", json.dumps(dict(hist=[], final=final))],
                           cwd=wd, env=py_env(), capture_output=True, text=True, timeout=300)
        shutil.rmtree(wd, ignore_errors=True)
        lines = [l for l in p.stdout.splitlines() if l.startswith("RESULT ")]
        if p.returncode != 0 or not lines:
            return dict(err="fresh-interpreter-failed", detail=(p.stderr or p.stdout)[-400:])
        return json.loads(lines[-1][7:])["final"]
    uniq = {canon(f): f for f in finals}
    with ThreadPoolExecutor(max_workers=int(os.environ.get("VERIF_JOBS", "6"))) as ex:
        res = list(ex.map(one, uniq.values()))
    return dict(zip(uniq.keys(), res))

# ---------------------------------------------------------------------------------------------- generator
def gen_case(rng, maxlen=10):
    n = rng.randint(1, maxlen)
    style = rng.random()
    pclear = 0.15 if style < 0.3 else (0.6 if style < 0.6 else 0.92)     # how disciplined the history is
    hist, nh = [], 0
    def target():        # half of the clearing calls aim at the circuit compiled last (the one that holds the IR, if any does)
        return nh - 1 if nh and rng.random() < 0.5 else rng.randrange(100)
    for _ in range(n):
        r = rng.random()
        if r < 0.5:
            m, v = rng.choice(MODELS), rng.random() < 0.5
            if v and m not in vec_models():
                v = False
            hist.append([rng.choice(["compile", "compile", "run", "jac"]), m, v, rng.random() < pclear, rng.random() < 0.4]); nh += 1
        elif r < 0.6:
            hist.append(["yload", None, False, rng.random() < pclear, False]); nh += 1
        elif r < 0.66:
            hist.append(["yupd", rng.choice(["5", "3/2"])])
        elif r < 0.78:
            hist.append(["mclear", target()])
        elif r < 0.9:
            hist.append(["uclear", target()])
        else:
            hist.append(["cfc", rng.random() < 0.6, rng.random() < 0.7])
    touched_yaml = any(o[0] in ("yupd", "yload") for o in hist)
    if rng.random() < (0.6 if touched_yaml else 0.1):
        final = ["yload", None, False, False, False]
    else:
        m, v = rng.choice(MODELS), rng.random() < 0.5
        final = ["compile", m, v and m in vec_models(), False, False]
    return dict(hist=hist, final=final)

def is_ops(case):
    return any((o[0] in ("compile", "run", "jac") and o[1] in HPOOL) or o[0] in ("dcompile", "kcompile", "jcompile", "jrun")
               for o in case["hist"] + [case["final"]])

def is_inputs(case):
    return any(o[0] == "cin" for o in case["hist"] + [case["final"]])

IN_FINALS = ["M0", "M2", "M3", "M4"]
def gen_inputs_case(rng):
    """compilations with an extrinsic input on a same-named variable, one-flag clear_frontend_caches calls in between"""
    hist, nh = [], 0
    for _ in range(rng.randint(1, 5)):
        r = rng.random()
        if r < 0.45:
            m, v = rng.choice(MODELS), rng.random() < 0.5
            hist.append(["cin", m, v and m in vec_models(), rng.random() < 0.35, rng.random() < 0.3, rng.choice(["1", "3"])]); nh += 1
        elif r < 0.55:
            m, v = rng.choice(MODELS), rng.random() < 0.5
            hist.append(["compile", m, v and m in vec_models(), rng.random() < 0.35, False]); nh += 1
        elif r < 0.8:
            hist.append(["cfc"] + rng.choice([[True, False], [False, True], [False, True], [True, True]]))
        elif r < 0.9:
            hist.append(["mclear", nh - 1 if nh else 0])
        else:
            hist.append(["uclear", nh - 1 if nh else 0])
    return dict(hist=hist, final=["cin", rng.choice(IN_FINALS), rng.random() < 0.5, False, False, "3"])

def inputs_directed():
    I = lambda m, v=False, c=False, x="1": ["cin", m, v, c, False, x]
    return [dict(hist=[], final=I(m, v, False, "3")) for m in IN_FINALS for v in (False, True)] + [
            dict(hist=[I("M0"), ["cfc", False, True]], final=I("M3", False, False, "3")),
            dict(hist=[I("M0"), ["cfc", True, False]], final=I("M3", False, False, "3")),
            dict(hist=[I("M0", True), ["cfc", False, True]], final=I("M4", True, False, "3")),
            dict(hist=[I("M0"), ["mclear", 0]], final=I("M2", False, False, "3")),
            dict(hist=[I("M4", True), ["uclear", 0]], final=I("M4", True, False, "3")),
            dict(hist=[I("M0", False, True)], final=I("M2", False, False, "3"))]

def gen_deco_case(rng):
    hist, nh = [], 0
    for _ in range(rng.randint(1, 3)):
        clr = rng.random() < 0.6
        hist.append(["dcompile", rng.choice(["M0", "M2"]), False, clr, rng.random() < 0.3, rng.choice(["2", "3"])]); nh += 1
        if not clr:
            hist.append(["mclear", nh - 1])
    return dict(hist=hist, final=["dcompile", rng.choice(["M0", "M2"]), False, False, False, rng.choice(["2", "3"])])

def deco_directed():
    D = lambda m, f, c=True: ["dcompile", m, False, c, False, f]
    return [dict(hist=[D("M0", "2")], final=D("M0", "3", False)), dict(hist=[D("M0", "3")], final=D("M2", "2", False)),
            dict(hist=[D("M2", "2", False), ["mclear", 0]], final=D("M2", "3", False))]

def is_consts(case):
    return any(o[0] == "kcompile" for o in case["hist"] + [case["final"]])

def is_jax(case):
    return any(o[0] in ("jcompile", "jrun") for o in case["hist"] + [case["final"]])

KPAIRS = [("K0", "K1"), ("K2", "K3"), ("K2", "K4"), ("K0", "K5"), ("K6", "K7"), ("K9", "K8"), ("K2", "KN")]
SPAIRS = [("S0", "S1"), ("S2", "S3"), ("S4", "S5"), ("S6", "S7"), ("S6", "S8"), ("S7", "S10"), ("S9", "S4"), ("S11", "S12"), ("S13", "S6"),
          ("S0", "S2"), ("S10", "S14")]
def gen_consts_case(rng):
    """same-named operators with subtly different array constants, mostly WITHOUT a clear in between; judged by the echo oracle"""
    a, b = rng.choice(KPAIRS + SPAIRS)
    if rng.random() < 0.5:
        a, b = b, a
    fam = SVARS if a.startswith("S") else KVARS
    def K(vs, clr=False):
        return ["kcompile", vs, False, clr, rng.random() < 0.3, rng.random() < 0.8]
    hist = [K([a], rng.random() < 0.25)]
    if rng.random() < 0.3:
        hist.append(rng.choice([["cfc", True, False], ["cfc", False, True], ["mclear", 0], K([rng.choice(fam)])]))
    final = K([b]) if rng.random() < 0.7 else K([b, a])
    return dict(hist=hist, final=final)

def consts_directed():
    K = lambda vs, clr=False, tf=True: ["kcompile", vs, False, clr, False, tf]
    return [dict(hist=[K([a])], final=K([b])) for a, b in KPAIRS + SPAIRS] + [dict(hist=[], final=K([a, b])) for a, b in KPAIRS[:4] + SPAIRS[:3]] + \
           [dict(hist=[K(["S1"])], final=K(["S0"])), dict(hist=[K(["S3"]), K(["S1"])], final=K(["S2", "S0"]))] + \
           [dict(hist=[K(["K0"], True)], final=K(["K1"], False, False))]

JMODELS = ["M0", "M2", "M8"]
def gen_jax_case(rng):
    """jax compilations and runs with both precisions and different parameter values; every step cleared (disciplined)"""
    hist = [[rng.choice(["jcompile", "jrun"]), rng.choice(JMODELS), rng.choice(["float64", "float32"]), True] for _ in range(rng.randint(1, 3))]
    return dict(hist=hist, final=[rng.choice(["jcompile", "jrun"]), rng.choice(JMODELS), rng.choice(["float64", "float32"]), False])

def jax_directed():
    return [dict(hist=[["jcompile", "M8", "float64", True], ["jcompile", "M0", "float32", True]], final=["jcompile", "M8", "float64", False]),
            dict(hist=[["jrun", "M0", "float64", True]], final=["jrun", "M2", "float64", False]),
            # the LAST construction is a float32 one: functions returned earlier for float64 models must keep computing at 64 bits
            dict(hist=[["jcompile", "M8", "float64", True]], final=["jcompile", "M0", "float32", False]),
            dict(hist=[["jcompile", "M8", "float64", False], ["mclear", 0], ["jrun", "M2", "float32", True]], final=["jcompile", "M2", "float32", False]),
            dict(hist=[["jrun", "M8", "float64", True], ["jrun", "M0", "float32", True]], final=["jrun", "M8", "float64", False])]

def is_fortran(case):
    return any(o[0] == "fcompile" for o in case["hist"] + [case["final"]])

FMODELS = ["M0", "M1", "M2"]      # one node, no edge: the same routine signature f(t,y,dy,k,r), so that a stale routine is called silently
def gen_fortran_case(rng):
    """<= 3 Fortran compilations (~3-6 s each) + the final one, mixed with default-backend compilations and clears"""
    hist, nh, nf = [], 0, 0
    for _ in range(rng.randint(1, 5)):
        r = rng.random()
        if r < 0.45 and nf < 3:
            hist.append(["fcompile", rng.choice(FMODELS), rng.choice(["m", "m", "n"]), rng.random() < 0.7]); nh += 1; nf += 1
        elif r < 0.7:
            hist.append(["compile", rng.choice(FMODELS), False, rng.random() < 0.6, False]); nh += 1
        elif r < 0.8:
            hist.append(["mclear", nh - 1 if nh else 0])
        elif r < 0.9:
            hist.append(["uclear", nh - 1 if nh else 0])
        else:
            hist.append(["cfc", True, True])
    return dict(hist=hist, final=["fcompile", rng.choice(FMODELS), rng.choice(["m", "m", "n"]), False])

def disciplined_py(case):
    """syntactic guard of the ops= stream: every compile/run asks for clear=True or is directly followed by circuit.clear() on it"""
    nh, h = 0, case["hist"]
    for i, o in enumerate(h):
        if o[0] in ("compile", "run", "jac", "dcompile", "kcompile", "jcompile", "jrun", "yload"):
            nh += 1
            if not o[3] and not (i + 1 < len(h) and h[i + 1] == ["mclear", nh - 1]):
                return False
        elif o[0] == "yupd":
            return False
    return True

def gen_ops_case(rng):
    hist, nh = [], 0
    for _ in range(rng.randint(1, 4)):
        m = rng.choice(sorted(HPOOL) + ["M0"])
        clr = rng.random() < 0.6
        hist.append([rng.choice(["compile", "compile", "run", "jac"]), m, rng.random() < 0.5, clr, rng.random() < 0.4]); nh += 1
        if not clr:
            hist.append(["mclear", nh - 1])
    return dict(hist=hist, final=["compile", rng.choice(sorted(HPOOL)), rng.random() < 0.5, False, False])

def ops_directed():
    C = lambda m, v=False, c=True, i=False: ["compile", m, v, c, i]
    return [dict(hist=[C("H1")], final=C("H2", False, False)), dict(hist=[C("H2", True)], final=C("H1", True, False)),
            dict(hist=[C("H1", False, False), ["mclear", 0]], final=C("H2", False, False)),
            dict(hist=[["run", "H1", False, True, True]], final=C("H2", False, False)),
            dict(hist=[C("H1"), C("H2")], final=C("H1", False, False)), dict(hist=[C("H1")], final=C("H3", False, False))]

def all_finals():
    return [["compile", m, v, False, False] for m in MODELS for v in (False, True) if not v or m in vec_models()] + [["yload", None, False, False, False]]

def overlap(case):
    """non-triviality: an earlier compilation shares the file name (always 'm') and a node label / operator name / structural
    class with the final model — every pool model has a node `A` — so: history contains >= 1 compile/run/yload step"""
    return any(o[0] in ("compile", "run", "jac", "cin", "dcompile", "fcompile", "yload") for o in case["hist"])

# ---------------------------------------------------------------------------------------------- model side
def header():
    return HEADER.replace("@FX@", cbool(fixed_clear()))

HEADER = """From Coq Require Import List String ZArith QArith Qcanon Bool.
From PV Require Import Caches CachesProofs Corr.
Import ListNotations.
Open Scope string_scope.
Definition E2 : expr := Add (Mul VK (Mul VX VX)) (Neg VR).
Definition N (l o : string) (e : expr) (k : Qc) (ov : option Qc) : mnode :=
  {| m_label := l; m_op := o; m_eq := e; m_kdef := k; m_over := ov |}.
Definition MD (ns : list mnode) (es : list (string * string * Qc)) : model := {| m_nodes := ns; m_edges := es |}.
""" + "".join(
    f"Definition {name} : model := MD {clist([f'(N {cstr(l)} {cstr(o)} {COQ_EQ[e]} {cq(k)} {copt(ov, cq)})' for l, o, e, k, ov in nodes])} "
    f"{clist([f'({cstr(s)}, {cstr(t)}, {cq(w)})' for s, t, w in edges])}.\n" for name, (nodes, edges) in sorted(POOL.items())) + """
Definition FX : bool := @FX@.
Definition case := (list hop * hop * list string * obs)%type.
Definition modelled (c : case) : obs := let '(h, f, _, _) := c in snd (step_with FX (run_hist_with FX h G0) f).
Definition okI (c : case) : bool := let '(h, f, tr, ob) := c in
  list_eqb String.eqb (map cls (trace_with FX h G0)) tr && obs_eqb (snd (step_with FX (run_hist_with FX h G0) f)) ob.
Definition okS (c : case) : bool := let '(h, f, _, ob) := c in obs_eqb (snd (step_with FX G0 f)) ob.
(* guards, by what the final call reads: default backend = the frontend caches; Fortran = also the module tables *)
Definition gC (c : case) : bool := let '(h, f, _, _) := c in
  match f with
  | FCompile _ _ _ => if fixed_D29 then frontend_clean (run_hist_with FX h G0) else caches_clean (run_hist_with FX h G0)
  | _ => frontend_clean (run_hist_with FX h G0)
  end.
Definition gT (c : case) : bool := let '(h, f, _, _) := c in
  match f with YLoad _ => template_clean (run_hist_with FX h G0) | _ => true end.
(* Fortran final: the guard of C13_partial_fortran:  fixed_D29 || FortranClean *)
Definition gF (c : case) : bool := let '(h, f, _, _) := c in
  match f with FCompile _ _ _ => fixed_D29 || fortran_clean (run_hist_with FX h G0) | _ => true end.
"""

def coq_hop(op):
    k = op[0]
    if k in ("compile", "run", "jac"):
        return f"({dict(compile='Compile', run='Run', jac='Jac')[k]} {op[1]} {cbool(op[2])} {cbool(op[3])} {cbool(op[4])})"
    if k == "cin":
        return f"(CompileIn {op[1]} {cbool(op[2])} {cbool(op[3])} {cbool(op[4])})"
    if k == "fcompile":
        return f"(FCompile {op[1]} {cstr(op[2])} {cbool(op[3])})"
    if k == "yload":
        return f"(YLoad {cbool(op[3])})"
    if k == "yupd":
        return f"(YUpd {cq(op[1])})"
    if k == "mclear":
        return f"(MClear {cnat(op[1])})"
    if k == "uclear":
        return f"(UClear {cnat(op[1])})"
    if k == "cfc":
        return f"(CFC {cbool(op[1])} {cbool(op[2])})"
    raise ValueError(k)

def abstract(final, kind=None):
    """projection of the real observable onto what the model predicts"""
    if "err" in final:
        return f"(OErr {cstr(final['err'])})"
    if kind == "cin":         # the model does not predict the observable of a compilation with inputs, only that it compiles
        return "OAck"
    kv = [clist([cq(x) for x in v]) for n, v in zip(final["names"], final["vals"]) if n.endswith("/k")]
    sm = [f"({cstr(k)}, {cnat(a)}, {cnat(b)})" for k, (a, b) in final["smap"]]
    return f"(OOk {clist([cstr(n) for n in final['names']])} {clist(kv)} {clist(sm)} {clist([cq(x) for x in final['dy']])})"

def coq_case(case, out):
    return (f"({clist([coq_hop(o) for o in case['hist']])}, {coq_hop(case['final'])}, "
            f"{clist([cstr(t) for t in out['trace']])}, {abstract(out['final'], case['final'][0])})")

def model_compare(ctx, cases, outs, tag):
    """index lists: real != Impl (history model), real != Spec (fresh-state model), guards CachesClean / TemplateClean / FortranClean false"""
    res = [[], [], [], [], []]
    shard = 80
    for s in range(0, len(cases), shard):
        terms = [coq_case(c, o) for c, o in zip(cases[s:s + shard], outs[s:s + shard])]
        body = ("Definition cases : list case := " + clist(terms) + ".\n" +
                "".join(f"Eval vm_compute in (mismatches {f} cases).\n" for f in ("okI", "okS", "gC", "gT", "gF")))
        ls = parse_nat_lists(coq_eval(ctx, f"c13_{tag}_{s}", header(), body))
        assert len(ls) == 5, ls
        for k in range(5):
            res[k] += [s + i for i in ls[k]]
    return res

def model_output(ctx, case, out, tag):
    body = f"Definition c : case := {coq_case(case, out)}.\nEval vm_compute in (modelled c).\nEval vm_compute in (gC c, gT c, gF c).\n"
    try:
        return coq_eval(ctx, f"c13_show_{tag}", header(), body)[:5000]
    except Exception as e:
        return f"(model evaluation failed: {e})"

# ---------------------------------------------------------------------------------------------- verdict helpers
def differs(out, fresh):
    """the property itself, on the full observable: final result after the history vs. fresh interpreter"""
    return out["final"] != fresh or not out["stable"]

def evaluate(ctx, cases, tag):
    # an imported Fortran extension module cannot be unloaded (that is D29): histories with Fortran compilations get a worker
    # process of their own, the others share workers (reset_pyrates before each history)
    outs = [None] * len(cases)
    plain = [i for i, c in enumerate(cases) if not is_fortran(c)]
    fort = [i for i, c in enumerate(cases) if is_fortran(c)]
    for i, r in zip(plain, run_impl(ctx, "c13", "impl", [cases[i] for i in plain], per_case_timeout=120)):
        outs[i] = r
    jobs = int(os.environ.get("VERIF_JOBS", "6"))
    for s0 in range(0, len(fort), jobs):
        part = fort[s0:s0 + jobs]
        for i, r in zip(part, run_impl(ctx, "c13", "impl", [cases[i] for i in part], nworkers=len(part), per_case_timeout=240)):
            outs[i] = r
    crashed = [i for i, r in enumerate(outs) if "final" not in r]
    # constants stream: judged by the echo oracle; compared with a fresh interpreter only when the history is disciplined
    needs_fresh = [c for c in cases if not (is_consts(c) and not disciplined_py(c))]
    fresh = fresh_results(ctx, [c["final"] for c in needs_fresh])
    good_all = [i for i in range(len(cases)) if i not in crashed]
    good = [i for i in good_all if not is_ops(cases[i])]          # the cases the Coq model covers
    badI, badS, gC, gT, gF = model_compare(ctx, [cases[i] for i in good], [outs[i] for i in good], tag) if good else ([], [], [], [], [])
    badI = [good[i] for i in badI]; badS = [good[i] for i in badS]
    guard_viol = {}
    for i in gC:
        guard_viol.setdefault(good[i], []).append("CachesClean")
    for i in gT:
        guard_viol.setdefault(good[i], []).append("TemplateClean")
    for i in gF:
        guard_viol.setdefault(good[i], []).append("FortranClean")
    for i in good_all:
        if is_ops(cases[i]) and not is_consts(cases[i]) and not disciplined_py(cases[i]):
            guard_viol[i] = ["CachesClean"]
    good = good_all
    # compilations with inputs: the model only carries the counters; where it does not reproduce which steps raise, its guard
    # cannot be trusted for that history: counted as unmodelled, not judged
    unmodelled = [i for i in badI if is_inputs(cases[i])]
    badI = [i for i in badI if i not in unmodelled]; badS = [i for i in badS if i not in unmodelled]
    good = [i for i in good if i not in unmodelled]
    def judged(i):
        c, o = cases[i], outs[i]
        if is_consts(c):      # every compilation of the history must hand its own operators' constants to its function
            return bool(o.get("echo_fail")) or (disciplined_py(c) and differs(o, fresh[canon(c["final"])]))
        return differs(o, fresh[canon(c["final"])])
    leak = [i for i in good if judged(i)]
    fresh_bad = [k for k, v in fresh.items() if "err" in v and v["err"] == "fresh-interpreter-failed"]
    return dict(unmodelled=unmodelled, outs=outs, crashed=crashed, fresh=fresh, badI=badI, badS=sorted(set(badS) | set(leak)), leak=leak,
                guard_viol=guard_viol, fresh_bad=fresh_bad)

def shrink(ctx, case):
    best, budget = case, 10
    i = 0
    while i < len(best["hist"]) and budget > 0:
        cand = dict(best, hist=best["hist"][:i] + best["hist"][i + 1:])
        budget -= 1
        ev = evaluate(ctx, [cand], f"s{budget}")
        if ev["badS"] and not ev["guard_viol"]:
            best = cand
        else:
            i += 1
    return best

# ---------------------------------------------------------------------------------------------- check
def check(ctx):
    pr = proof_gate(ctx, NEEDS)
    problem = proof_problem(pr)
    n = 80 if ctx.tier == "quick" else 1200
    if problem:
        n *= 3
    corpus = load_corpus("C13")
    if ctx.replay:
        rp = json.load(open(ctx.replay))
        cases = [dict(hist=rp["case"]["hist"], final=rp["case"]["final"])] if "case" in rp else []
    else:
        # the Fortran regression cases of the corpus (reg_D96_*, ok_*fortran*: ~3 s per f2py run, one process per history) run at
        # every tier, so that a revert of D96 is seen by the quick tier; the random Fortran stream belongs to the thorough tier
        fort = [] if ctx.tier == "quick" else [dict(hist=[], final=["fcompile", m, "m", False]) for m in FMODELS] + \
               [gen_fortran_case(ctx.rng) for _ in range(24)]
        cases = ([dict(hist=c["hist"], final=c["final"]) for c in corpus] + [dict(hist=[], final=f) for f in all_finals()] + fort +
                 [gen_case(ctx.rng) for _ in range(n)] + ops_directed() + [gen_ops_case(ctx.rng) for _ in range(6 if ctx.tier == "quick" else 80)] +
                 deco_directed() + [gen_deco_case(ctx.rng) for _ in range(4 if ctx.tier == "quick" else 40)] +
                 inputs_directed() + [gen_inputs_case(ctx.rng) for _ in range(12 if ctx.tier == "quick" else 200)] +
                 consts_directed() + [gen_consts_case(ctx.rng) for _ in range(6 if ctx.tier == "quick" else 120)] +
                 jax_directed() + [gen_jax_case(ctx.rng) for _ in range(1 if ctx.tier == "quick" else 30)])
    ev = evaluate(ctx, cases, "main")
    outs, gv = ev["outs"], ev["guard_viol"]
    if ev["fresh_bad"]:
        raise RuntimeError(f"fresh interpreter failed: {ev['fresh_bad'][:2]} {[ev['fresh'][k] for k in ev['fresh_bad'][:1]]}")
    compat = [i for i in range(len(cases)) if i not in gv and i not in ev["crashed"]]
    ctx.note(f"E1: {len(cases)} histories ({sum(len(c['hist']) + 1 for c in cases)} API calls), {len(ev['fresh'])} fresh interpreters; "
             f"guard-satisfying {len(compat)}, guard-violating {len(gv)}; result differs from fresh interpreter on {len(ev['leak'])} "
             f"(of which inside the guard: {len([i for i in ev['leak'] if i not in gv])}); impl-vs-Impl mismatches {len(ev['badI'])} "
             f"(inside the guard: {len([i for i in ev['badI'] if i not in gv])}); harness/worker errors {len(ev['crashed'])}; "
             f"of the histories {sum(1 for c in cases if is_ops(c))} are the ops= stream (user helper functions; real code vs fresh interpreter only), "
             f"{sum(1 for c in cases if is_fortran(c))} contain Fortran compilations; model switches fixed_clear={fixed_clear()} fixed_op_cache_key={fixed_op_cache_key()} fixed_yaml_copy={fixed_yaml_copy()} fixed_D29={fixed_D29()}")
    def show(c):
        e = evaluate(ctx, [c], "show")
        o = e["outs"][0]
        return dict(implementation_output=o, fresh_interpreter=e["fresh"].get(canon(c["final"])),
                    model_output=model_output(ctx, c, o, "d") if "final" in o and not is_ops(c) else "(ops= stream: outside the Coq model)",
                    guards_violated=e["guard_viol"].get(0, []))
    def witness_check(f):
        w = json.load(open(os.path.join(VERIF, f["witness"])))
        e = evaluate(ctx, [dict(hist=w["hist"], final=w["final"])], "w" + f["id"].replace("-", "_"))
        return bool(e["leak"])
    conclude(ctx, cases=cases, impl_out=outs, bad_spec=ev["badS"], bad_impl=ev["badI"], crashed=ev["crashed"], problem=problem,
             guard_viol=gv, show=show, shrink=lambda c: shrink(ctx, c), witness_check=witness_check,
             spec_name="Caches.obs_of G0 (the same model compiled first in a fresh process; fresh interpreter = reference)",
             impl_name="Caches.step/run_hist (cache state machine)")
    # the cache state machine has been exact on every history, also outside the guards: a disagreement there means the model no
    # longer describes what the code does with its caches (e.g. a clearing call that resets other components than before)
    strict = [i for i in ev["badI"] if i in gv and i not in ev["crashed"]]
    if strict and not ctx.violations:
        i = strict[0]
        violation(ctx, write_replay(ctx, "correspondence", dict(
            broken="correspondence outside the guards: the real code no longer does with its caches what Caches.step says "
                   "(the history is guard-violating, so the result may differ from a fresh process, but not in another way than modelled)",
            case=cases[i], implementation_output=outs[i], cases_affected=len(strict), diagnostic=show(cases[i]))))
    ctx.note(f"streams: constants (echo oracle) {sum(1 for c in cases if is_consts(c))}, jax {sum(1 for c in cases if is_jax(c))}")
    ctx.note(f"streams: inputs= {sum(1 for c in cases if is_inputs(c))} (unmodelled there: {len(ev['unmodelled'])}), decorator= "
             f"{sum(1 for c in cases if any(o[0] == 'dcompile' for o in c['hist'] + [c['final']]))}; model mismatches outside the guards: {len(strict)}")
    nt = {canon(c) for c in cases if overlap(c)}
    kinds = {}
    for c in cases:
        for o in c["hist"]:
            kinds[o[0]] = kinds.get(o[0], 0) + 1
    hist = dict(steps=kinds, with_error_step=sum(1 for o in outs if "trace" in o and any(o["trace"])),
                final_error=sum(1 for o in outs if "final" in o and "err" in o["final"]),
                guard_satisfying_nonempty=len([i for i in compat if cases[i]["hist"]]),
                guard_violating=len(gv), guard_violating_with_visible_leak=len([i for i in ev["leak"] if i in gv]),
                guard_violating_model_exact=len([i for i in gv if i not in ev["badI"]]),
                finals=dict(compile_scalar=sum(1 for c in cases if c["final"][0] == "compile" and not c["final"][2]),
                            compile_vectorized=sum(1 for c in cases if c["final"][0] == "compile" and c["final"][2]),
                            from_yaml=sum(1 for c in cases if c["final"][0] == "yload")))
    write_evidence(ctx, evaluations=len(cases), distinct_nontrivial=len(nt),
                   rule="random histories (<= 10 calls: construct+get_run_func / run / get_jacobian_func with vectorize, clear, in_place; from_yaml+"
                        "get_run_func; from_yaml+update_var; circuit.clear(); pyrates.clear(circuit); clear_frontend_caches(tc, ic)) over a pool of 7 "
                        "models (same operator name with another equation / another default, same structure under another operator name, two "
                        "templates with one name, 1/2/3 nodes) run in one process without reset, final model compared with a fresh interpreter; "
                        "plus real-code-only streams of disciplined histories: models whose equation calls a helper passed through ops= (same "
                        "function text, different helper definitions) and compilations with one decorator and different decorator_kwargs; plus an inputs= "
                        "stream (extrinsic input on a same-named variable, one-flag clear_frontend_caches calls; guard from the model's counters); a constants stream "
                        "(same-named operators whose array constants differ only in the middle of a >1000-element array, beyond the 8th digit, in dtype, in length, in "
                        "the sign of zero, and whose scalar defaults are hash-colliding or ==-equal without being identical (-1/-2, 0.0/-0.0, 1/1.0/True, 2^61 residues, "
                        "numpy vs Python scalar, '1' vs 1); mostly WITHOUT clearing; oracle: every function gets its own operators' constants bit for bit); a jax stream (float64/float32, "
                        "other parameter values, get_run_func and run, vs fresh interpreters); non-trivial = the history contains >= 1 earlier compilation (it shares the file name and the node label `A`, mostly also "
                        "the operator name or the structural class, with the final model); distinct = distinct canonical JSON",
                   samples=[c for c in cases if overlap(c)][:3], extra=dict(fixed_clear=fixed_clear(), fixed_op_cache_key=fixed_op_cache_key(), fixed_yaml_copy=fixed_yaml_copy(), fixed_D29=fixed_D29(), input_distribution=dict(hist, ops_stream=sum(1 for c in cases if is_ops(c)), inputs_stream=sum(1 for c in cases if is_inputs(c)),
                                                           inputs_unmodelled=len(ev["unmodelled"]), consts_stream=sum(1 for c in cases if is_consts(c)),
                                                           jax_stream=sum(1 for c in cases if is_jax(c)),
                                                           fortran_stream=sum(1 for c in cases if is_fortran(c))),
                            impl_vs_model_mismatches=len(ev["badI"]), result_differs_from_fresh=len(ev["leak"])),
                   trusted_base=["the fresh interpreter (subprocess, PYTHONPATH=REPO, own cwd) is the reference for 'first model handled by the process'",
                                 "numpy float64 arithmetic is exact on the generated dyadic data (results are compared as exact rationals)",
                                 "the model's observable is a projection (argument names, k values, state map, dy, exception class); the "
                                 "edge-argument values are compared only between the two real runs"],
                   assumptions=["guards computed by the cache model itself on the history: CachesClean (frontend caches; for a Fortran final also the table of Python "
                                "modules by file name), TemplateClean (final from_yaml), fixed_D29 || FortranClean (final Fortran compile; FortranClean = no extension module imported before; gone once the switch fixed_D29 is true)",
                                "model domain: one operator per node (x, k, r; polynomial right-hand side), weighted edges x -> r without delay, one "
                                "structural class per circuit when vectorizing; Fortran backend only non-vectorized, one-node models, thorough tier; input_labels not exercised",
                                "SHA-256 of the generated source is treated as injective (module cache keyed by the source itself)"])

if __name__ == "__main__":
    if len(sys.argv) == 3 and sys.argv[1] == "--fresh":
        import warnings
        warnings.filterwarnings("ignore")
        print("RESULT " + json.dumps(run_steps(json.loads(sys.argv[2]), fresh=True)))
