#!/bin/bash
# confirm_seed.sh <seed_out_dir e.g. /tmp/seed_out/C19/m1> <id e.g. C19-m1> : confirm a seeded change in a scratch worktree
# (demo passes without / fails with the change, the 49 baseline tests still pass with it) and keep it as /verif/seeded/<id>/
set -u
src=$(readlink -f "$1"); id=$2
d=$(mktemp -d /tmp/cs_XXXXXX); wt=$d/wt
git -C /repo worktree add -q --detach "$wt" HEAD || exit 3
run_demo() { (mkdir -p $d/run && cd $d/run && PYTHONPATH=$wt PATH=/venv/bin:$PATH timeout 900 /venv/bin/python "$src/demo.py" > $d/demo.out 2>&1; echo $?); }
r0=$(run_demo); tail -1 $d/demo.out > $d/demo0.txt
if ! git -C "$wt" apply "$src/patch.diff"; then echo "$id: PATCH DOES NOT APPLY to current HEAD"; git -C /repo worktree remove --force "$wt"; rm -rf $d; exit 3; fi
r1=$(run_demo); tail -1 $d/demo.out > $d/demo1.txt
tests=$(cd $wt && PYTHONPATH=$wt timeout 1800 /venv/bin/python -m pytest -q -p no:cacheprovider --timeout=900 tests 2>&1 | tail -1)
git -C /repo worktree remove --force "$wt"
ok=no
if [ "$r0" = "0" ] && [ "$r1" != "0" ] && echo "$tests" | grep -q "49 passed" && echo "$tests" | grep -q "2 failed"; then ok=yes; fi
echo "$id: demo_without=$r0 demo_with=$r1 tests='$tests' confirmed=$ok"
if [ $ok = yes ]; then
  mkdir -p /verif/seeded/$id && cp "$src/patch.diff" "$src/demo.py" /verif/seeded/$id/
  /venv/bin/python - "$src/meta.json" /verif/seeded/$id/meta.json "$id" "$tests" "$(cat $d/demo0.txt)" "$(cat $d/demo1.txt)" <<'PY'
import json, sys
src, dst, sid, tests, d0, d1 = sys.argv[1:7]
try: m = json.load(open(src))
except Exception: m = {}
out = dict(id=sid, property=sid.split('-')[0], summary=m.get('summary'), needs_to_manifest=m.get('needs_to_manifest'),
           source="independent sub-agent given only the property text and its own scratch worktree",
           confirmed_by_coordinator=dict(command="harness/confirm_seed.sh (scratch worktree of /repo HEAD: demo without change, demo with change, full pytest suite with change)",
                                         demo_without_change=d0, demo_with_change=d1, tests_with_change=tests))
json.dump(out, open(dst, 'w'), indent=1)
PY
fi
rm -rf $d
