"""C10 — delayed terms past(x,tau) / x(t-tau) / delayed edges read the true past of the trajectory.
(Impl is the code after the repairs D38/D39/D40; their former failing classes are part of the deciding streams.)
Model: coq/theories/DDE.v (Impl `impl_eval`, `run_impl`; Spec `spec_eval`, `run_spec`); theorems: coq/properties/C10.v.
Tie (E1), three streams, exact rational comparison evaluated inside Coq:
  func : get_run_func of one-node models whose right-hand sides are sums of monomials over state variables, parameters,
         delayed state variables (both spellings, literal and parameter delays) and real(t-c)/sign(t-c) calls; the
         returned function is called as func(t, y, hist, dy, *params) with hand-made polynomial hist callables;
  edge : the same for circuits with delayed edges compiled with solver='scipy' (edges become past(var, d));
  run  : run(solver='euler') of linear DDEs against the method-of-steps recurrence (Euler + DDEHistory model)."""
import json, os
from fractions import Fraction as Fr
from core import *

NEEDS = ["DDE", "DDEProofs", "History", "HistoryProofs", "Corr"]
VARPOOL = ["x", "z", "v", "u", "r", "a", "w", "s", "g", "m"]
GUARDS = ["edge_delay_above_step", "delays_uniform"]
# MODEL SWITCH for finding C10-F5 (one line):
#   "unit0"   the code as it is: a per-node delay parameter is read at unit 0 for every unit (Impl = DDE.vimpl_eval)
#   "raises"  fixes/proposed_fix_C10_F5.diff applied: compilation raises PyRatesException when the entries of a delay vector
#             differ (Impl = DDE.vimpl_eval_checked, rejected exactly outside the guard, C10_vec_after_fix)
#   "perunit" fixes/proposed_fix_C10_F5_perunit.diff applied (default backend): one lookup per distinct delay value
#             (Impl = DDE.vimpl_eval_perunit = Spec, C10_vec_after_perunit_fix); the former guard-violating class is decided normally
VEC_DELAY_MODEL = "unit0"
VEC_NONUNIFORM_RAISES = VEC_DELAY_MODEL == "raises"

# ---------------------------------------------------------------------------------------------- impl side (worker)
def _dec(q):
    """decimal literal of a dyadic rational, exact"""
    f = Fr(q)
    s = repr(float(f))
    assert Fr(s) == f and "e" not in s, (q, s)
    return s

def _factor_str(case, f):
    V, P = case["vars"], case["parnames"]
    if f[0] == "v":
        return V[f[1]]
    if f[0] == "p":
        return P[f[1]]
    if f[0] == "past":
        d = _dec(f[2][1]) if f[2][0] == "lit" else P[f[2][1]]
        sp = f[3] if len(f) > 3 else 0
        return [f"past({V[f[1]]}, {d})", f"{V[f[1]]}(t-{d})", f"{V[f[1]]}(t - {d})", f"past({V[f[1]]},{d})"][sp]
    if f[0] == "real":
        return f"real(t - {_dec(f[1])})"
    if f[0] == "sign":
        return f"sign(t-{_dec(f[1])})"
    raise ValueError(f)

def equation_strings(case):
    eqs = []
    for i, r in enumerate(case["eqs"]):
        parts = []
        for c, fs in r:
            c = Fr(c)
            body = "*".join(([_dec(abs(c))] if abs(c) != 1 or not fs else []) + [_factor_str(case, f) for f in fs])
            parts.append(("-" if c < 0 else "") + body if not parts else (" - " if c < 0 else " + ") + body)
        eqs.append(f"{case['vars'][i]}' = " + ("".join(parts) if parts else "0.0"))
    return eqs

def _build_node_circuit(case):
    from pyrates import OperatorTemplate, NodeTemplate, CircuitTemplate
    variables = {}
    for i, v in enumerate(case["vars"]):
        val = _dec(case['init'][i])
        if case.get("init_im"):
            im = Fr(case["init_im"][i])
            val += ("+" if im >= 0 else "-") + _dec(abs(im)) + "j"
        variables[v] = f"{'output' if i == 0 else 'variable'}({val})"
    for p, val in zip(case["parnames"], case["parinit"]):
        variables[p] = float(Fr(val))
    if case.get("use_t"):
        variables["t"] = "variable"
    op = OperatorTemplate(name="op1", path=None, equations=equation_strings(case), variables=variables)
    node = NodeTemplate(name="n1", path=None, operators=[op])
    return CircuitTemplate(name="c", path=None, nodes={"A": node})

def _build_edge_circuit(case):
    from pyrates import OperatorTemplate, NodeTemplate, CircuitTemplate
    op = OperatorTemplate(name="op1", path=None, equations=["x' = -x + r_in", "z' = x - z"],
                          variables={"x": "variable(0.5)", "z": "output(0.25)", "r_in": "input(0.0)"})
    node = NodeTemplate(name="n1", path=None, operators=[op])
    import numpy as np
    conv = {"float": lambda d: float(Fr(d)), "int": lambda d: int(Fr(d)), "f32": lambda d: np.float32(float(Fr(d))),
            "f64": lambda d: np.float64(float(Fr(d))), "i64": lambda d: np.int64(int(Fr(d)))}
    types = case.get("delay_type") or ["int" if b else "float" for b in (case.get("delay_is_int") or [False] * len(case["edges"]))]
    for (s, sv, t, w, d), ty in zip(case["edges"], types):
        assert Fr(float(conv[ty](d))) == Fr(d), (d, ty)          # the delay is exactly representable in the type it is supplied in
    if case.get("matrix"):
        # all edges in one call: weight and delay MATRICES, rows = targets, columns = sources; the delay matrix has dtype float32/float64
        n = len(case["nodes"])
        W, D = np.zeros((n, n)), np.zeros((n, n), dtype=case["matrix"])
        for s, sv, t, w, d in case["edges"]:
            W[t, s], D[t, s] = float(Fr(w)), float(Fr(d))
        c = CircuitTemplate(name="c", path=None, nodes={k: node for k in case["nodes"]})
        c.add_edges_from_matrix(f"op1/{'xz'[case['edges'][0][1]]}", "op1/r_in", list(case["nodes"]), weight=W, edge_attr={"delay": D})
        return c
    edges = [(f"{case['nodes'][s]}/op1/{'xz'[sv]}", f"{case['nodes'][t]}/op1/r_in", None, {"weight": float(Fr(w)), "delay": conv[ty](d)})
             for (s, sv, t, w, d), ty in zip(case["edges"], types)]
    return CircuitTemplate(name="c", path=None, nodes={k: node for k in case["nodes"]}, edges=edges)

def _polyhist(css):
    import numpy as np
    def hist(tt):
        t = Fr(float(tt))
        out = []
        for cs in css:
            v = Fr(0)
            for c in reversed(cs):
                v = Fr(c) + t * v
            out.append(float(v))     # exact for the dyadic times the model predicts; a wrong time shows up as a value mismatch
        return np.array(out, dtype=np.float64)
    return hist

def _impl_vec(case, dt):
    import io, contextlib
    import numpy as np
    import pyr
    from pyrates import OperatorTemplate, NodeTemplate, CircuitTemplate
    n, V, P = case["units"], case["vars"], case["parnames"]
    variables = {v: f"{'output' if i == 0 else 'variable'}({_dec(case['init'][i])})" for i, v in enumerate(V)}
    variables.update({p: float(Fr(val)) for p, val in zip(P, case["parinit"])})
    op = OperatorTemplate(name="op1", path=None, equations=equation_strings(case), variables=variables)
    # the per-node initial value of the first variable reveals the order of the units in the merged vectors
    def overrides(i):
        o = {V[0]: float(i + 1)}
        for j, row in enumerate(case.get("parinit_units") or []):
            o[P[j]] = float(Fr(row[i]))
        return o
    nodes = {f"N{i}": NodeTemplate(name="n1", path=None, operators={op: overrides(i)}) for i in range(n)}
    c = CircuitTemplate(name="c", path=None, nodes=nodes)
    try:
        with contextlib.redirect_stdout(io.StringIO()):
            func, args, names, smap = c.get_run_func("c10v", step_size=dt, file_name="c10vec", backend="default", solver=case["solver"],
                                                     vectorize=True, float_precision="float64", in_place=False, clear=False)
    except Exception as e:
        return dict(pyr.errclass(e), stage="compile")
    names = list(names)
    def find(suffix, keys):
        m = [k for k in keys if k.endswith(suffix)]
        assert len(m) == 1, (suffix, list(keys))
        return m[0]
    starts = []
    for v in V:
        rng_ = smap[find(f"/op1/{v}", smap.keys())]
        assert isinstance(rng_, tuple) and rng_[1] - rng_[0] == n, smap
        starts.append(int(rng_[0]))
    mark = np.asarray(args[1], dtype=np.float64).reshape(-1)[starts[0]:starts[0] + n]
    perm = [int(np.where(mark == float(i + 1))[0][0]) for i in range(n)]      # model unit i -> position in the real vectors
    assert sorted(perm) == list(range(n)), mark
    outs = []
    for pt in case["points"]:
        a = list(args)
        tq = Fr(pt["t"])
        a[0] = int(tq) if case["solver"] == "euler" else float(tq)
        y = np.zeros(len(V) * n, dtype=np.float64)
        css = [None] * (len(V) * n)
        for i in range(len(V)):
            for u in range(n):
                y[starts[i] + perm[u]] = float(Fr(pt["y"][i * n + u]))
                css[starts[i] + perm[u]] = pt["hist"][i * n + u]
        a[1] = y
        if "hist" in names:
            a[names.index("hist")] = _polyhist(css)
        a[names.index("dy")] = np.zeros(len(V) * n, dtype=np.float64)
        for j, pn in enumerate(P):
            m = [k for k in names if k.endswith(f"/op1/{pn}")]
            if m:
                k = names.index(m[0])
                vec = np.array(np.asarray(args[k], dtype=np.float64)).reshape(-1)
                assert vec.shape[0] == n, (pn, vec.shape)
                for u in range(n):
                    vec[perm[u]] = float(Fr(pt["par"][j][u]))
                a[k] = vec.reshape(np.shape(args[k]))
        try:
            dy = np.asarray(func(*a), dtype=np.float64).reshape(-1)
        except Exception as e:
            return dict(pyr.errclass(e), stage="call")
        outs.append([[pyr.frac(dy[starts[i] + perm[u]]) for i in range(len(V))] for u in range(n)])
    # the model's layout: variable i starts at i*n in MODEL order; y/hist of the case are given in that layout
    return {"pos": [i * n for i in range(len(V))], "out": outs, "real_starts": starts, "unit_positions": perm}

def impl(case):
    """real PyRates; returns {"pos": [...], "out": [...]} or {"err": "raised", ...} when PyRates raises"""
    import io, contextlib, warnings
    import numpy as np
    import pyr
    warnings.filterwarnings("ignore")
    pyr.reset_pyrates()
    try:
        kind = case["kind"]
        dt = float(Fr(case["dt"]))
        if kind == "adapt":
            # adaptive run: record every DDEHistory.__init__/update/__call__ (wrappers inside this worker only)
            from pyrates.backend.base import base_backend as bb
            ops = []
            o_init, o_upd, o_call = bb.DDEHistory.__init__, bb.DDEHistory.update, bb.DDEHistory.__call__
            def w_init(self, y0, t0=0.0, max_steps=None):
                o_init(self, y0, t0=t0, max_steps=max_steps)
                ops.append(["i", pyr.frac(t0), pyr.fracs(y0)])
            def w_upd(self, t, y):
                ops.append(["u", pyr.frac(t), pyr.fracs(y)])
                return o_upd(self, t, y)
            def w_call(self, t):
                r = o_call(self, t)
                ops.append(["q", pyr.frac(float(t)), pyr.fracs(r)])
                return r
            bb.DDEHistory.__init__, bb.DDEHistory.update, bb.DDEHistory.__call__ = w_init, w_upd, w_call
            try:
                c = _build_node_circuit(case)
                outputs = {v: f"A/op1/{v}" for v in case["vars"]}
                try:
                    with contextlib.redirect_stdout(io.StringIO()):
                        res = c.run(simulation_time=float(Fr(case["T"])), step_size=dt, solver="scipy", outputs=outputs, backend="default",
                                    vectorize=False, float_precision="float64", clear=False, file_name="c10adapt")
                except Exception as e:
                    return dict(pyr.errclass(e), stage="run")
            finally:
                bb.DDEHistory.__init__, bb.DDEHistory.update, bb.DDEHistory.__call__ = o_init, o_upd, o_call
            i0 = max(i for i, o in enumerate(ops) if o[0] == "i")      # the history object the run used
            return {"pos": list(range(len(case["vars"]))), "out": [], "ops": ops[i0:], "rows": int(res.shape[0]),
                    "trajectory": [[pyr.frac(t)] + [pyr.frac(res[v].values[i]) for v in case["vars"]] for i, t in enumerate(res.index.values)]}
        if kind == "run":
            c = _build_node_circuit(case)
            outputs = {v: f"A/op1/{v}" for v in case["vars"]}
            try:
                with contextlib.redirect_stdout(io.StringIO()):
                    res = c.run(simulation_time=case["steps"] * dt, step_size=dt, sampling_step_size=case.get("store", 1) * dt,
                                solver=case["solver"], outputs=outputs, backend="default",
                                vectorize=False, float_precision="complex128" if case.get("init_im") else "float64", clear=False, file_name="c10run")
            except Exception as e:
                return dict(pyr.errclass(e), stage="run")
            nrows = case["steps"] // case.get("store", 1)
            assert res.shape[0] == nrows, res.shape
            r = {"pos": list(range(len(case["vars"]))),
                 "out": [[pyr.frac(np.real(res[v].values[i])) for v in case["vars"]] for i in range(nrows)]}
            if case.get("init_im"):
                assert all(np.iscomplexobj(res[v].values) for v in case["vars"]), res.dtypes
                r["out_im"] = [[pyr.frac(np.imag(res[v].values[i])) for v in case["vars"]] for i in range(nrows)]
            return r
        if kind == "vec":
            return _impl_vec(case, dt)
        c = _build_edge_circuit(case) if kind == "edge" else _build_node_circuit(case)
        class Holder:                      # a history callable handed to get_run_func(hist=...): it must come back as the `hist` argument
            f = None
            def __call__(self, t):
                return self.f(t)
        holder = Holder() if case.get("hist_kwarg") else None
        extra = {"hist": holder} if holder is not None else {}
        try:
            with contextlib.redirect_stdout(io.StringIO()):
                func, args, names, smap = c.get_run_func("c10f", step_size=dt, file_name="c10mod", backend="default", solver=case["solver"],
                                                         vectorize=False, float_precision="float64", in_place=False, clear=False, **extra)
        except Exception as e:
            return dict(pyr.errclass(e), stage="compile")
        names = list(names)
        if kind == "edge":
            svars = [f"{n}/op1/{v}" for n in case["nodes"] for v in "xz"]
            pnames = {}
            for j, (s, sv, t, w, d) in enumerate(case["edges"]):
                pnames[j] = f"{case['nodes'][t]}/in_edge_0/weight"
        else:
            svars = [f"A/op1/{v}" for v in case["vars"]]
            pnames = {j: f"A/op1/{p}" for j, p in enumerate(case["parnames"])}
        pos = [smap[k] for k in svars]
        assert all(isinstance(p, (int, np.integer)) for p in pos), smap
        has_hist = "hist" in names
        if holder is not None and has_hist and args[names.index("hist")] is not holder:
            return {"err": "hist-kwarg-ignored", "detail": str(type(args[names.index("hist")]))}
        outs = []
        for pt in case["points"]:
            a = list(args)
            tq = Fr(pt["t"])
            a[0] = int(tq) if case["solver"] == "euler" else float(tq)
            y = np.zeros(len(svars), dtype=np.float64)
            for i, p in enumerate(pos):
                y[p] = float(Fr(pt["y"][i]))
            a[1] = y
            if has_hist:
                # the history callable takes the whole state vector layout: component pos[i] is variable i
                css = [None] * len(svars)
                for i, p in enumerate(pos):
                    css[p] = pt["hist"][i]
                if holder is not None:
                    holder.f = _polyhist(css)          # a[...] already is the holder
                else:
                    a[names.index("hist")] = _polyhist(css)
            a[names.index("dy")] = np.zeros(len(svars), dtype=np.float64)
            for j, n in pnames.items():
                if n in names:
                    a[names.index(n)] = np.asarray(float(Fr(pt["par"][j])), dtype=np.float64).reshape(np.shape(args[names.index(n)]))
            try:
                dy = func(*a)
            except Exception as e:
                return dict(pyr.errclass(e), stage="call")
            dy = np.asarray(dy, dtype=np.float64).reshape(-1)
            outs.append([pyr.frac(dy[p]) for p in pos])
        return {"pos": [int(p) for p in pos], "out": outs}
    finally:
        pyr.reset_pyrates()

# ---------------------------------------------------------------------------------------------- generators
DELAYS = [Fr(1, 8), Fr(1, 4), Fr(3, 8), Fr(1, 2), Fr(3, 4), Fr(1), Fr(5, 4), Fr(3, 2), Fr(5, 16)]

def fmt_dt(dt):
    """the step size as PyRates writes it into fixed-step code and Python reads it back"""
    return Fr(float(f"{float(Fr(dt)):.10e}"))

def emitted_dt(case):
    return str(fmt_dt(case["dt"]))

def gen_points(rng, case, nv, npar, delay_pars):
    pts = []
    for _ in range(3):
        t = str(rng.randint(0, 40)) if case["solver"] == "euler" else str(Fr(rng.randint(0, 40), 8))
        par = [str(Fr(rng.randint(1, 12), 8)) if j in delay_pars else str(Fr(rng.choice([-8, -6, -4, -3, -2, -1, 1, 2, 3, 4, 6, 8]), 4))
               for j in range(npar)]
        pts.append(dict(t=t, y=[str(Fr(rng.randint(-16, 16), 4)) for _ in range(nv)], par=par,
                        hist=[[str(Fr(rng.randint(-8, 8), 4)), str(Fr(rng.randint(-4, 4), 2)), str(rng.randint(-2, 2))] for _ in range(nv)]))
    return pts

def rhs_printable(r):
    """Python mirror of DDE.past_terms_printable (the class that failed before fix D38); statistics only"""
    keys = [[(f[1], tuple(f[2])) for f in fs if f[0] == "past"] for _, fs in r]
    if len(r) > 1 and any(ks and Fr(c) < 0 for (c, _), ks in zip(r, keys)):
        return False
    for i, kb in enumerate(keys):
        if len(set(kb)) >= 2 and any(j != i and set(kb) & set(kj) for j, kj in enumerate(keys)):
            return False
    return True

def gen_func(rng, neg_class=False, dt_class=False):
    nv = rng.choice([2, 3, 3, 4])
    vars_ = rng.sample(VARPOOL, nv)
    ncoef, ndel = rng.randint(1, 2), rng.randint(0, 2)
    parnames = [f"k{j}" for j in range(ncoef)] + [f"d{j}" for j in range(ndel)]
    delay_pars = set(range(ncoef, ncoef + ndel))
    npar = ncoef + ndel
    solver = rng.choice(["euler", "scipy"])
    use_t = rng.random() < 0.3
    # the delayed variables: prefer the 2nd/3rd state variable, two delays each
    delayed = rng.sample(range(1, nv), min(nv - 1, rng.randint(1, 2))) + ([0] if rng.random() < 0.3 else [])
    dpool = {x: [(["lit", str(d)]) for d in rng.sample(DELAYS, rng.randint(2, 3))] +
                ([["par", j] for j in delay_pars] if rng.random() < 0.6 else []) for x in delayed}
    def past():
        x = rng.choice(delayed)
        return ["past", x, rng.choice(dpool[x]), rng.randint(0, 3)]
    eqs = []
    for i in range(nv):
      while True:
        nterms = rng.randint(1, 4)
        r = []
        for _ in range(nterms):
            fs, npast = [], 0
            for _ in range(rng.randint(1, 3)):
                u = rng.random()
                if u < 0.45 and npast < 2:
                    fs.append(past()); npast += 1
                elif u < 0.7:
                    fs.append(["v", rng.randrange(nv)])
                elif u < 0.9 or not use_t:
                    fs.append(["p", rng.randrange(ncoef)])
                else:
                    fs.append([rng.choice(["real", "sign"]), str(Fr(rng.randint(1, 9), 4) + Fr(1, 16))])
            if len(fs) > 1 and all(f[0] == "p" for f in fs):
                # products of parameters only: c*k**3 + c*k**2 + ... does not compile at all (AttributeError "'Add' object has no
                # attribute 'shape'", no delayed term involved) — a parser defect outside C10, kept out of this stream
                fs[0] = ["v", rng.randrange(nv)]
            c = Fr(rng.choice([-6, -4, -3, -2, -1, 1, 2, 3, 4, 6, 8]), 4)
            if npast and nterms > 1 and c < 0:
                c = -c                      # inside the guard past_terms_printable; negative feedback comes from parameters
            r.append([str(c), fs])
        break
      eqs.append(r)
    if use_t and not any(f[0] in ("real", "sign") for r in eqs for _, fs in r for f in fs):
        eqs[0].append(["1/2", [["sign", "5/16"], ["v", 0]]])
    if not any(f[0] == "past" for r in eqs for _, fs in r for f in fs):
        eqs[-1].append(["1/2", [past()]])
    if neg_class:
        i = rng.randrange(nv)
        eqs[i] = [[str(Fr(rng.choice([1, 2, 3]), 2)), [["v", rng.randrange(nv)]]]] + \
                 ([[("1"), [["p", 0]]]] if rng.random() < 0.5 else []) + \
                 [[str(-Fr(rng.choice([1, 2, 4]), 4)), [past()] + ([["v", rng.randrange(nv)]] if rng.random() < 0.3 else [])]]
    dt = rng.choice([Fr(1, 8), Fr(1, 4), Fr(1, 16), Fr(1, 2), Fr(1, 8), Fr(1, 1000), Fr(1, 10)]) if not dt_class else \
        rng.choice([Fr(1, 2) + Fr(1, 2 ** 30), Fr(1, 8) + Fr(1, 2 ** 33), Fr(1, 4) + Fr(3, 2 ** 32)])
    if dt.denominator & (dt.denominator - 1):          # decimal step sizes: the float nearest to them
        dt = Fr(float(dt))
        if solver == "euler":
            solver = "scipy"                             # t*dt is not exact in floats for fixed steps; adaptive code does not use dt
    if dt_class:
        solver = "euler"
        # t*dt has ~40 significant bits: at most one delayed and one other factor per term keeps float64 exact
        eqs = [[[c, [f for f in fs if f[0] == "past"][:1] + [f for f in fs if f[0] in ("v", "p")][:1]] for c, fs in r] for r in eqs]
        use_t = False
    case = dict(kind="func", vars=vars_, init=[str(Fr(rng.randint(-8, 8), 8)) for _ in range(nv)], parnames=parnames,
                parinit=[str(Fr(rng.randint(1, 12), 8)) for _ in range(npar)], eqs=eqs, solver=solver, dt=str(dt), use_t=use_t)
    case["points"] = gen_points(rng, case, nv, npar, delay_pars)
    case["hist_kwarg"] = rng.random() < 0.3      # the history callable is passed through get_run_func(hist=...) instead of being swapped in
    if dt_class:
        for p in case["points"]:
            p["t"] = str(rng.randint(1, 40))
            for h in p["hist"]:
                h[2] = "0"                              # linear histories keep everything exactly representable
                if h[1] == "0":
                    h[1] = "1"
    return case

def edge_eqs(case):
    """the right-hand sides a delayed-edge circuit stands for (used for display and statistics only; Coq builds its own
    from `edges` with DDE.add_edges)"""
    eqs = []
    for i in range(len(case["nodes"])):
        rx = [["-1", [["v", 2 * i]]]]
        for j, (s, sv, t, w, d) in enumerate(case["edges"]):
            if t == i:
                rx.append(["1", [["p", j], ["past", 2 * s + sv, ["lit", d], 0]]])
        eqs.append(rx)
        eqs.append([["1", [["v", 2 * i]]], ["-1", [["v", 2 * i + 1]]]])
    return eqs

def gen_edge(rng, one_class=False, step_class=False):
    nn = rng.randint(2, 4)
    nodes = ["A", "B", "C", "D"][:nn]
    targets = rng.sample(range(nn), rng.randint(1, nn))
    edges = []
    ok_delays = [d for d in DELAYS if d != 1 and d > Fr(1, 8)]
    for t in targets:
        s = rng.choice([i for i in range(nn) if i != t])
        edges.append([s, rng.choice([0, 1, 1]), t, str(Fr(rng.choice([-8, -6, -4, -2, -1, 2, 3, 6, 8]), 4)), str(rng.choice(ok_delays))])
    # the delay is supplied as a Python float / int, a numpy float32 / float64 / int64 scalar (integers: 2 or 3 time units), or all
    # delays come as one float32 / float64 MATRIX through add_edges_from_matrix; all values are exactly representable in float32
    types = [rng.choice(["float", "float", "f32", "f32", "f64", "int", "i64"]) for _ in edges]
    for j, ty in enumerate(types):
        if ty in ("int", "i64"):
            edges[j][4] = str(rng.choice([2, 3]))
    if one_class:
        edges[rng.randrange(len(edges))][4] = "1"
    if step_class:
        edges[rng.randrange(len(edges))][4] = str(rng.choice([Fr(1, 8), Fr(1, 16), Fr(3, 32)]))
    nv = 2 * nn
    if one_class or step_class:
        types = [rng.choice(["float", "f32", "f64"]) for _ in edges]
    matrix = None
    if rng.random() < 0.3:
        matrix = rng.choice(["float32", "float32", "float64"])
        sv0 = edges[0][1]
        for e in edges:
            e[1] = sv0                                     # one source variable per add_edges_from_matrix call
        types = ["f32" if matrix == "float32" else "f64"] * len(edges)
    # fixed-step solvers put a ring buffer behind a delayed edge; C10 only ties that the edge IS delayed there: at the first call
    # (fresh buffers) a delay of >= 2 steps delivers the buffer's initial 0, an undelayed edge would deliver the present value
    solver = "euler" if (rng.random() < 0.3 and not step_class) else "scipy"
    case = dict(kind="edge", delay_type=types, matrix=matrix, nodes=nodes, edges=edges, vars=[f"{n}.{v}" for n in nodes for v in "xz"],
                parnames=[f"w{j}" for j in range(len(edges))], solver=solver, dt="1/8", use_t=False)
    case["eqs"] = edge_eqs(case)
    case["points"] = gen_points(rng, case, nv, len(edges), set())
    if solver == "euler":
        case["points"] = case["points"][:1]
        case["points"][0]["t"] = "0"
        case["points"][0]["hist"] = [["0", "0", "0"] for _ in range(nv)]
    return case

def _bits(q):
    n = abs(Fr(q).numerator)
    while n and n % 2 == 0:
        n //= 2
    return n.bit_length()

def exact_steps(case, limit=44):
    """Largest number of steps for which the exact method-of-steps recurrence stays within `limit` significant bits
    (so that float64 arithmetic of the real code is exact).  Only used to SIZE the case; the verdict is Coq's."""
    import bisect
    dt = Fr(case["dt"]); par = [Fr(p) for p in case["parinit"]]
    ts, ys = [Fr(0)], [[Fr(v) for v in case["init"]]]
    def H(t):
        if t <= ts[0]:
            return ys[0]
        if t >= ts[-1]:
            return ys[-1]
        i = bisect.bisect_right(ts, t) - 1
        al = (t - ts[i]) / (ts[i + 1] - ts[i])
        return [a + al * (b - a) for a, b in zip(ys[i], ys[i + 1])]
    y = list(ys[0])
    def F(i, yy):
        f = []
        for r in case["eqs"]:
            acc = Fr(0)
            for c, fs in r:
                v = Fr(c)
                for fa in fs:
                    if fa[0] == "v":
                        v *= yy[fa[1]]
                    elif fa[0] == "p":
                        v *= par[fa[1]]
                    else:
                        d = Fr(fa[2][1]) if fa[2][0] == "lit" else par[fa[2][1]]
                        v *= H(i * dt - d)[fa[1]]
                acc += v
                if _bits(v) > limit or _bits(acc) > limit:
                    return None
            f.append(acc)
        return f
    for i in range(case["steps"]):
        k1 = F(i, y)
        if k1 is None:
            return i
        if case["solver"] == "heun":
            y0 = [a + dt * b for a, b in zip(y, k1)]
            k2 = F(i, y0) if all(_bits(a) <= limit for a in y0) else None
            if k2 is None or any(_bits(a + b) > limit for a, b in zip(k1, k2)):
                return i
            y = [a + dt / 2 * (b + c) for a, b, c in zip(y, k1, k2)]
        else:
            y = [a + dt * b for a, b in zip(y, k1)]
        if any(_bits(a) > limit for a in y):
            return i
        ts.append((i + 1) * dt); ys.append(list(y))
    return case["steps"]

def gen_run(rng):
    nv = rng.choice([1, 2, 2, 3])
    vars_ = rng.sample(VARPOOL, nv)
    dt = rng.choice([Fr(1, 2), Fr(1, 4), Fr(1, 4), Fr(1, 8)])
    parnames = ["k0", "d0"]
    parinit = [str(rng.choice([-2, -1, Fr(-1, 2), Fr(1, 2), 1])), str(dt * Fr(rng.randint(1, 12), 4))]
    def delay():
        return ["par", 1] if rng.random() < 0.25 else ["lit", str(dt * Fr(rng.randint(1, 14), rng.choice([1, 2, 4, 4])))]
    delayed = rng.randrange(nv)
    eqs = []
    for i in range(nv):
        r = []
        for _ in range(rng.randint(1, 3)):
            u = rng.random()
            x = delayed if rng.random() < 0.7 else rng.randrange(nv)
            base = ["past", x, delay(), rng.randint(0, 3)] if u < 0.6 else ["v", rng.randrange(nv)]
            fs = [["p", 0], base] if rng.random() < 0.4 else [base]
            c = Fr(rng.choice([-2, -1, 1, 2]), rng.choice([1, 2]))
            r.append([str(c), fs])
        eqs.append(r)
    if not any(f[0] == "past" for r in eqs for _, fs in r for f in fs):
        eqs[0] = [["1", [["p", 0], ["past", delayed, delay(), 1]]]]
    case = dict(kind="run", vars=vars_, init=[str(Fr(rng.randint(-4, 4), 2)) for _ in range(nv)], parnames=parnames, parinit=parinit,
                eqs=eqs, solver=rng.choice(["euler", "heun"]), dt=str(dt), steps=rng.randint(8, 14), use_t=False)
    case["steps"] = max(2, exact_steps(case))
    # storage cadence (sampling_step_size = store * step_size): the history must still be fed after EVERY step
    case["store"] = rng.choice([1, 1, 2, 3, 5])
    if case["steps"] >= 2 * case["store"]:
        case["steps"] -= case["steps"] % case["store"]
    else:
        case["store"] = 1
    return case

def imag_case(case):
    """the system the imaginary parts of a complex-valued run obey (right-hand sides with real coefficients and parameters)"""
    eqs = [[[c, fs] for c, fs in r if any(f[0] in ("v", "past") for f in fs)] for r in case["eqs"]]
    return dict(case, eqs=eqs, init=case["init_im"], init_im=None)

def gen_long_run(rng):
    """one run that crosses the first growth of the history buffer (1024 rows): x' = k0 (exactly linear), v' = x(t-d1) - x(t-d2)/2 (so that real AND imaginary parts of the delayed values matter);
    the delays are 1.5 and 2.5 steps, so that every step interpolates between the two or three most recent rows"""
    dt = rng.choice([Fr(1, 4), Fr(1, 8)])
    vars_ = rng.sample(VARPOOL, 2)
    case = dict(kind="run", vars=vars_, init=[str(Fr(rng.randint(1, 4), 2)), str(Fr(rng.randint(-4, 4), 2))], parnames=["k0", "d0"],
                parinit=[str(rng.choice([Fr(1, 2), 1, Fr(-1, 2)])), str(dt * Fr(5, 2))],
                eqs=[[["1", [["p", 0]]]], [["1", [["past", 0, ["lit", str(dt * Fr(3, 2))], 1]]], ["-1/2", [["past", 0, ["par", 1], 0]]]]],
                solver=rng.choice(["euler", "heun"]), dt=str(dt), steps=rng.randint(1040, 1100), use_t=False, long=True)
    # complex-valued states (float_precision='complex128'): real coefficients act on real and imaginary parts separately, so the
    # imaginary parts obey the same recurrence without its state-free terms; both parts are dyadic, the arithmetic stays exact
    case["init_im"] = [str(Fr(rng.choice([-3, -1, 1, 3]), 2)), str(Fr(rng.choice([-3, -1, 1, 3]), 4))]
    assert exact_steps(case) == case["steps"] and exact_steps(imag_case(case)) == case["steps"]
    return case

def gen_vec(rng, f5_class=False):
    """n structurally equal nodes (one shared operator template, per-node parameter values) compiled with vectorize=True:
    every variable is a vector of n units.  Point data: y and hist are laid out variable-major (variable i, unit u at
    i*n+u in MODEL order; the worker maps units to the positions of the real vector), par[p][u] per unit."""
    base = gen_func(rng)
    while base["use_t"] or base["dt"] not in ("1/8", "1/4", "1/16", "1/2"):
        base = gen_func(rng)
    n = rng.randint(2, 4)
    nv, npar = len(base["vars"]), len(base["parnames"])
    dps = [j for j, p in enumerate(base["parnames"]) if p.startswith("d")]
    case = dict(base, kind="vec", units=n, delay_pars=dps)
    pts = []
    for p in base["points"]:
        par = []
        for j in range(npar):
            if j in dps:
                vals = [str(Fr(rng.randint(1, 12), 8)) for _ in range(n)] if f5_class else [str(Fr(rng.randint(1, 12), 8))] * n
            else:
                vals = [str(Fr(rng.choice([-8, -6, -4, -3, -2, -1, 1, 2, 3, 4, 6, 8]), 4)) for _ in range(n)]
            par.append(vals)
        pts.append(dict(t=p["t"], y=[str(Fr(rng.randint(-16, 16), 4)) for _ in range(nv * n)], par=par,
                        hist=[[str(Fr(rng.randint(-8, 8), 4)), str(Fr(rng.randint(-4, 4), 2)), str(rng.randint(-2, 2))] for _ in range(nv * n)]))
    if f5_class:
        # the delay parameters differ between the nodes already at compile time (node-level values); all points use that table
        for p in pts[1:]:
            p["par"] = pts[0]["par"]
        if not any(len(set(pts[0]["par"][j])) > 1 for j in dps) and dps:
            pts[0]["par"][dps[0]][0] = str(Fr(pts[0]["par"][dps[0]][0]) + Fr(1, 8))
        case["parinit_units"] = pts[0]["par"]
        used = {f[2][1] for r in case["eqs"] for _, fs in r for f in fs if f[0] == "past" and f[2][0] == "par"}
        if not used and dps:
            case["eqs"][0] = case["eqs"][0] + [["1/2", [["past", 0, ["par", dps[0]], 0]]]]
    case["points"] = pts
    return case

def gen_adapt(rng):
    """a linear DDE run with the adaptive DDE solver (scipy dopri5 + solout); only the history bookkeeping is compared"""
    case = gen_run(rng)
    case.update(kind="adapt", solver="scipy", T=str(Fr(rng.randint(4, 12), 4)), dt=rng.choice(["1/8", "1/16"]))
    case.pop("steps", None)
    return case

def past_keys(case):
    return [(f[1], tuple(f[2])) for r in case["eqs"] for _, fs in r for f in fs if f[0] == "past"]

def nontrivial(case, pos=None):
    """DESIGN rule: a delayed variable is not state slot 0, or a variable carries >= 2 distinct delays
    (run stream: additionally a delay that is not a multiple of the step, i.e. an interpolated history value)"""
    ks = set(past_keys(case))
    per = {}
    for x, d in ks:
        per.setdefault(x, set()).add(d)
    slot = (lambda x: pos[x]) if pos else (lambda x: x)
    r = any(slot(x) != 0 for x in per) or any(len(v) >= 2 for v in per.values())
    if case["kind"] == "run":
        par = [Fr(p) for p in case["parinit"]]
        dt = Fr(case["dt"])
        ds = [Fr(d[1]) if d[0] == "lit" else par[d[1]] for _, d in ks]
        r = r or any((d / dt).denominator != 1 for d in ds)
    return r

# ---------------------------------------------------------------------------------------------- model side
HEADER = """From Coq Require Import List ZArith QArith Qcanon Bool.
From PV Require Import History DDE Corr.
Import ListNotations.
Definition pt := (Qc * list Qc * list Qc * list (list Qc) * list Qc)%type.
(* model as compiled (Impl), model as specified (Spec), edge guard, positions, time mode, evaluation points *)
Definition fcase := (model * model * bool * list nat * mode * list pt)%type.
Definition plain (m : model) : model * model * bool := (m, m, true).
Definition with_edges (step : Qc) (es : list edge) (base : model) : model * model * bool :=
  (add_edges (edge_factor_impl step es) es base, add_edges edge_factor_spec es base, edge_delay_above_step step es).
Definition okI_pt (m : model) (pos : list nat) (md : mode) (p : pt) : bool :=
  let '(t, y, par, hp, exp) := p in row_eqb (impl_eval (polyhist hp) (lookup_nat pos) (lookup_q par) (lookup_q par) m md t y) exp.
Definition okS_pt (m : model) (pos : list nat) (md : mode) (p : pt) : bool :=
  let '(t, y, par, hp, exp) := p in row_eqb (spec_eval (polyhist hp) (lookup_nat pos) (lookup_q par) (lookup_q par) m md t y) exp.
Definition okI (c : fcase) : bool := let '(mi, ms, g, pos, md, pts) := c in forallb (okI_pt mi pos md) pts.
Definition okS (c : fcase) : bool := let '(mi, ms, g, pos, md, pts) := c in forallb (okS_pt ms pos md) pts.
Definition g1 (c : fcase) : bool := let '(mi, ms, g, pos, md, pts) := c in g.
Definition vpt := (Qc * list Qc * list (list Qc) * list (list Qc) * list (list Qc))%type.   (* t, y, parameter table, history polynomials, expected rows per unit *)
Definition vcase := (model * list nat * nat * list nat * mode * list vpt)%type.               (* model, starts, units, ids of the delay parameters, mode, points *)
Definition vokI (c : vcase) : bool := let '(m, st, n, dps, md, pts) := c in
  forallb (fun p : vpt => let '(t, y, pt, hp, exp) := p in rows_eqb (VIMPL (polyhist hp) (lookup_nat st) (tab pt) (tab pt) n m md t y) exp) pts.
Definition vokS (c : vcase) : bool := let '(m, st, n, dps, md, pts) := c in
  forallb (fun p : vpt => let '(t, y, pt, hp, exp) := p in rows_eqb (vspec_eval (polyhist hp) (lookup_nat st) (tab pt) (tab pt) n m md t y) exp) pts.
Definition vg (c : vcase) : bool := let '(m, st, n, dps, md, pts) := c in
  VGUARD || forallb (fun p : vpt => let '(t, y, pt, hp, exp) := p in delays_uniform (map (fun i => nth i pt []) dps)) pts.
Fixpoint take_every (k i : nat) (l : list row) : list row :=      (* the rows stored with cadence k: indices 0, k, 2k, ... *)
  match l with [] => [] | r :: l' => if (i mod k =? 0)%nat then r :: take_every k (S i) l' else take_every k (S i) l' end.
Definition rcase := (scheme * model * list nat * list Qc * Qc * nat * nat * list Qc * list (list Qc))%type.
Definition rokI (c : rcase) : bool :=
  let '(sc, m, pos, par, dt, n, k, y0, exp) := c in
  match run_impl sc (lookup_nat pos) (lookup_q par) (lookup_q par) m dt (fun _ => []) 1024 n y0 with
  | Some rows => rows_eqb (take_every k 0 rows) exp | None => false end.
Definition rokS (c : rcase) : bool :=
  let '(sc, m, pos, par, dt, n, k, y0, exp) := c in rows_eqb (take_every k 0 (run_spec sc (lookup_nat pos) (lookup_q par) (lookup_q par) m dt n y0)) exp.
Definition rg1 (c : rcase) : bool := true.
"""

HEADER = HEADER.replace("VIMPL", "vimpl_eval_perunit" if VEC_DELAY_MODEL == "perunit" else "vimpl_eval").replace(
    "VGUARD", "true" if VEC_DELAY_MODEL == "perunit" else "false")

def c_dkey(d):
    return f"(DLit {cq(d[1])})" if d[0] == "lit" else f"(DPar {cnat(d[1])})"

def c_factor(f):
    if f[0] == "v":
        return f"FVar {cnat(f[1])}"
    if f[0] == "p":
        return f"FPar {cnat(f[1])}"
    if f[0] == "past":
        return f"FPast {cnat(f[1])} {c_dkey(f[2])}"
    if f[0] == "real":
        return f"FReal {cq(f[1])}"
    if f[0] == "sign":
        return f"FSign {cq(f[1])}"
    raise ValueError(f)

def c_model(case):
    return clist([clist([f"({cq(c)}, {clist([c_factor(f) for f in fs])})" for c, fs in r]) for r in case["eqs"]])

def c_mode(case):
    if case["solver"] != "euler":
        return "Adaptive"
    return f"(Fixed {cq(case['dt'])})"

def qrow(v):
    return clist([cq(x) for x in v])

def c_eqs(eqs):
    return clist([clist([f"({cq(c)}, {clist([c_factor(f) for f in fs])})" for c, fs in r]) for r in eqs])

def c_models(case):
    if case["kind"] != "edge":
        return f"plain {c_model(case)}"
    nn = len(case["nodes"])
    base = []
    for i in range(nn):
        base += [[["-1", [["v", 2 * i]]]], [["1", [["v", 2 * i]]], ["-1", [["v", 2 * i + 1]]]]]
    es = clist([f"({cnat(2 * s + sv)}, {cnat(2 * t)}, {cnat(j)}, {cq(d)})" for j, (s, sv, t, w, d) in enumerate(case["edges"])])
    return f"with_edges {cq(case['dt'])} {es} {c_eqs(base)}"

def coq_fcase(case, res):
    pts = []
    for p, exp in zip(case["points"], res["out"]):
        pts.append(f"({cq(p['t'])}, {qrow(p['y'])}, {qrow(p['par'])}, {clist([qrow(h) for h in p['hist']])}, {qrow(exp)})")
    return f"({c_models(case)}, {clist([cnat(p) for p in res['pos']])}, {c_mode(case)}, {clist(pts)})"

def coq_rcase(case, res):
    return (f"({'Heun' if case['solver'] == 'heun' else 'Euler'}, {c_model(case)}, {clist([cnat(p) for p in res['pos']])}, {qrow(case['parinit'])}, {cq(case['dt'])}, "
            f"{cnat(case['steps'] if res['out'] else 0)}, {cnat(case.get('store', 1))}, {qrow(case['init'])}, {clist([qrow(r) for r in res['out']])})")

def coq_vcase(case, res):
    n = case["units"]
    pts = []
    for p, exp in zip(case["points"], res["out"]):
        pts.append(f"({cq(p['t'])}, {qrow(p['y'])}, {clist([qrow(r) for r in p['par']])}, {clist([qrow(h) for h in p['hist']])}, {clist([qrow(r) for r in exp])})")
    return (f"({c_model(case)}, {clist([cnat(p) for p in res['pos']])}, {cnat(n)}, {clist([cnat(j) for j in case['delay_pars']])}, "
            f"{c_mode(case)}, {clist(pts)})")

def dummy_res(case):
    if case["kind"] == "vec":
        nv, n = len(case["vars"]), case["units"]
        return dict(pos=[i * n for i in range(nv)], out=[[["0"] * nv for _ in range(n)] for _ in case["points"]])
    """shape of a result for cases on which the real code raised (only the guards are evaluated on them)"""
    if case["kind"] == "run":
        return dict(pos=list(range(len(case["vars"]))), out=[])
    return dict(pos=list(range(len(case["vars"]))), out=[["0"] * len(case["vars"]) for _ in case["points"]])

ADAPT_HEADER = """From Coq Require Import List ZArith QArith Qcanon Bool.
From PV Require Import History DDE.
Import ListNotations.
"""

def adapt_compare(ctx, case, res, tag):
    """True iff (a) the update times never decrease and records with equal times are equal (the adaptive path feeds every output
    time twice: solout at the end of one integrate() segment and at the start of the next) and (b) every recorded lookup is answered from the rows that
    the model's qcase selects among the records present at that moment (row 0 / last row / float interpolation of rows
    idx, idx+1 with DDEHistory's own formula).  The row selection is computed inside Coq; the comparison is exact."""
    import numpy as np
    ops = res["ops"]
    assert ops and ops[0][0] == "i"
    t0 = ops[0][1]
    body = ("Definition ops : list (bool * Qc) := " + clist([f"({cbool(o[0] == 'u')}, {cq(o[1])})" for o in ops[1:]]) + ".\n"
            f"Definition qs := qcases [{cq(t0)}] ops.\n"
            "Eval vm_compute in (map fst qs).\nEval vm_compute in (map snd qs).\n"
            f"Eval vm_compute in (if weak_incrb ({cq(t0)} :: op_update_times ops) then @nil nat else [1%nat]).\n")
    ls = parse_nat_lists(coq_eval(ctx, f"c10_adapt_{tag}", ADAPT_HEADER, body))
    assert len(ls) == 3, ls
    kinds, idxs, notincr = ls
    if notincr:
        return False, "update times decrease"
    f = lambda v: np.array([float(Fr(x)) for x in v], dtype=np.float64)
    ts, rows, k = [float(Fr(t0))], [f(ops[0][2])], 0
    for o in ops[1:]:
        if o[0] == "u":
            ts.append(float(Fr(o[1]))); rows.append(f(o[2]))
            if ts[-1] == ts[-2] and not np.array_equal(rows[-1], rows[-2]):
                return False, f"two different records at the same time {ts[-1]}"
            continue
        t, kind, idx = float(Fr(o[1])), kinds[k], idxs[k]
        k += 1
        if kind == 0:
            exp = rows[0]
        elif kind == 1:
            exp = rows[idx]
            if idx != len(rows) - 1:
                return False, f"lookup {k}: last-row index {idx} but {len(rows)} records"
        else:
            alpha = (t - ts[idx]) / (ts[idx + 1] - ts[idx])
            exp = rows[idx] + alpha * (rows[idx + 1] - rows[idx])
        if not np.array_equal(exp, f(o[2])):
            return False, f"lookup {k} at t={t}: answered {o[2]}, rows selected by the model give {list(exp)} (case {kind}, idx {idx})"
    assert k == len(kinds)
    # (c) the records are the solver's own steps: every returned sample (t_k, y_k) was fed to the history at exactly t_k
    recs = {(o[1], tuple(o[2])) for o in ops if o[0] in "iu"}
    for row in res.get("trajectory", []):
        if (row[0], tuple(row[1:])) not in recs:
            return False, f"the returned sample at t={float(Fr(row[0]))} was never recorded in the history (at that time, with that state)"
    return True, dict(lookups=k, between=sum(1 for x in kinds if x == 2), updates=len(rows) - 1,
                      repeated_times=sum(1 for a, b in zip(ts, ts[1:]) if a == b))

def model_compare(ctx, cases, outs, tag):
    """returns (bad_vs_Impl, bad_vs_Spec, {index: [violated guards]}) ; cases on which the real code raised only get their guards evaluated"""
    badI, badS, gv = [], [], {}
    streams = (("f", ("func", "edge"), "fcase", ("okI", "okS", "g1"), coq_fcase, GUARDS[0]),
               ("r", ("run",), "rcase", ("rokI", "rokS", "rg1"), coq_rcase, None),
               ("v", ("vec",), "vcase", ("vokI", "vokS", "vg"), coq_vcase, GUARDS[1]))
    for kind, kinds_, ty, names, mk, guard in streams:
        items = [(i, cases[i], outs[i] if "out" in outs[i] else dummy_res(cases[i])) for i, c in enumerate(cases) if c["kind"] in kinds_]
        items += [(i, imag_case(c), dict(r, out=r["out_im"])) for i, c, r in items if c.get("init_im") and "out_im" in r]
        idx = [i for i, _, _ in items]
        shard = 80
        for s in range(0, len(idx), shard):
            part = idx[s:s + shard]
            terms = [mk(c, r) for _, c, r in items[s:s + shard]]
            body = (f"Definition cases : list {ty} := " + clist(terms) + ".\n" +
                    "".join(f"Eval vm_compute in (mismatches {n} cases).\n" for n in names))
            ls = parse_nat_lists(coq_eval(ctx, f"c10_{tag}_{kind}{s}", HEADER, body))
            assert len(ls) == 3, ls
            for j in ls[0]:
                badI.append(part[j])
            for j in ls[1]:
                badS.append(part[j])
            for j in ls[2]:
                gv.setdefault(part[j], []).append(guard)
    for i, c in enumerate(cases):
        if c["kind"] == "adapt" and "ops" in outs[i]:
            ok, info = adapt_compare(ctx, c, outs[i], f"{tag}{i}")
            outs[i]["bookkeeping"] = info
            if not ok:
                badI.append(i); badS.append(i)
    raised = [i for i, o in enumerate(outs) if "out" not in o]
    return sorted(i for i in badI if i not in raised), sorted(i for i in badS if i not in raised), gv

def model_outputs(ctx, case, res, tag):
    try:
        if "out" not in res:
            res = dummy_res(case)
        if case["kind"] == "adapt":
            return "bookkeeping check: " + str(res.get("bookkeeping"))
        if case["kind"] == "vec":
            body = (f"Definition c : vcase := {coq_vcase(case, res)}.\n"
                    "Eval vm_compute in (let '(m, st, n, dps, md, pts) := c in map (fun p : vpt => let '(t, y, pt, hp, exp) := p in map (map this) (vspec_eval (polyhist hp) (lookup_nat st) (tab pt) (tab pt) n m md t y)) pts).\n"
                    "Eval vm_compute in (let '(m, st, n, dps, md, pts) := c in map (fun p : vpt => let '(t, y, pt, hp, exp) := p in map (map this) (vimpl_eval (polyhist hp) (lookup_nat st) (tab pt) (tab pt) n m md t y)) pts).\n")
            return "Spec, then Impl (rows = units):\n" + coq_eval(ctx, f"c10_show_{tag}", HEADER, body)[:5000]
        if case["kind"] == "run":
            body = (f"Definition c : rcase := {coq_rcase(case, res)}.\n"
                    "Eval vm_compute in (let '(sc, m, pos, par, dt, n, k, y0, exp) := c in map (map this) (run_spec sc (lookup_nat pos) (lookup_q par) (lookup_q par) m dt n y0)).\n"
                    "Eval vm_compute in (let '(sc, m, pos, par, dt, n, k, y0, exp) := c in option_map (map (map this)) (run_impl sc (lookup_nat pos) (lookup_q par) (lookup_q par) m dt (fun _ => []) 1024 n y0)).\n")
        else:
            body = (f"Definition c : fcase := {coq_fcase(case, res)}.\n"
                    "Eval vm_compute in (let '(mi, m, g, pos, md, pts) := c in map (fun p : pt => let '(t, y, par, hp, exp) := p in map this (spec_eval (polyhist hp) (lookup_nat pos) (lookup_q par) (lookup_q par) m md t y)) pts).\n"
                    "Eval vm_compute in (let '(m, ms, g, pos, md, pts) := c in map (fun p : pt => let '(t, y, par, hp, exp) := p in map this (impl_eval (polyhist hp) (lookup_nat pos) (lookup_q par) (lookup_q par) m md t y)) pts).\n"
                    "Eval vm_compute in (let '(m, ms, g, pos, md, pts) := c in (fst (compile m), g)).\n")
        return "Spec, then Impl:\n" + coq_eval(ctx, f"c10_show_{tag}", HEADER, body)[:5000]
    except Exception as e:
        return f"(model evaluation failed: {e})"

# ---------------------------------------------------------------------------------------------- shrinking
def fails(ctx, case, tag):
    r = run_impl(ctx, "c10", "impl", [case], nworkers=1)[0]
    if "out" not in r:
        return True, r
    _, badS, _ = model_compare(ctx, [case], [r], tag)
    return bool(badS), r

def shrink(ctx, case):
    best, budget = case, 8
    def attempt(cand):
        nonlocal best, budget
        if budget <= 0:
            return False
        budget -= 1
        if fails(ctx, cand, f"s{budget}")[0]:
            best = cand
            return True
        return False
    if best["kind"] in ("func", "edge") and len(best["points"]) > 1:
        for p in list(best["points"]):
            if attempt(dict(best, points=[p])):
                break
    if best["kind"] == "run":
        k = best.get("store", 1)
        while best["steps"] > 2 * k and attempt(dict(best, steps=max(k, (best["steps"] - max(1, best["steps"] // 3)) // k * k))):
            pass
    if best["kind"] != "edge":
        progress = True
        while progress and budget > 0:
            progress = False
            for i, r in enumerate(best["eqs"]):
                for j in range(len(r)):
                    if len(r) > 1:
                        eqs = [list(q) for q in best["eqs"]]
                        del eqs[i][j]
                        if attempt(dict(best, eqs=eqs)):
                            progress = True
                            break
                if progress:
                    break
    return best

# ---------------------------------------------------------------------------------------------- check
def check(ctx):
    pr = proof_gate(ctx, NEEDS)
    problem = proof_problem(pr)
    nf, ne, nr = (110, 30, 40) if ctx.tier == "quick" else (1400, 300, 500)
    if problem:
        nf, ne, nr = nf * 4, ne * 4, nr * 4
    findings = {f.get("guard"): f for f in known_findings("C10")}
    corpus = load_corpus("C10")
    if ctx.replay:
        rp = json.load(open(ctx.replay))
        cases = [rp["case"]] if "case" in rp else []
    else:
        # committed witnesses of listed findings run first; an unlisted witness is not exercised (DESIGN 2.3)
        cases = [c for c in corpus if c.get("finding_guard") is None or c.get("finding_guard") in findings]
        # the classes repaired by D38 / D39 / D40 are part of the deciding stream
        cases += [gen_func(ctx.rng, neg_class=(i % 6 == 0), dt_class=(i % 11 == 5)) for i in range(nf)]
        cases += [gen_edge(ctx.rng, one_class=(i % 4 == 0)) for i in range(ne)]
        cases += [gen_run(ctx.rng) for _ in range(nr)] + [gen_long_run(ctx.rng) for _ in range(1 if ctx.tier == "quick" else 4)]
        cases += [gen_adapt(ctx.rng) for _ in range(6 if ctx.tier == "quick" else 60)]
        cases += [gen_vec(ctx.rng) for _ in range(16 if ctx.tier == "quick" else 200)]
        if GUARDS[1] in findings or VEC_DELAY_MODEL != "unit0":
            cases += [gen_vec(ctx.rng, f5_class=True) for _ in range(6 if ctx.tier == "quick" else 60)]
        # guard-violating stream, built on purpose from the refuted witness, only for the listed finding
        if GUARDS[0] in findings:
            cases += [gen_edge(ctx.rng, step_class=True) for _ in range(6 if ctx.tier == "quick" else 60)]
    outs = run_impl(ctx, "c10", "impl", cases, per_case_timeout=90)
    outs = [o if isinstance(o, dict) else {"err": "bad-result", "detail": str(o)[:200]} for o in outs]
    crashed = [i for i, r in enumerate(outs) if "out" not in r]
    badI, badS, gv = model_compare(ctx, cases, outs, "main")
    if VEC_NONUNIFORM_RAISES:
        for i in [i for i, g in gv.items() if GUARDS[1] in g]:
            gv.pop(i)
            rejected = outs[i].get("err") == "raised" and outs[i].get("type") == "PyRatesException" and outs[i].get("stage") == "compile"
            if rejected:
                crashed = [j for j in crashed if j != i]          # Impl = rejected, and the code rejects
            elif i not in crashed and i not in badS:
                badS.append(i)                                     # the code accepted a model it must reject
            badI = [j for j in badI if j != i] + ([] if rejected else [i])
    kinds = {k: sum(1 for c in cases if c["kind"] == k) for k in ("func", "edge", "run", "adapt", "vec")}
    ctx.note(f"E1: {len(cases)} models {kinds}, {sum(len(c.get('points', [])) for c in cases)} function evaluations, "
             f"{sum(c.get('steps', 0) for c in cases)} Euler steps; impl-vs-Impl mismatches {len(badI)}, impl-vs-Spec mismatches {len(badS)}, "
             f"real code raised on {len(crashed)}, guard-violating cases {len(gv)}")
    def witness_check(f):
        w = os.path.join(VERIF, f["witness"])
        c = json.load(open(w))
        return fails(ctx, c, "w" + f["id"].replace("-", ""))[0]
    conclude(ctx, cases=cases, impl_out=outs, bad_spec=badS, bad_impl=badI, crashed=crashed, problem=problem, guard_viol=gv,
             spec_name="DDE.spec_eval / DDE.run_spec (each delayed term = component pos(x) of hist(t - tau); method of steps)",
             impl_name="DDE.impl_eval / DDE.run_impl", shrink=lambda c: shrink(ctx, c), witness_check=witness_check,
             show=lambda c: (lambda r: dict(equations=equation_strings(c) if c["kind"] != "edge" else c["edges"], implementation_output=r,
                                            model_output=model_outputs(ctx, c, r, "show")))(fails(ctx, c, "show")[1]))
    good = [i for i in range(len(cases)) if "out" in outs[i] and i not in gv]
    nt = {canon(cases[i]) for i in good if nontrivial(cases[i], outs[i]["pos"])}
    unlisted = sorted({c.get("finding_guard") for c in corpus if c.get("finding_guard") and c.get("finding_guard") not in findings})
    allf = [f for i in good for r in cases[i]["eqs"] for _, fs in r for f in fs]
    hist = dict(kinds=kinds, solver={s: sum(1 for c in cases if c["solver"] == s) for s in ("euler", "heun", "scipy")},
                past_occurrences=sum(1 for f in allf if f[0] == "past"),
                spelling=dict(past_call=sum(1 for f in allf if f[0] == "past" and f[3] in (0, 3)), x_of_t_minus_d=sum(1 for f in allf if f[0] == "past" and f[3] in (1, 2))),
                parameter_delays=sum(1 for f in allf if f[0] == "past" and f[2][0] == "par"),
                excluded_function_calls=sum(1 for f in allf if f[0] in ("real", "sign")),
                models_with_two_delays_on_one_variable=sum(1 for i in good if any(len({d for y, d in set(past_keys(cases[i])) if y == x}) >= 2 for x, _ in past_keys(cases[i]))),
                models_delaying_a_variable_not_in_slot_0=sum(1 for i in good if any(outs[i]["pos"][x] != 0 for x, _ in past_keys(cases[i]))),
                step_sizes=sorted({c["dt"] for c in cases}, key=lambda s: Fr(s))[:12],
                edge_delay_types={ty: sum((c.get("delay_type") or []).count(ty) for c in cases if c["kind"] == "edge") for ty in ("float", "int", "f32", "f64", "i64")},
                edge_delay_matrices={m: sum(1 for c in cases if c["kind"] == "edge" and c.get("matrix") == m) for m in ("float32", "float64")},
                hist_passed_as_keyword=sum(1 for c in cases if c.get("hist_kwarg")),
                fixed_step_edge_circuits=sum(1 for c in cases if c["kind"] == "edge" and c["solver"] == "euler"),
                complex_valued_runs=sum(1 for c in cases if c.get("init_im")),
                runs_by_storage_cadence={k: sum(1 for c in cases if c["kind"] == "run" and c.get("store", 1) == k) for k in (1, 2, 3, 5)},
                heun_runs=sum(1 for c in cases if c["kind"] == "run" and c["solver"] == "heun"),
                adaptive_runs=dict(cases=sum(1 for c in cases if c["kind"] == "adapt"),
                                   lookups=sum(o.get("bookkeeping", {}).get("lookups", 0) for o in outs if isinstance(o.get("bookkeeping"), dict)),
                                   interpolating_lookups=sum(o.get("bookkeeping", {}).get("between", 0) for o in outs if isinstance(o.get("bookkeeping"), dict)),
                                   updates=sum(o.get("bookkeeping", {}).get("updates", 0) for o in outs if isinstance(o.get("bookkeeping"), dict)),
                                   repeated_update_times=sum(o.get("bookkeeping", {}).get("repeated_times", 0) for o in outs if isinstance(o.get("bookkeeping"), dict))),
                vector_models=dict(cases=sum(1 for c in cases if c["kind"] == "vec"), units=sorted({c["units"] for c in cases if c["kind"] == "vec"})),
                guard_violating=len(gv), real_code_raised=len(crashed), unlisted_finding_witnesses_not_exercised=unlisted)
    sample = next((dict(c, points=c["points"][:1], equations=equation_strings(c)) for c in cases if c["kind"] == "func"), None)
    sample_r = next((dict(c, equations=equation_strings(c)) for c in cases if c["kind"] == "run"), None)
    write_evidence(ctx, evaluations=len(cases), distinct_nontrivial=len(nt),
                   rule="models inside the one remaining guard on which the real code returned values; non-trivial = some delayed variable does not sit in state slot 0, or one "
                        "variable carries >= 2 distinct delays (run stream: or a delay that is not a multiple of the step size, so that the history value is "
                        "interpolated); distinct = distinct canonical JSON",
                   samples=[s for s in (sample, sample_r) if s],
                   extra=dict(input_distribution=hist, impl_vs_model_mismatches=len(badI), impl_vs_spec_mismatches=len(badS),
                              label="partial",
                              partial_because="'the result converges to the solution of the DDE' is numerical analysis and is NOT proved: it is covered only by the exact "
                                              "method-of-steps recurrence (run_spec: forward Euler with the piecewise-linear interpolant of the computed steps as history, "
                                              "constant y0 before the start), which run(solver='euler') is proved (model) and measured (code) to implement; Heun and the adaptive "
                                              "scipy run loop are not modelled (only the compiled function under solver='scipy' is); other backends than 'default' are not exercised"),
                   trusted_base=["numpy float64 arithmetic is exact on the generated dyadic data (results are compared as exact rationals; the run stream sizes its "
                                 "cases with an exact pre-computation so that every intermediate value has <= 44 significant bits)",
                                 "sympy's canonicalisation of a sum of monomials preserves its value (opaque; the real code's result is compared with the model's on every case)",
                                 "state positions pos(x) are read from the state map returned by get_run_func (documented API); the undelayed occurrences of x in the same "
                                 "right-hand sides tie y[pos x] to x",
                                 "repr(float(dt)) in the generated code is read back as exactly dt (Python float repr round-trips)"],
                   assumptions=["guard edge_delay_above_step (finding C10-F4, a DELIBERATE threshold of the code, recorded because the property text makes no "
                                "exception): the largest delay of the edges leaving a source variable exceeds step_size",
                                "guard delays_uniform (finding C10-F5): with vectorize=True a delay parameter has the same value on all merged nodes",
                                "adaptive run (scipy dopri5): floating-point arithmetic, so only the history bookkeeping is tied exactly: update times never decrease "
                                "(every output time is fed twice with the same state: C19's hypothesis 'strictly increasing' is NOT met by this caller; harmless by "
                                "C10_lookup_interval_nonempty), every lookup is answered from the rows DDE.qcase selects among the records present at that moment "
                                "(float interpolation recomputed by the harness with DDEHistory's formula), every returned sample was recorded at its own time",
                                "Heun as coded evaluates both stages with the same step counter: both read hist(i*dt - tau) (the corrector does not look at t+dt)",
                                "delays are float literals or parameters (the regex of the x(t-d) rewrite stops at the first ')': composite delays are outside the model)",
                                "one operator per node, backend='default'; vectors only as n merged structurally equal nodes (vectorize=True)",
                                "IEEE rounding is outside the model: the model computes in Qc"])
