"""C06 — a variable path addresses the same variable everywhere.
Model: coq/theories/Paths.v (Impl `get_nodes`, `run_columns`; Spec `path_denotation`, `spec_columns`);
theorems: coq/properties/C06.v (proofs in PathsProofs.v).
Tie (E1), two streams:
  gn  : random circuit trees x random patterns -> CircuitTemplate.get_nodes, compared list-for-list (exceptions by class);
  run : circuits whose node i integrates x' = k_i (distinct dyadic k_i, so a column identifies its node exactly) ->
        CircuitTemplate.run(solver='euler'), dict / list outputs, single / wildcard / several keys, vectorize on/off,
        shuffled declaration order; every returned column is compared (label and all values, exact rationals) with the
        Spec (trajectory of the variable named in the label) and with the mechanism model evaluated on the layout
        (_vectorization_labels/_indices, _front_to_back, _state_var_indices) and the state-ordered rate vector taken
        from the real compiled function."""
import json, os
from fractions import Fraction as Fr
from core import *

NEEDS = ["Paths", "PathsProofs", "Corr", "IndexedEquiv"]   # IndexedEquiv: E2 tie of _get_indexed_var_str
OPVARS = {"op": ["x", "k"], "oq": ["x", "z", "k"], "ou": ["u", "k"]}
STATEVARS = {"op": {"x": 0}, "oq": {"x": 0, "z": 128}, "ou": {"u": 64}}     # rate = k + offset
ZOFF = 128           # z' = k + 128 : the z rates never coincide with an x rate
T_END, DT = 1.0, 0.125

# ---------------------------------------------------------------------------------------------- impl side (worker)
def build(tree, name="net"):
    """tree = {"nodes": [[name, [opnames], k]], "pops": [[name, [opname], [k_unit...]]]} | {"subs": [[name, tree]]};
    ONE OperatorTemplate object per name; a population is a PopulationTemplate with per-unit k"""
    from pyrates import OperatorTemplate, NodeTemplate, CircuitTemplate
    from pyrates.frontend.template.population import PopulationTemplate
    ops = {"op": OperatorTemplate(name="op", equations=["x' = k"], variables={"x": "output(0.0)", "k": 1.0}, path=None),
           "oq": OperatorTemplate(name="oq", equations=["x' = k", f"z' = k + {ZOFF}.0"],
                                  variables={"x": "output(0.0)", "z": "variable(0.0)", "k": 1.0}, path=None),
           "ou": OperatorTemplate(name="ou", equations=["u' = k + 64.0"], variables={"u": "output(0.0)", "k": 1.0}, path=None)}
    def circ(nm, c):
        if "nodes" in c:
            nodes = {n: NodeTemplate(name=n, path=None, operators={ops[o]: {"k": float(Fr(k))} for o in onames})
                     for n, onames, k in c["nodes"]}
            pops = {n: PopulationTemplate(n, NodeTemplate(name=n + "_unit", path=None, operators={ops[onames[0]]: {}}), len(ks),
                                          params={f"{onames[0]}/k": [float(Fr(k)) for k in ks]})
                    for n, onames, ks in c.get("pops", [])}
            return CircuitTemplate(name=nm, path=None, nodes=nodes, populations=pops) if pops else \
                CircuitTemplate(name=nm, path=None, nodes=nodes)
        return CircuitTemplate(name=nm, path=None, circuits={n: circ(n, s) for n, s in c["subs"]})
    return circ(name, tree)

KNOWN_ERR = ("KeyError", "IndexError", "ValueError", "TypeError", "PyRatesException")

def impl_gn(case):
    net = build(case["tree"])
    var = tuple(case["var"]) if case["var"] else None
    pat = case["pat"] if case.get("as_list") else "/".join(case["pat"])
    try:
        r = net.get_nodes(pat, var_identifier=var)
    except Exception as e:
        return {"raised": type(e).__name__}
    assert isinstance(r, list) and all(isinstance(x, str) for x in r), r
    return {"nodes": r}

def lvl(x):
    """one level of a column label: unit numbers come back as int or as float (when padded with nan)"""
    import numbers
    if isinstance(x, numbers.Integral) or (isinstance(x, float) and x.is_integer()):
        return str(int(x))
    return str(x)

def impl_run(case):
    import numpy as np, math
    from copy import deepcopy
    import pyr
    from pyr import frac, fracs
    vec = bool(case["vectorize"])
    # (a) layout and state-ordered rates from an independent compilation
    pyr.reset_pyrates()
    try:
        d = build(case["tree"])
        func, args, arg_names, smap = d.get_run_func("vf", DT, file_name="c06_vf", vectorize=vec, backend="default",
                                                     float_precision="float64", solver="euler", in_place=True, clear=False,
                                                     verbose=False)
        dy = np.asarray(func(*args), dtype=np.float64).reshape(-1)
        sp = lambda s: s.split("/")
        layout = dict(labels=[[sp(k), sp(v)] for k, v in d._vectorization_labels.items()],
                      vidx=[[sp(k), [int(i) for i in v]] for k, v in d._vectorization_indices.items()],
                      f2b=[[sp(k), v.name] for k, v in d._ir._front_to_back.items()],
                      svi=[[k, [int(v[0]), int(v[1]) - int(v[0])] if isinstance(v, (tuple, list)) else [int(v), 1]]
                           for k, v in d._ir.graph._state_var_indices.items()],
                      rates=fracs(dy))
    finally:
        pyr.reset_pyrates()
    # (b) the run itself on a fresh template
    try:
        c = build(case["tree"])
        tsvi = []
        if case.get("pre") == "get_run_func":
            c.get_run_func("vf0", DT, file_name="c06_pre", vectorize=vec, backend="default", float_precision="float64",
                           solver="euler", in_place=False, clear=True, verbose=False)
            tsvi = [[k, [int(v[0]), int(v[1]) - int(v[0])] if isinstance(v, (tuple, list)) else None]
                    for k, v in c._state_var_indices.items()]
        layout["tsvi"] = tsvi
        outs = {k: p for k, p in case["reqs"]} if case["form"] == "dict" else [p for _, p in case["reqs"]]
        try:
            df = c.run(float(Fr(case.get("t_end", T_END))), DT, outputs=outs, solver="euler", vectorize=vec, verbose=False, clear=True,
                       float_precision="float64", in_place=False)
        except Exception as e:
            return dict(layout=layout, raised=type(e).__name__, msg=str(e)[:200])
        cols = []
        for j, col in enumerate(df.columns):
            lab = [lvl(x) for x in col if not (isinstance(x, float) and math.isnan(x))] if isinstance(col, tuple) else [str(col)]
            cols.append([lab, fracs(df.iloc[:, j].values)])
        return dict(layout=layout, times=fracs(df.index.values), cols=cols)
    finally:
        pyr.reset_pyrates()

def build_edge(case):
    """flat circuit of structurally identical nodes u' = s_in; every edge carries an EdgeTemplate (m = u_s*u_t + u_s) whose
    extra input u_t is mapped BY PATH to a node variable (the Kuramoto `sin_edge` feature)"""
    from pyrates import OperatorTemplate, NodeTemplate, CircuitTemplate, EdgeTemplate
    po = OperatorTemplate(name="po", equations=["u' = s_in"], variables={"u": "output(0.0)", "s_in": "input(0.0)"}, path=None)
    co = OperatorTemplate(name="co", equations=["m = u_s*u_t + u_s"],
                          variables={"m": "output(0.0)", "u_s": "input(0.0)", "u_t": "input(0.0)"}, path=None)
    edge = EdgeTemplate(name="ce", path=None, operators=[co])
    names = [n for n, _ in case["nodes"]]
    nodes = {n: NodeTemplate(name=n, path=None, operators={po: {"u": float(Fr(v))}}) for n, v in case["nodes"]}
    if case.get("plain"):      # the same edges without a template: u_t' = sum of w * u_s
        edges = [(f"{names[s]}/po/u", f"{names[t]}/po/s_in", None, {"weight": float(Fr(w))}) for s, t, w, r in case["edges"]]
    else:
        edges = [(f"{names[s]}/po/u", f"{names[t]}/po/s_in", edge,
                  {"weight": float(Fr(w)), "ce/co/u_s": "source", "ce/co/u_t": f"{names[r]}/po/u"}) for s, t, w, r in case["edges"]]
    return CircuitTemplate(name="c", path=None, nodes=nodes, edges=edges)

def impl_edge(case):
    import numpy as np
    import pyr
    from pyr import fracs
    pyr.reset_pyrates()
    try:
        d = build_edge(case)
        try:
            func, args, arg_names, smap = d.get_run_func("vf", DT, file_name="c06_ef", vectorize=bool(case["vectorize"]),
                                                         backend="default", float_precision="float64", solver="euler",
                                                         in_place=True, clear=False, verbose=False)
            y0 = np.asarray(args[1], dtype=np.float64).reshape(-1).copy()
            dy = np.asarray(func(*args), dtype=np.float64).reshape(-1)
        except Exception as e:
            return dict(raised=type(e).__name__, msg=str(e)[:200])
        sp = lambda s: s.split("/")
        layout = dict(labels=[[sp(k), sp(v)] for k, v in d._vectorization_labels.items()],
                      vidx=[[sp(k), [int(i) for i in v]] for k, v in d._vectorization_indices.items()],
                      f2b=[[sp(k), v.name] for k, v in d._ir._front_to_back.items()],
                      svi=[[k, [int(v[0]), int(v[1]) - int(v[0])] if isinstance(v, (tuple, list)) else [int(v), 1]]
                           for k, v in d._ir.graph._state_var_indices.items()], tsvi=[], rates=[])
        return dict(layout=layout, y0=fracs(y0), dy=fracs(dy))
    finally:
        pyr.reset_pyrates()

def impl(case):
    return impl_gn(case) if case["kind"] == "gn" else impl_edge(case) if case["kind"] == "edge" else impl_run(case)

# ---------------------------------------------------------------------------------------------- generator
CNAMES = ["c1", "c2", "c3", "c4", "c5"]
NNAMES = ["n0", "n1", "n2", "n3", "A", "B"]

def gen_tree(rng, depth, run, kpool, uneven=False):
    if depth == 0:
        k = rng.randint(1, 4)
        # run stream: sometimes 4-6 nodes of two structural classes that share an operator, in interleaved order
        # (a wildcard over op/x then crosses vectorization groups back and forth)
        inter = run and rng.random() < 0.35
        if inter:
            k = rng.randint(4, 6)
            two = rng.choice([[["op"], ["op", "ou"]], [["oq"], ["oq", "ou"]], [["op"], ["ou", "op"]], [["op", "ou"], ["op"]]])
        names = rng.sample(NNAMES, k)
        nodes = []
        for j, n in enumerate(names):
            if inter:
                ops = list(two[j % 2] if rng.random() < 0.8 else rng.choice(two))
            elif run:
                ops = rng.choice([["op"], ["op"], ["oq"], ["op", "ou"], ["oq", "ou"]])
            else:
                ops = rng.choice([["op"], ["oq"], ["op", "oq"], ["oq", "op"], []])
            nodes.append([n, ops, str(kpool.pop())])
        return {"nodes": nodes}
    k = rng.randint(1, 3 if depth > 1 else 4)
    names = rng.sample(CNAMES, k)
    subs = []
    for n in names:
        d = depth - 1
        if uneven and d > 0 and rng.random() < 0.3:
            d -= 1
        subs.append([n, gen_tree(rng, d, run, kpool, uneven)])
    return {"subs": subs}

def leaves(tree, prefix=()):
    """generator aid: [(path tuple, ops, k)] depth first in declaration order"""
    if "nodes" in tree:
        return [(prefix + (n,), ops, k) for n, ops, k in tree["nodes"] + tree.get("pops", [])]
    out = []
    for n, s in tree["subs"]:
        out += leaves(s, prefix + (n,))
    return out

def py_matches(pat, p):
    """generator aid only (never decides a verdict): the Spec's matching rule"""
    if not pat or not p:
        return not pat and not p
    if len(pat) == 1:
        return pat[0] == "all" or (pat[0] == p[0] and len(p) == 1)
    return (pat[0] in ("all", p[0])) and py_matches(pat[1:], p[1:])

def py_denote(tree, pat, op, var):
    return [p for p, ops, k in leaves(tree) if py_matches(pat, list(p)) and op in ops and var in OPVARS[op]]

def gen_pattern(rng, tree):
    lv = leaves(tree)
    if lv and rng.random() < 0.9:
        base = list(rng.choice(lv)[0])
    else:
        base = [rng.choice(CNAMES) for _ in range(rng.randint(0, 2))] + [rng.choice(NNAMES)]
    pat = []
    for i, nm in enumerate(base):
        r = rng.random()
        if r < 0.62:
            pat.append(nm)
        elif r < 0.92:
            pat.append("all")
        elif r < 0.98:
            pat.append(rng.choice(NNAMES if i == len(base) - 1 else CNAMES))
        else:
            pat.append("zz")
    r = rng.random()
    if r < 0.07 and len(pat) > 1:
        pat = pat[:rng.randint(1, len(pat) - 1)] + (["all"] if rng.random() < 0.6 else [])
    elif r < 0.12:
        pat = pat + [rng.choice(["all", "zz", rng.choice(NNAMES)])]
    return pat

def kvalues(rng, n):
    """distinct dyadic rates k/8 in (0, 16)"""
    ks = rng.sample(range(1, 128), n)
    return [Fr(k, 8) for k in ks]

def gen_gn(rng):
    depth = rng.choice([0, 1, 1, 2, 2, 3])
    tree = gen_tree(rng, depth, False, kvalues(rng, 100), uneven=rng.random() < 0.3)
    if rng.random() < 0.03:
        tree = {"nodes": []}
    pat = gen_pattern(rng, tree)
    var = rng.choice([None, None, ["op", "x"], ["op", "x"], ["oq", "x"], ["oq", "z"], ["op", "z"], ["zz", "x"], ["op", "k"]])
    return dict(kind="gn", tree=tree, pat=pat, var=var, as_list=rng.random() < 0.3)

SINGLE_KEYS = list("abcdefgh")
MULTI_KEYS = ["v1", "out", "first", "r_e", "ab", "ab2", "a1"]

def shuffle_tree(rng, tree):
    if "nodes" in tree:
        l = list(tree["nodes"]); rng.shuffle(l)
        if "pops" in tree:
            q = list(tree["pops"]); rng.shuffle(q)
            return {"nodes": l, "pops": q}
        return {"nodes": l}
    l = [[n, shuffle_tree(rng, s)] for n, s in tree["subs"]]; rng.shuffle(l)
    return {"subs": l}

def gen_run(rng, in_guard_only=False):
    depth = rng.choice([0, 0, 1, 1, 2, 3])
    while True:
        tree = gen_tree(rng, depth, True, kvalues(rng, 100))
        if len(leaves(tree)) >= 2 or rng.random() < 0.1:
            break
    if depth == 0 and rng.random() < 0.6:
        # populations (flat circuits, vectorize=True only): 2-5 units with distinct per-unit rates
        kp = kvalues(rng, 100)
        tree["pops"] = [[nm, [rng.choice(["op", "op", "oq"])], [str(kp.pop()) for _ in range(rng.randint(2, 5))]]
                        for nm in rng.sample(["P", "Q"], rng.randint(1, 2))]
        ks = [k for _, _, k in tree["nodes"]]
        tree["pops"] = [[nm, o, [k if k not in ks else str(Fr(k) + 16) for k in kl]] for nm, o, kl in tree["pops"]]
    form = rng.choice(["dict", "dict", "list"])
    nreq = rng.choice([1, 1, 2, 2, 3])
    keys = rng.sample(SINGLE_KEYS if rng.random() < 0.75 else SINGLE_KEYS[:3] + MULTI_KEYS, nreq)
    reqs, multi_seen = [], set()
    tries = 0
    while len(reqs) < nreq and tries < 60:
        tries += 1
        pat = gen_pattern(rng, tree)
        op, var = rng.choice([("op", "x"), ("op", "x"), ("oq", "x"), ("oq", "z"), ("ou", "u")])
        if "pops" in tree and rng.random() < 0.5:      # address a population by name
            nm, o, _ = rng.choice(tree["pops"])
            pat, op = [nm], o[0]
            var = rng.choice(list(STATEVARS[op]))
        den = py_denote(tree, pat, op, var)
        if not den and rng.random() < 0.9:
            continue
        vs = {p + (op, var) for p in den}
        if form == "dict" and len(den) > 1 and (vs & multi_seen) and rng.random() < 0.3:
            continue
        if form == "dict" and len(den) > 1:
            multi_seen |= vs
        reqs.append([keys[len(reqs)], "/".join(pat + [op, var])])
    if not any(py_denote(tree, p.split("/")[:-2], *p.split("/")[-2:]) for _, p in reqs):
        lv = rng.choice(leaves(tree))
        o = lv[1][0]
        reqs.append(["z", "/".join(list(lv[0]) + [o, "u" if o == "ou" else "x"])])
    return dict(kind="run", tree=tree, form=form, reqs=reqs, vectorize=True if "pops" in tree else rng.random() < 0.65)

def gen_edge(rng):
    n = rng.choice([2, 3, 4, 4, 5, 6, 10, 11, 12])      # >= 10 units: index lists are passed as named constants
    vals = rng.sample(range(2, 60), n)
    nodes = [[(NNAMES + [f"m{i}" for i in range(6)])[i], str(Fr(v, 2))] for i, v in enumerate(vals)]
    pairs = [(s, t) for s in range(n) for t in range(n) if s != t]
    rng.shuffle(pairs)
    edges = [[s, t, str(Fr(rng.choice([-3, -2, -1, 1, 2, 3, 5]), 2)), rng.randrange(n)] for s, t in pairs[:rng.randint(1, min(4, len(pairs)))]]
    if n >= 4 and (n >= 10 or rng.random() < 0.5):
        # one edge per node with the sources (or the targets, or the path-mapped extra sources) in an order that is the identity at
        # both ends and permuted in the middle only: an index list 0, .., n-1 that must NOT be taken for "the whole variable"
        order = [0] + rng.sample(range(1, n - 1), n - 2) + [n - 1]
        if order == sorted(order):
            order[1], order[2] = order[2], order[1]
        w = lambda: str(Fr(rng.choice([-3, -2, -1, 1, 2, 3, 5]), 2))
        other = lambda i: rng.choice([j for j in range(n) if j != i])
        kind = rng.choice(["source", "target", "ref"])
        if kind == "source":
            edges = [[i, other(i), w(), rng.randrange(n)] for i in order]
        elif kind == "target":
            edges = [[other(i), i, w(), rng.randrange(n)] for i in order]
        else:
            edges = [[i, (i + 1) % n, w(), r] for i, r in zip(range(n), order)]
    return dict(kind="edge", nodes=nodes, edges=edges, vectorize=rng.random() < 0.7, plain=rng.random() < 0.35)

def run_variants(rng, case):
    """the same request on the same circuit with shuffled declaration order / the other vectorize setting"""
    v = [dict(case, tree=shuffle_tree(rng, case["tree"]))]
    return v if "pops" in case["tree"] else v + [dict(case, vectorize=not case["vectorize"])]

def nontrivial(case):
    lv = leaves(case["tree"]) if "tree" in case else []
    if case["kind"] == "gn":
        return len(lv) >= 2 and ("all" in case["pat"] or len(case["pat"]) >= 2)
    if case["kind"] == "edge":     # an edge whose path-mapped extra source is not the first declared node
        return any(r != 0 for _, _, _, r in case["edges"])
    first = lv[0][0] if lv else None
    hit = set()
    for _, p in case["reqs"]:
        parts = p.split("/")
        hit |= set(py_denote(case["tree"], parts[:-2], parts[-2], parts[-1]))
    return len(lv) >= 2 and any(h != first for h in hit)

# ---------------------------------------------------------------------------------------------- model side
HEADER = """From Coq Require Import List String ZArith QArith Qcanon Bool Arith.
From PV Require Import Paths Corr.
Import ListNotations.
Open Scope string_scope.
Open Scope list_scope.
Definition mkq (num : Z) (den : positive) : Qc := Q2Qc (num # den).
Definition FX : fixes := {| fix_D31 := @D31@; fix_overlap := @OVERLAP@; fix_short := @SHORT@; fix_popwild := @POPWILD@ |}.
Definition qeqb (a b : Qc) : bool := Qeq_bool (this a) (this b).
Fixpoint leqb {A} (e : A -> A -> bool) (a b : list A) : bool :=
  match a, b with [], [] => true | x :: a', y :: b' => e x y && leqb e a' b' | _, _ => false end.
Definition err_eqb (a b : err) : bool :=
  match a, b with KeyError, KeyError | IndexError, IndexError | ValueError, ValueError | TypeError, TypeError | PyRatesException, PyRatesException => true | _, _ => false end.
Definition res_eqb {A} (e : A -> A -> bool) (a b : res A) : bool :=
  match a, b with Ok x, Ok y => e x y | Err x, Err y => err_eqb x y | _, _ => false end.
(* ---- stream gn *)
Definition gcase := (tree * varid * list string * res (list path))%type.
Definition g_okI (c : gcase) := let '(t, v, pat, ob) := c in res_eqb (leqb path_eqb) (get_nodes_gen FX t v pat) ob.
Definition g_okS (c : gcase) := let '(t, v, pat, ob) := c in res_eqb (leqb path_eqb) (Ok (path_denotation t v pat)) ob.
Definition g_wf (c : gcase) := let '(t, v, pat, ob) := c in wfb t.
Definition g_g1 (c : gcase) := let '(t, v, pat, ob) := c in names_resolve t pat.
Definition g_g2 (c : gcase) := let '(t, v, pat, ob) := c in not_too_long t pat.
Definition g_g3 (c : gcase) := let '(t, v, pat, ob) := c in not_too_short t pat.
(* ---- stream run *)
Definition obs := res (list (label * list Qc)).
Definition rcase := (tree * layout * form * list request * list Qc * list Qc * (list (path * nat * Qc) * list (path * nat)) * obs)%type.
Definition traj (times : list Qc) (r : Qc) : list Qc := map (fun t => (r * t)%Qc) times.
Definition col_eqb (a b : label * list Qc) := leqb String.eqb (fst a) (fst b) && leqb qeqb (snd a) (snd b).
Definition obs_eqb : obs -> obs -> bool := res_eqb (leqb col_eqb).
Fixpoint rate_of (vr : list (path * nat * Qc)) (v : path * nat) : Qc :=
  match vr with
  | [] => mkq (-1) 1
  | (p, j, r) :: vr' => if path_eqb (fst v) p && Nat.eqb (snd v) j then r else rate_of vr' v
  end.
Definition r_spec (c : rcase) : obs :=
  let '(t, L, f, reqs, times, rates, vr, ob) := c in
  bind (spec_result t (snd vr) f reqs) (fun l => Ok (map (fun lv => (fst lv, traj times (rate_of (fst vr) (snd lv)))) l)).
Definition r_impl (c : rcase) : obs :=
  let '(t, L, f, reqs, times, rates, vr, ob) := c in
  bind (run_columns_gen FX t L f reqs) (fun l =>
    fold_right (fun (x : label * (string * nat)) acc =>
                  match column_value (mkq 0 1) L rates (snd x) with
                  | Some r => bind acc (fun cols => Ok ((fst x, traj times r) :: cols))
                  | None => Err IndexError
                  end) (Ok []) l).
Definition r_okI (c : rcase) := let '(t, L, f, reqs, times, rates, vr, ob) := c in obs_eqb (r_impl c) ob.
Definition r_okS (c : rcase) := let '(t, L, f, reqs, times, rates, vr, ob) := c in obs_eqb (r_spec c) ob.
Definition r_wf (c : rcase) := let '(t, L, f, reqs, times, rates, vr, ob) := c in wfb t.
Definition r_g1 (c : rcase) := let '(t, L, f, reqs, times, rates, vr, ob) := c in forallb (fun r => names_resolve t (fst (snd r))) reqs.
Definition r_g2 (c : rcase) := let '(t, L, f, reqs, times, rates, vr, ob) := c in forallb (fun r => not_too_long t (fst (snd r))) reqs.
Definition r_g3 (c : rcase) := let '(t, L, f, reqs, times, rates, vr, ob) := c in forallb (fun r => not_too_short t (fst (snd r))) reqs.
Definition r_g4 (c : rcase) := let '(t, L, f, reqs, times, rates, vr, ob) := c in
  match f with DictForm => no_overlap t reqs | _ => true end.
Definition r_g5 (c : rcase) := let '(t, L, f, reqs, times, rates, vr, ob) := c in
  match f with DictForm => no_pop_in_wildcard t (snd vr) reqs | _ => true end.
Definition r_g6 (c : rcase) := let '(t, L, f, reqs, times, rates, vr, ob) := c in
  match tsvi L with [] => true | _ => false end.
Definition r_g7 (c : rcase) := let '(t, L, f, reqs, times, rates, vr, ob) := c in
  covers L (snd vr) (requested t f reqs).
"""
# The repairs D73 (D31), D77 (overlapping wildcard keys), D87 (short), D88 (popwild) have landed: the model runs with all switches on and
# their guards are not guards any more.  VERIF_C06_FIXES=none|D31|overlap evaluates an older model (debugging aid only).
FIXES = [x for x in os.environ.get("VERIF_C06_FIXES", "D31,overlap,short,popwild").split(",") if x and x != "none"]
# proposed repairs are validated with e.g. VERIF_C06_FIXES=D31,overlap,short  /  D31,overlap,popwild
HEADER = (HEADER.replace("@D31@", "true" if "D31" in FIXES else "false").replace("@OVERLAP@", "true" if "overlap" in FIXES else "false")
          .replace("@SHORT@", "true" if "short" in FIXES else "false").replace("@POPWILD@", "true" if "popwild" in FIXES else "false"))
DROPPED = ((["names_resolve"] if "D31" in FIXES else []) + (["no_overlap"] if "overlap" in FIXES else []) +
           (["not_too_short"] if "short" in FIXES else []) + (["no_pop_in_wildcard"] if "popwild" in FIXES else []))
HEADER += """(* ---- stream edge *)
Definition ecase := (layout * list Qc * list Qc * list (pedge Qc) * list (path * Qc) * list path * bool)%type.
Definition q0 : Qc := mkq 0 1.
Definition val_of (vals : list (path * Qc)) (v : path) : Qc := match passoc v vals with Some x => x | None => q0 end.
Definition e_ok (impl : bool) (c : ecase) : bool :=
  let '(L, y0, dy, es, vals, nodes, raised) := c in
  negb raised &&
  forallb (fun tv => match pos L tv 0 with
                     | Some k => qeqb (nth k dy (mkq (-1) 1))
                                      (if impl then edge_deriv_impl Qc Qcplus Qcmult q0 L y0 es tv
                                       else edge_deriv_spec Qc Qcplus Qcmult q0 (val_of vals) es tv)
                     | None => false
                     end) nodes.
Definition e_okI := e_ok true.
Definition e_okS := e_ok false.
Definition e_wf (c : ecase) := true.
"""
G_GUARDS = ["names_resolve", "not_too_long", "not_too_short"]
R_GUARDS = ["names_resolve", "not_too_long", "not_too_short", "no_overlap", "no_pop_in_wildcard", "fresh_template", "covers"]

def cpath(p):
    return clist([cstr(x) for x in p])

def ctree(tree):
    if "nodes" in tree:
        items = []
        for n, ops, k in tree["nodes"] + tree.get("pops", []):
            nd = clist([f"({cstr(o)}, {cpath(OPVARS[o])})" for o in ops])
            items.append(f"({cstr(n)}, Leaf {nd})")
        return "Circ " + clist(items)
    return "Circ " + clist([f"({cstr(n)}, {ctree(s)})" for n, s in tree["subs"]])

def cres_paths(out):
    if "raised" in out:
        return f"Err {out['raised']}"
    return "Ok " + clist([cpath(x.split("/")) for x in out["nodes"]])

def coq_gn(case, out):
    var = "None" if not case["var"] else f"(Some ({cstr(case['var'][0])}, {cstr(case['var'][1])}))"
    return f"({ctree(case['tree'])}, {var}, {cpath(case['pat'])}, {cres_paths(out)})"

def clayout(L):
    labels = clist([f"({cpath(k)}, {cpath(v)})" for k, v in L["labels"]])
    vidx = clist([f"({cpath(k)}, {clist([cnat(i) for i in v])})" for k, v in L["vidx"]])
    f2b = clist([f"({cpath(k)}, {cstr(v)})" for k, v in L["f2b"]])
    svi = clist([f"({cstr(k)}, ({cnat(v[0])}, {cnat(v[1])}))" for k, v in L["svi"]])
    tsvi = clist([f"({cstr(k)}, {'None' if v is None else f'(Some ({cnat(v[0])}, {cnat(v[1])}))'})" for k, v in L["tsvi"]])
    return f"{{| labels := {labels}; vidx := {vidx}; f2b := {f2b}; svi := {svi}; tsvi := {tsvi} |}}"

def coq_run(case, out):
    L = out["layout"]
    form = "DictForm" if case["form"] == "dict" else "ListForm"
    reqs = []
    for key, p in case["reqs"]:
        parts = p.split("/")
        reqs.append(f"({cstr(key)}, ({cpath(parts[:-2])}, ({cstr(parts[-2])}, {cstr(parts[-1])})))")
    times = [str(Fr(i) * Fr(DT)) for i in range(int(round(T_END / DT)))]
    vr, U = [], []
    for p, ops, k in leaves(case["tree"]):
        if isinstance(k, list):
            U.append(f"({cpath(list(p))}, {cnat(len(k))})")
        for o in ops:
            for sv, off in STATEVARS[o].items():
                for j, kj in enumerate(k if isinstance(k, list) else [k]):
                    vr.append(f"({cpath(list(p) + [o, sv])}, {cnat(j)}, {cq(Fr(kj) + off)})")
    if "raised" in out:
        ob = f"Err {out['raised']}"
    else:
        times = out["times"]
        ob = "Ok " + clist([f"({cpath(lab)}, {clist([cq(v) for v in vals])})" for lab, vals in out["cols"]])
    return (f"({ctree(case['tree'])}, {clayout(L)}, {form}, {clist(reqs)}, {clist([cq(t) for t in times])}, "
            f"{clist([cq(r) for r in L['rates']])}, ({clist(vr)}, {clist(U)}), ({ob} : obs))")

def coq_edge(case, out):
    names = [n for n, _ in case["nodes"]]
    var = lambda i: cpath([names[i], "po", "u"])
    # a plain edge is the coupling m = u_s*u_t + u_s with u_t read from a path that names nothing (value 0 on both sides)
    ref = (lambda r: cpath(["none"])) if case.get("plain") else var
    es = clist([f"({var(s)}, {var(t)}, {cq(w)}, {ref(r)})" for s, t, w, r in case["edges"]])
    vals = clist([f"({var(i)}, {cq(v)})" for i, (_, v) in enumerate(case["nodes"])])
    nodes = clist([var(i) for i in range(len(names))])
    if "raised" in out:
        empty = "{| labels := []; vidx := []; f2b := []; svi := []; tsvi := [] |}"
        return f"({empty}, [], [], {es}, {vals}, {nodes}, true)"
    return (f"({clayout(out['layout'])}, {clist([cq(v) for v in out['y0']])}, {clist([cq(v) for v in out['dy']])}, "
            f"{es}, {vals}, {nodes}, false)")

def model_compare(ctx, kind, cases, outs, tag):
    """returns (bad_vs_Impl, bad_vs_Spec, not_wf, {guard name: indices where it is false})"""
    pre, ty, guards = ("g", "gcase", G_GUARDS) if kind == "gn" else ("e", "ecase", []) if kind == "edge" else ("r", "rcase", R_GUARDS)
    conv = coq_gn if kind == "gn" else coq_edge if kind == "edge" else coq_run
    badI, badS, nwf, gf = [], [], [], {g: [] for g in guards}
    shard = 250 if kind == "gn" else 60
    for s in range(0, len(cases), shard):
        terms = [conv(c, o) for c, o in zip(cases[s:s + shard], outs[s:s + shard])]
        body = (f"Definition cases : list {ty} := " + clist(terms) + ".\n" +
                "".join(f"Eval vm_compute in (mismatches {pre}_{f} cases).\n"
                        for f in ["okI", "okS", "wf"] + [f"g{i + 1}" for i in range(len(guards))]))
        ls = parse_nat_lists(coq_eval(ctx, f"c06_{kind}_{tag}_{s}", HEADER, body))
        assert len(ls) == 3 + len(guards), ls
        badI += [s + i for i in ls[0]]; badS += [s + i for i in ls[1]]; nwf += [s + i for i in ls[2]]
        for g, l in zip(guards, ls[3:]):
            gf[g] += [s + i for i in l]
    for g in DROPPED:
        gf.pop(g, None)
    return badI, badS, nwf, gf

def model_outputs(ctx, case, out):
    if case["kind"] == "edge":
        body = (f"Definition c : ecase := {coq_edge(case, out)}.\n"
                "Eval vm_compute in (let '(L, y0, dy, es, vals, nodes, raised) := c in "
                "(map (fun tv => (pos L tv 0, edge_deriv_impl Qc Qcplus Qcmult q0 L y0 es tv, edge_deriv_spec Qc Qcplus Qcmult q0 (val_of vals) es tv)) nodes, dy)).\n")
    elif case["kind"] == "gn":
        body = (f"Definition c : gcase := {coq_gn(case, out)}.\n"
                "Eval vm_compute in (let '(t, v, pat, ob) := c in (get_nodes_gen FX t v pat, path_denotation t v pat)).\n")
    else:
        body = (f"Definition c : rcase := {coq_run(case, out)}.\n"
                "Eval vm_compute in (let '(t, L, f, reqs, times, rates, vr, ob) := c in (run_columns_gen FX t L f reqs, spec_columns t (snd vr) f reqs)).\n")
    try:
        return coq_eval(ctx, "c06_show", HEADER, body)[:5000]
    except Exception as e:
        return f"(model evaluation failed: {e})"

# ---------------------------------------------------------------------------------------------- check
def usable(case, out):
    """False: the real run ended in something the model has no value for (worker failure, unknown exception class)"""
    if not isinstance(out, dict) or "err" in out:
        return False
    if "raised" in out and out["raised"] not in KNOWN_ERR:
        return False
    return True

def stream(ctx, kind, cases, tag):
    outs = run_impl(ctx, "c06", "impl", cases, per_case_timeout=120)
    crashed = [i for i, (c, o) in enumerate(zip(cases, outs)) if not usable(c, o)]
    good = [i for i in range(len(cases)) if i not in crashed]
    badI, badS, nwf, gf = model_compare(ctx, kind, [cases[i] for i in good], [outs[i] for i in good], tag)
    badI = [good[i] for i in badI]; badS = [good[i] for i in badS]
    assert not nwf, f"generator produced ill-formed trees: {nwf[:5]}"
    # a guard violation explains a disagreement with the Spec only when the mechanism model predicts the observed outcome
    gv = {}
    for g, l in gf.items():
        for i in l:
            if good[i] not in badI:
                gv.setdefault(good[i], []).append(g)
    return outs, crashed, badI, badS, gv

def witness_check_factory(ctx):
    def wc(f):
        case = f["witness"]
        out = run_impl(ctx, "c06", "impl", [case], nworkers=1)[0]
        if not usable(case, out):
            return True
        _, badS, _, _ = model_compare(ctx, case["kind"], [case], [out], "wit_" + f["id"].replace("-", "_"))
        return bool(badS)
    return wc

def check(ctx):
    pr = proof_gate(ctx, NEEDS)
    problem = proof_problem(pr)
    n_gn, n_run = (1000, 56) if ctx.tier == "quick" else (20000, 900)
    n_edge = 60 if ctx.tier == "quick" else 1500
    if ctx.replay:
        rp = json.load(open(ctx.replay))
        cases = [rp["case"]] if "case" in rp else []
        gn = [c for c in cases if c["kind"] == "gn"]; rn = [c for c in cases if c["kind"] == "run"]
        ed = [c for c in cases if c["kind"] == "edge"]
    else:
        corpus = load_corpus("C06")
        gn = [c for c in corpus if c["kind"] == "gn"] + [gen_gn(ctx.rng) for _ in range(n_gn)]
        rn = [c for c in corpus if c["kind"] == "run"]
        for _ in range(n_run):
            c = gen_run(ctx.rng)
            rn += [c] + run_variants(ctx.rng, c)
        ed = [c for c in corpus if c["kind"] == "edge"]
        for _ in range(n_edge):
            c = gen_edge(ctx.rng)
            ed += [c, dict(c, vectorize=not c["vectorize"])]
    all_cases, all_outs, crashed, badI, badS, gv = [], [], [], [], [], {}
    for kind, cs in (("gn", gn), ("run", rn), ("edge", ed)):
        if not cs:
            continue
        o, cr, bI, bS, g = stream(ctx, kind, cs, "main")
        off = len(all_cases)
        all_cases += cs; all_outs += o
        crashed += [off + i for i in cr]; badI += [off + i for i in bI]; badS += [off + i for i in bS]
        gv.update({off + i: v for i, v in g.items()})
        ctx.note(f"E1[{kind}]: {len(cs)} cases; real-vs-Impl mismatches {len(bI)}, real-vs-Spec mismatches {len(bS)} "
                 f"(of which outside a guard and predicted by Impl: {sum(1 for i in bS if i in g)}), unusable outcomes {len(cr)}")
    def show(c):
        out = run_impl(ctx, "c06", "impl", [c], nworkers=1)[0]
        return dict(implementation_output=out, model_output=model_outputs(ctx, c, out) if usable(c, out) else None)
    conclude(ctx, cases=all_cases, impl_out=all_outs, bad_spec=badS, bad_impl=badI, crashed=crashed, problem=problem,
             guard_viol=gv, show=show, spec_name="Paths.path_denotation / Paths.spec_columns (the variable named in the label)",
             impl_name="Paths.get_nodes / Paths.run_columns", witness_check=witness_check_factory(ctx))
    nt = {canon(c) for c in all_cases if nontrivial(c)}
    hist = dict(gn=len(gn), run=len(rn), edge=len(ed), edge_vectorized=sum(1 for c in ed if c["vectorize"]),
                edge_ref_not_first=sum(1 for c in ed if any(r != 0 for _, _, _, r in c["edges"])),
                gn_depths={d: sum(1 for c in gn if depth_of(c["tree"]) == d) for d in range(5)},
                gn_with_all=sum(1 for c in gn if "all" in c["pat"]), gn_with_var=sum(1 for c in gn if c["var"]),
                gn_raised=sum(1 for c, o in zip(all_cases, all_outs) if c["kind"] == "gn" and isinstance(o, dict) and "raised" in o),
                run_dict=sum(1 for c in rn if c["form"] == "dict"), run_list=sum(1 for c in rn if c["form"] == "list"),
                run_vectorized=sum(1 for c in rn if c["vectorize"]),
                run_wildcard=sum(1 for c in rn if any("all" in p.split("/")[:-2] for _, p in c["reqs"])),
                run_several_keys=sum(1 for c in rn if len(c["reqs"]) > 1),
                run_with_populations=sum(1 for c in rn if "pops" in c["tree"]),
                run_raised=sum(1 for c, o in zip(all_cases, all_outs) if c["kind"] == "run" and isinstance(o, dict) and "raised" in o),
                outside_guards=len(gv))
    write_evidence(ctx, evaluations=len(all_cases), distinct_nontrivial=len(nt),
                   rule="gn: random circuit trees (depth 0-3, 1-4 children per level, branches share names, some of uneven depth) x random "
                        "patterns (names, 'all' at random levels, non-existent names, too short / too long) x var_identifier; non-trivial = "
                        ">= 2 leaves and a wildcard or >= 2 pattern levels.  run: circuits with distinct dyadic rates per node, 2 node types, "
                        "dict/list outputs, 1-3 keys, vectorize on/off, each case also with shuffled declaration order and with the other "
                        "vectorize setting; 40 % of the flat circuits also carry 1-2 PopulationTemplates of 2-5 units with distinct per-unit rates, "
                        "requested alone, next to scalar outputs, by wildcard and in list form; non-trivial = >= 2 leaves and a returned column of a node other than the first declared one.  "
                        "edge: flat circuits of 2-4 structurally identical nodes (distinct dyadic values), 1-4 edges each with an EdgeTemplate "
                        "(m = u_s*u_t + u_s) whose extra input is mapped by path to a random node, each with vectorize on and off; the derivative of "
                        "every node from the real compiled function is compared; non-trivial = the addressed node is not the first declared.  "
                        "distinct = distinct canonical JSON",
                   samples=[gn[0] if gn else None, rn[0] if rn else None, ed[0] if ed else None],
                   extra=dict(input_distribution=hist, impl_vs_model_mismatches=len(badI), impl_vs_spec_mismatches=len(badS)),
                   trusted_base=["float64 Euler integration of x' = k with dyadic k and dt = 1/8 is exact (checked: every value is compared as an exact rational)",
                                 "layout (_vectorization_labels/_indices, _front_to_back, _state_var_indices) and the state-ordered rate vector are read "
                                 "from an independent compilation of the same circuit by the real code"],
                   assumptions=["node and circuit names contain no '/' and none is called 'all' (wfb)",
                                "how apply() computes the layout is C04; here the layout is an input of the output-stage model",
                                "populations: flat circuits, vectorize=True (with vectorize=False a PopulationTemplate does not compile: ValueError)"])

def depth_of(tree):
    if "nodes" in tree:
        return 0
    return 1 + max([depth_of(s) for _, s in tree["subs"]] + [0])
