#!/bin/bash
# diagnostic: anchored-statement coverage of every check's implementation runs -> /verif/coverage/Cnn.txt
cd "$(dirname "$0")/.."
for p in ${@:-C01 C02 C03 C04 C05 C06 C07 C08 C09 C10 C11 C12 C13 C14 C15 C16 C17 C18 C19 C20}; do
  d=/tmp/cov_$p; rm -rf $d
  VERIF_COVERAGE=$d VERIF_JOBS=${VERIF_JOBS:-6} ./check $p > /tmp/cov_$p.log 2>&1
  echo "$p rc=$? $(tail -1 /tmp/cov_$p.log)"
  harness/anchor_coverage.py $p $d > coverage/$p.txt 2>&1; head -1 coverage/$p.txt
  mkdir -p /tmp/cov_union; cp $d/.coverage.* /tmp/cov_union/ 2>/dev/null; cp $d/coveragerc /tmp/cov_union/coveragerc; sed -i 's#data_file = .*#data_file = /tmp/cov_union/.coverage#' /tmp/cov_union/coveragerc; rm -rf $d
done
harness/anchor_coverage.py ALL /tmp/cov_union > coverage/ALL.txt 2>&1; head -1 coverage/ALL.txt; rm -rf /tmp/cov_union
