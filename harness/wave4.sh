#!/bin/bash
# wave4.sh Cnn : confirm /tmp/seed4_out/Cnn/m1 as seeded/Cnn-m7 and run the check against it
p=$1; id=$p-m7
/verif/harness/confirm_seed.sh /tmp/seed4_out/$p/m1 $id
if [ -d /verif/seeded/$id ]; then
  out=$(/verif/harness/try_seed.sh /verif/seeded/$id/patch.diff $p 2>&1)
  echo "$id check=$p violations=$(echo "$out" | grep -c '^VIOLATION') no_input=$(echo "$out" | grep -c 'no-failing-input-found') $(echo "$out" | grep -o 'done in [0-9.]*s' | head -1)"
fi
