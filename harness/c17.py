"""C17 — a parameter sweep equals running each parameter set on its own.
Model: coq/theories/Grid.v (Impl `linearize`, `adapt`, `assemble`, `grid_impl`; Spec `prod_rm`, `grid_spec`);
theorems: coq/properties/C17.v (proofs in GridProofs.v).  Column labels: C06's Paths.spec_columns on the assembled tree.
Tie (E1): pyrates.utility.grid_search on small linear dyadic circuits (x' = -k x + c + r_in, Euler, dt = 1/8) with node
parameters and edge weights swept (several targets per key, equal-length and permuted grids) is compared exactly with
(a) the model's table and trajectories (assembled network = Impl, row by row = Spec) and (b) separate real `run`s of a
circuit built directly with the values of each row of the returned table."""
import json, os
from fractions import Fraction as Fr
from core import *

NEEDS = ["Grid", "GridProofs", "Paths", "Corr", "IndexedEquiv"]   # IndexedEquiv: E2 tie of _get_indexed_var_str
T_END, DT = 1.0, 0.125
KNOWN_ERR = ("ValueError", "KeyError", "IndexError", "TypeError")

# ---------------------------------------------------------------------------------------------- impl side (worker)
def build(case, override=None):
    """override: {("k"|"c", node index): value, ("w", edge index): value} -- used for the separate runs"""
    from pyrates import OperatorTemplate, NodeTemplate, CircuitTemplate
    override = override or {}
    op = OperatorTemplate(name="op", equations=["x' = -k*x + c + r_in"],
                          variables={"x": "output(0.0)", "k": 1.0, "c": 0.0, "r_in": "input(0.0)"}, path=None)
    nodes, shared = {}, {}
    for i, (n, k, c, x0) in enumerate(case["nodes"]):
        vals = (float(override.get(("k", i), Fr(k))), float(override.get(("c", i), Fr(c))), float(Fr(x0)))
        # share=True: nodes with identical values are ONE NodeTemplate object (what from_yaml gives for a repeated template)
        if case.get("share") and vals in shared:
            nodes[n] = shared[vals]
        else:
            nodes[n] = NodeTemplate(name=n, path=None, operators={op: {"k": vals[0], "c": vals[1], "x": vals[2]}})
            shared[vals] = nodes[n]
    names = [n for n, *_ in case["nodes"]]
    def attr(j, w):
        a = {"weight": float(override.get(("w", j), Fr(w)))}
        if case.get("delays"):       # [delay | None, spread | None] per edge: discrete delay (no spread) or gamma kernel (spread)
            d, sp = case["delays"][j]
            d = override.get(("d", j), None if d is None else Fr(d)); sp = override.get(("s", j), None if sp is None else Fr(sp))
            a["delay"] = None if d is None else float(d)
            if sp is not None:
                a["spread"] = float(sp)
        return a
    edges = [(f"{names[s]}/op/x", f"{names[t]}/op/r_in", None, attr(j, w)) for j, (s, t, w) in enumerate(case["edges"])]
    c = CircuitTemplate(name="base" if not case.get("hier") else "flat", path=None, nodes=nodes, edges=edges)
    # hier = 1 | 2: the base circuit is itself hierarchical (inputs there need repair D89 = D30)
    for lvl, nm in zip(reversed(prefix(case)), ["mid", "base"][-len(prefix(case)):] if prefix(case) else []):
        c = CircuitTemplate(name=nm, path=None, circuits={lvl: c})
    return c

def prefix(case):
    return [[], ["s"], ["m", "s"]][case.get("hier", 0)]

def pre(case):
    return "".join(x + "/" for x in prefix(case))

def targets(case):
    """key -> list of ("k"|"c"|"w", index)"""
    names = [n for n, *_ in case["nodes"]]
    out = {}
    for key, kind, spec in case["pmap"]:
        tg = []
        if kind == "nodes":
            for n in spec["nodes"]:
                for v in spec["vars"]:
                    tg.append((v.split("/")[1], names.index(n)))
        else:
            for s, t, *idx in spec["edges"]:       # [s, t] = parallel edge 0, [s, t, idx] = parallel edge idx
                j = [j for j, (s2, t2, _) in enumerate(case["edges"]) if (s2, t2) == (s, t)][idx[0] if idx else 0]
                tg.append(({"weight": "w", "delay": "d", "spread": "s"}[spec.get("var", "weight")], j))
        out[key] = tg
    return out

def frame(df):
    import math
    from pyr import fracs
    cols = []
    for j, col in enumerate(df.columns):
        lab = [str(x) for x in col if not (isinstance(x, float) and math.isnan(x))] if isinstance(col, tuple) else [str(col)]
        cols.append([lab, fracs(df.iloc[:, j].values)])
    return cols

def impl(case):
    import numpy as np
    import pyr
    from pyr import fracs
    from pyrates.utility import grid_search
    names = [n for n, *_ in case["nodes"]]
    pmap = {}
    for key, kind, spec in case["pmap"]:
        if kind == "nodes":
            pmap[key] = {"nodes": [pre(case) + n for n in spec["nodes"]], "vars": list(spec["vars"])}
        else:
            pmap[key] = {"edges": [(f"{pre(case)}{names[s]}/op/x", f"{pre(case)}{names[t]}/op/r_in", *idx) for s, t, *idx in spec["edges"]],
                         "vars": [spec.get("var", "weight")]}
    grid = {key: [float(Fr(v)) for v in vals] for key, vals in case["grid"]}
    if case.get("df_index") is not None:          # the grid as a DataFrame whose integer index is a permutation
        import pandas as pd
        grid = pd.DataFrame(grid, index=list(case["df_index"]))
    outputs = {k: pre(case) + p for k, p in case["outputs"]}
    # extrinsic inputs to the r_in variable of some nodes (grid_search prefixes them with 'all/': one series for every copy;
    # the assembled circuit has hierarchy depth 1, so the loud class D30 -- depth >= 2 -- is not reached from a flat base)
    def inputs():
        d = {f"{pre(case)}{names[i]}/op/r_in": np.asarray([float(Fr(v)) for v in vals]) for i, vals in case.get("inputs", [])}
        return d or None
    pyr.reset_pyrates()
    try:
        try:
            base = build(case)
            if case.get("as_yaml"):            # the circuit handed over as a YAML path (adapt_circuit loads it itself)
                base.to_yaml("c17base.yaml")
                base = "c17base/base"
            res, tab = grid_search(base, grid, pmap, step_size=DT, simulation_time=T_END, outputs=dict(outputs),
                                   inputs=inputs(),
                                   permute_grid=bool(case["permute"]), vectorize=bool(case["vectorize"]), solver="euler",
                                   verbose=False, float_precision="float64")
        except Exception as e:
            return dict(raised=type(e).__name__, msg=str(e)[:200])
        out = dict(cols=frame(res), times=fracs(res.index.values), index=[str(i) for i in tab.index],
                   columns=[str(c) for c in tab.columns], rows=[fracs(tab.iloc[r, :].values) for r in range(tab.shape[0])])
    finally:
        pyr.reset_pyrates()
    # separate runs: a circuit built directly with the values the returned table gives for that row
    tg = targets(case)
    sep = []
    for r in range(len(out["rows"])):
        ov = {}
        for key, val in zip(out["columns"], out["rows"][r]):
            for t in tg[key]:
                ov[t] = Fr(val)
        pyr.reset_pyrates()
        try:
            df = build(case, ov).run(T_END, DT, outputs=dict(outputs), inputs=inputs(), solver="euler", vectorize=bool(case["vectorize"]),
                                     verbose=False, clear=True, float_precision="float64")
            sep.append(frame(df))
        finally:
            pyr.reset_pyrates()
    out["separate"] = sep
    return out

# ---------------------------------------------------------------------------------------------- generator
NAMES = ["A", "B", "C", "D"]
def dy(rng, lo, hi, den=4):
    return str(Fr(rng.randint(lo * den, hi * den), den))

def gen_delay_case(rng):
    """sweeps over the `delay` / `spread` attribute of an edge: discrete delays (multiples of the step, incl. 0, 1 and >= 2 steps) and
    gamma kernels with finely spaced delays on several time scales (two rows whose kernel rates differ by less than 0.005);
    the model does not cover delays: labels / table in Coq, values against the separate real runs only"""
    nn = rng.randint(2, 3)
    nodes = [[NAMES[i], dy(rng, 0, 2), dy(rng, -2, 2), dy(rng, -1, 1)] for i in range(nn)]
    pairs = [(s, t) for s in range(nn) for t in range(nn) if s != t]
    rng.shuffle(pairs)
    edges = [[s, t, str(Fr(rng.choice([-4, -3, -2, -1, 1, 2, 3, 4]), 4))] for s, t in pairs[:rng.randint(1, 2)]]
    gamma = rng.random() < 0.5
    scale = rng.choice([1, 8, 64, 64, 256])           # "seconds" ... "milliseconds": delays of 1 .. 64 time units at the same step
    if gamma:
        delays = [[str(Fr(scale) * rng.choice([1, 2])), None] for _ in edges]
        delays = [[d, str(Fr(d) / rng.choice([2, 2, 2, 4]))] for d, _ in delays]      # dyadic, kernel order 4 or 16
        j = rng.randrange(len(edges))
        d0 = Fr(delays[j][0])
        if rng.random() < 0.7:
            var, vals = "delay", [d0, d0 + d0 / rng.choice([256, 512, 1024]), d0 * Fr(3, 2)] + ([d0 + d0 / 32] if rng.random() < 0.5 else [])
        else:
            sp = Fr(delays[j][1])
            var, vals = "spread", [sp, sp + sp / rng.choice([64, 128]), sp / 2]
    else:
        delays = [[str(Fr(rng.choice([0, 1, 2, 3]), 8)), None] for _ in edges]
        j = rng.randrange(len(edges))
        var = "delay"
        vals = [Fr(k, 8) for k in rng.sample([0, 1, 1, 2, 3, 4], rng.randint(2, 4))]
    rng.shuffle(vals)
    vals = list(dict.fromkeys(str(v) for v in vals))
    pmap = [["p", "edges", {"edges": [[edges[j][0], edges[j][1]]], "var": var}]]
    grid = [["p", vals]]
    if rng.random() < 0.4:
        i = rng.randrange(nn)
        pmap.append(["q", "nodes", {"nodes": [NAMES[i]], "vars": ["op/k"]}])
        grid.append(["q", [dy(rng, 0, 2) for _ in vals]])
    return dict(nodes=nodes, edges=edges, delays=delays, pmap=pmap, grid=grid, permute=False,
                outputs=[["x", "all/op/x"]], vectorize=rng.random() < (0.8 if gamma else 0.65))

def delay_groups(case):
    """per source node: the delays in steps of all spread-less edges from it, over all rows of the sweep (what the vectorized
    compilation merges into one edge group)"""
    if not case.get("delays"):
        return []
    tg = targets(case)
    R = nrows(case)
    groups = {}
    for j, (s, t, w) in enumerate(case["edges"]):
        d, sp = case["delays"][j]
        if sp is not None:
            continue
        for r in range(R):
            dr = d
            for (key, vals) in case["grid"]:
                if ("d", j) in tg[key]:
                    dr = vals[r]
            groups.setdefault(s, []).append(0 if dr is None else int(round(float(Fr(dr)) / DT)))
    return list(groups.values())

def gen_case(rng):
    if rng.random() < 0.28:
        return gen_delay_case(rng)
    perm_mid = rng.random() < 0.15     # 4 nodes, one edge per source node in the order 0, 2, 1, 3 (permuted in the middle only)
    nn = 4 if perm_mid else rng.randint(2, 3)
    nodes = [[NAMES[i], dy(rng, 0, 2), dy(rng, -2, 2), dy(rng, -1, 1)] for i in range(nn)]
    pairs = [(s, t) for s in range(nn) for t in range(nn) if s != t]
    rng.shuffle(pairs)
    edges = [[s, t, dy(rng, -1, 1)] for s, t in pairs[:rng.randint(1, min(3, len(pairs)))]]
    if perm_mid:
        edges = [[s0, rng.choice([t for t in range(nn) if t != s0]), dy(rng, -1, 1)] for s0 in (0, 2, 1, 3)]
        if rng.random() < 0.5:       # the same with the targets: one edge into every node, targets in the order 0, 2, 1, 3
            edges = [[rng.choice([s0 for s0 in range(nn) if s0 != t]), t, dy(rng, -1, 1)] for t in (0, 2, 1, 3)]
    elif rng.random() < 0.35:       # parallel edges between the same pair of variables (their weights add)
        for _ in range(rng.randint(1, 2)):
            s0, t0, _ = rng.choice(edges)
            edges.append([s0, t0, dy(rng, -1, 1)])
        rng.shuffle(edges)
    # disjoint target sets for the keys
    hier = rng.choice([1, 1, 2]) if rng.random() < 0.3 else 0      # the base circuit is itself hierarchical (1 or 2 extra levels)
    pool = [("k", i) for i in range(nn)] + [("c", i) for i in range(nn)]
    if not hier or rng.random() < 0.12:       # edges declared inside a sub-circuit cannot be swept (known loud class): rarely
        pool += [("w", j) for j in range(len(edges))]
    rng.shuffle(pool)
    nkeys = rng.randint(1, 3)
    pmap, grid = [], []
    permute = rng.random() < 0.5
    lens = [rng.randint(1, 3) for _ in range(nkeys)] if permute or rng.random() < 0.08 else [rng.randint(1, 4)] * nkeys
    for q in range(nkeys):
        key = ["p", "q", "g"][q]
        if not pool:
            break
        first = pool.pop()
        kind = first[0]
        if kind == "w":
            more = [t for t in pool if t[0] == "w"][:rng.randint(0, 1)]
            for t in more:
                pool.remove(t)
            def par_idx(j):      # which of the parallel edges between this pair edge j is
                return [j2 for j2, e in enumerate(edges) if e[:2] == edges[j][:2]].index(j)
            js = [j for _, j in [first] + more]
            if any(par_idx(j) > 0 for j in js) or rng.random() < 0.3:
                pmap.append([key, "edges", {"edges": [[edges[j][0], edges[j][1], par_idx(j)] for j in js]}])
            else:
                pmap.append([key, "edges", {"edges": [[edges[j][0], edges[j][1]] for j in js]}])
        else:
            same = [t for t in pool if t[0] == kind][:rng.randint(0, 2)]
            other = []
            if rng.random() < 0.3:       # several vars per key on the same nodes
                okind = "c" if kind == "k" else "k"
                idxs = [first[1]] + [t[1] for t in same]
                if all((okind, i) in pool for i in idxs):
                    other = [(okind, i) for i in idxs]
            for t in same + other:
                pool.remove(t)
            vars_ = [f"op/{kind}"] + ([f"op/{other[0][0]}"] if other else [])
            pmap.append([key, "nodes", {"nodes": [NAMES[i] for i in [first[1]] + [t[1] for t in same]], "vars": vars_}])
        vals = []
        while len(vals) < lens[q]:
            v = dy(rng, 0, 2) if pmap[-1][1] == "nodes" and pmap[-1][2]["vars"][0] == "op/k" else dy(rng, -2, 2)
            if v not in vals:
                vals.append(v)
        grid.append([key, vals])
    r_out = rng.random()
    if r_out < 0.2:          # overlapping output keys (both expand to several variables in the sweep; served since repair D77)
        outputs = [["x", "all/op/x"], ["u", f"{NAMES[rng.randrange(nn)]}/op/x"]]
    elif r_out < 0.55:
        outputs = [["x", "all/op/x"]]
    else:
        outs = rng.sample(range(nn), rng.randint(1, 2))
        outputs = [[["u", "v"][j], f"{NAMES[i]}/op/x"] for j, i in enumerate(outs)]
    case = dict(nodes=nodes, edges=edges, pmap=pmap, grid=grid, permute=permute, outputs=outputs, vectorize=perm_mid or rng.random() < 0.6)
    if rng.random() < 0.5:                       # extrinsic input series (non-constant, dyadic) on 1-2 nodes
        case["inputs"] = [[i, [dy(rng, -2, 2, 2) for _ in range(int(round(T_END / DT)))]] for i in rng.sample(range(nn), rng.randint(1, min(2, nn)))]
    if hier:
        case["hier"] = hier
    if rng.random() < 0.45:                      # two nodes with identical values, held as one shared NodeTemplate object
        i, j = rng.sample(range(nn), 2)
        nodes[j][1:] = nodes[i][1:]
        case["share"] = True
    if not hier and not case.get("share") and rng.random() < 0.15:
        case["as_yaml"] = True
    lens = {len(v) for _, v in grid}
    if not permute and len(lens) == 1 and rng.random() < 0.4:
        perm = list(range(len(grid[0][1]))); rng.shuffle(perm)
        case["df_index"] = perm
    return case

def nrows(case):
    lens = [len(v) for _, v in case["grid"]]
    if case["permute"]:
        n = 1
        for l in lens:
            n *= l
        return n
    return lens[0] if len(set(lens)) == 1 else 0

def nontrivial(case):
    return nrows(case) >= 2 and len({tuple(v) for _, v in case["grid"]}) >= 1

# ---------------------------------------------------------------------------------------------- model side
HEADER = """From Coq Require Import List String ZArith QArith Qcanon Bool Arith.
From PV Require Import Paths Grid Corr.
Import ListNotations.
Open Scope string_scope.
Open Scope list_scope.
Definition mkq (num : Z) (den : positive) : Qc := Q2Qc (num # den).
Definition qeqb (a b : Qc) : bool := Qeq_bool (this a) (this b).
Fixpoint leqb {A} (e : A -> A -> bool) (a b : list A) : bool :=
  match a, b with [], [] => true | x :: a', y :: b' => e x y && leqb e a' b' | _, _ => false end.
Definition col := (list string * list Qc)%type.
Definition col_eqb (a b : col) := leqb String.eqb (fst a) (fst b) && leqb qeqb (snd a) (snd b).
(* observed: None = ValueError;  table rows, index names, columns of the DataFrame *)
Definition observed := option (list (list Qc) * list string * list col).
Record gcase := { base : circ; pm : list (list target); vals : list (list Qc); perm : bool; steps : nat;
                  nodes : list string; reqs : list request; ob : observed; labs : option (list nat); vec : bool; pre : list string; dgroups : list (list nat);
                  sep_grid : list col; sep_runs : list col }.
Definition dt : Qc := mkq 1 8.
Definition cname (r : nat) : string := "base_" ++ String (Ascii.ascii_of_nat (48 + r / 10)) (String (Ascii.ascii_of_nat (48 + r mod 10)) "").
Definition cname' (r : nat) : string := if Nat.ltb r 10 then "base_" ++ String (Ascii.ascii_of_nat (48 + r)) "" else cname r.
Definition opnode : node := [("op", ["x"; "k"; "c"; "r_in"])].
(* the index label of row r: r, or the DataFrame's own integer label when the grid is passed as a DataFrame *)
Definition row_labels (c : gcase) (R : nat) : list nat := match labs c with Some l => l | None => seq 0 R end.
Definition union_tree (c : gcase) (R : nat) : tree :=
  Circ (map (fun r => (cname' r, fold_right (fun lvl t => Circ [(lvl, t)]) (Circ (map (fun n => (n, Leaf opnode)) (nodes c))) (pre c)))
           (row_labels c R)).
Fixpoint index_of (s : string) (l : list string) : nat := match l with [] => 0 | x :: l' => if String.eqb s x then 0 else S (index_of s l') end.
(* the trajectory of variable [cname; node; op; x] taken from per-time / per-row / per-node states *)
Definition column_of (c : gcase) (R : nat) (states : nat -> nat -> nat -> Qc) (v : path) : list Qc :=
  let r := index_of (nth 0 v "") (map cname' (row_labels c R)) in
  let i := index_of (nth (1 + List.length (pre c)) v "") (nodes c) in
  map (fun j => states j r i) (seq 0 (steps c)).
Definition expected (c : gcase) (rows : list (list Qc)) (states : nat -> nat -> nat -> Qc) : observed :=
  let R := List.length rows in
  let reqs' := map (fun q : request => let '(key, (pat, ov)) := q in (key, ("all" :: pre c ++ pat, ov))) (reqs c) in
  Some (rows, map cname' (row_labels c R), map (fun lv => (fst lv, column_of c R states (fst (snd lv)))) (spec_columns (union_tree c R) [] DictForm reqs')).
Definition obs_eqb (a b : observed) : bool :=
  match a, b with
  | None, None => true
  | Some (r1, i1, c1), Some (r2, i2, c2) => leqb (leqb qeqb) r1 r2 && leqb String.eqb i1 i2 && leqb col_eqb c1 c2
  | _, _ => false
  end.
(* guard of the open finding: with vectorize=True no edge group (spread-less edges from one source variable, all rows) mixes a
   delay of exactly one step with a delay of two or more steps *)
Definition g_delay (c : gcase) : bool :=
  negb (vec c && existsb (fun l => existsb (Nat.eqb 1) l && existsb (Nat.leb 2) l) (dgroups c)).
Definition g_idx (c : gcase) : bool := idx_guard (base c) (pm c).
Definition implO (c : gcase) : observed :=
  match grid_impl_gen @IDX@ (base c) (pm c) (vals c) (perm c) dt (steps c) with
  | None => None
  | Some (rows, tr) => expected c rows (fun j r i => nth i (nth r (nth j tr []) []) (mkq 0 1))
  end.
Definition specO (c : gcase) : observed :=
  match ob c with
  | None => if (same_len (vals c) || perm c) then Some ([], [], []) else None
  | Some (rows, _, _) =>
      (* the returned table must enumerate the grid: zip, or a permutation of the full product in meshgrid order *)
      if negb (leqb (leqb qeqb) rows (match linearize (mkq 0 1) (vals c) (perm c) with Some l => l | None => [] end)) then Some ([], [], [])
      else let tr := grid_spec (base c) (pm c) rows dt (steps c) in
           expected c rows (fun j r i => nth i (nth j (nth r tr []) []) (mkq 0 1))
  end.
Definition okI (c : gcase) := obs_eqb (implO c) (ob c).
Definition okS (c : gcase) := obs_eqb (specO c) (ob c).
Definition okSep (c : gcase) := leqb col_eqb (sep_grid c) (sep_runs c).
(* the class ">= 10 rows with an input under vectorize=True" (IndexError, D32) is repaired (D85).
   Guard of the remaining loud class: a swept edge must be declared by the top level of the base circuit (adapt_circuit
   looks it up with get_edge on the top level only: KeyError for an edge declared inside a sub-circuit) *)
Definition g_fanout (c : gcase) : bool :=
  negb (negb (Nat.eqb (List.length (pre c)) 0) &&
        existsb (existsb (fun tg => match tg with TW _ => true | _ => false end)) (pm c)).
"""

# Repair D155 (adapt_circuit passes the parallel-edge index through) has landed: the mechanism model runs with Grid.fix_idx = true
# and idx_guard is not a guard any more; repair D118 (delays of at most one step neglected per edge) has landed too: the guard
# one_step_delay_not_mixed is dropped (`delay`).  VERIF_C17_FIXES=none evaluates the model of the code before it (debugging aid only).
FIXES = [x for x in os.environ.get("VERIF_C17_FIXES", "idx,delay").split(",") if x and x != "none"]
HEADER = HEADER.replace("@IDX@", "fix_idx" if "idx" in FIXES else "false")

def cstrs(l):
    return clist([cstr(x) for x in l])

def ccirc(case):
    ks = clist([cq(k) for _, k, _, _ in case["nodes"]]); cs = clist([cq(c) for _, _, c, _ in case["nodes"]])
    x0 = clist([cq(x) for _, _, _, x in case["nodes"]])
    es = clist([f"({cnat(s)}, {cnat(t)}, {cq(w)})" for s, t, w in case["edges"]])
    ins = dict((i, vals) for i, vals in case.get("inputs", []))
    uin = clist([clist([cq(v) for v in ins.get(i, [])]) for i in range(len(case["nodes"]))])
    return f"{{| ks := {ks}; cs := {cs}; x0 := {x0}; edges := {es}; uin := {uin} |}}"

def ccols(cols):
    return clist([f"({cstrs(lab)}, {clist([cq(v) for v in vals])})" for lab, vals in cols])

def sep_views(case, out):
    """the same (key, row, node) -> values view of the sweep result and of the separate runs, sorted by key"""
    names = [n for n, *_ in case["nodes"]]
    pat = {k: p.split("/")[-3] for k, p in case["outputs"]}
    def norm(lab, r):
        key = lab[0]
        if len(lab) == 1:
            return [key, str(r if r is not None else 0), pat[key]]
        if r is None:                     # sweep label: key, circuit, node, op/var
            return [key, str(out["index"].index(lab[1])), lab[-2]]
        return [key, str(r), lab[-2]]
    g = sorted([norm(lab, None), vals] for lab, vals in out["cols"])
    s = sorted([norm(lab, r), vals] for r, cols in enumerate(out["separate"]) for lab, vals in cols)
    return g, s

def coq_case(case, out):
    tg = targets(case)
    key_order = [k for k, _ in case["grid"]]
    pm = clist([clist([("TK" if kind == "k" else "TC" if kind == "c" else "TW") + f" {cnat(i)}" for kind, i in tg[k] if kind in "kcw"]) for k in key_order])
    vals = clist([clist([cq(v) for v in vs]) for _, vs in case["grid"]])
    reqs = []
    for key, p in case["outputs"]:
        parts = p.split("/")
        reqs.append(f"({cstr(key)}, ({cstrs(parts[:-2])}, ({cstr(parts[-2])}, {cstr(parts[-1])})))")
    if "raised" in out:
        ob, steps, g, s = "None", int(round(T_END / DT)), [], []
    else:
        assert out["columns"] == key_order, (out["columns"], key_order)
        rows = clist([clist([cq(v) for v in r]) for r in out["rows"]])
        ob = f"Some ({rows}, {cstrs(out['index'])}, {ccols(out['cols'])})"
        steps = len(out["times"])
        if case.get("delays"):      # delays are outside the model: Coq checks the table, the index and the labels; the values are
            steps = 0               # compared with the separate real runs (okSep)
            ob = f"Some ({rows}, {cstrs(out['index'])}, {ccols([[lab, []] for lab, _ in out['cols']])})"
        g, s = sep_views(case, out)
    return (f"{{| base := {ccirc(case)}; pm := {pm}; vals := {vals}; perm := {cbool(case['permute'])}; steps := {cnat(steps)}; "
            f"nodes := {cstrs([n for n, *_ in case['nodes']])}; reqs := {clist(reqs)}; ob := {ob}; "
            f"dgroups := {clist([clist([cnat(k) for k in g]) for g in delay_groups(case)])}; vec := {cbool(case['vectorize'])}; pre := {cstrs(prefix(case))}; labs := {'None' if case.get('df_index') is None else '(Some ' + clist([cnat(i) for i in case['df_index']]) + ')'}; "
            f"sep_grid := {ccols(g)}; sep_runs := {ccols(s)} |}}")

def model_compare(ctx, cases, outs, tag):
    badI, badS, badSep, gfan, gidx, gdel = [], [], [], [], [], []
    shard = 25
    for s in range(0, len(cases), shard):
        terms = [coq_case(c, o) for c, o in zip(cases[s:s + shard], outs[s:s + shard])]
        body = ("Definition cases : list gcase := " + clist(terms) + ".\n"
                "Eval vm_compute in (mismatches okI cases).\nEval vm_compute in (mismatches okS cases).\n"
                "Eval vm_compute in (mismatches okSep cases).\nEval vm_compute in (mismatches g_fanout cases).\n"
                "Eval vm_compute in (mismatches g_idx cases).\nEval vm_compute in (mismatches g_delay cases).\n")
        ls = parse_nat_lists(coq_eval(ctx, f"c17_{tag}_{s}", HEADER, body))
        assert len(ls) == 6, ls
        gidx += [s + i for i in ls[4]]; gdel += [s + i for i in ls[5]]
        badI += [s + i for i in ls[0]]; badS += [s + i for i in ls[1]]; badSep += [s + i for i in ls[2]]; gfan += [s + i for i in ls[3]]
    return badI, badS, badSep, gfan, ([] if "idx" in FIXES else gidx), ([] if "delay" in FIXES else gdel)

def model_outputs(ctx, case, out):
    body = f"Definition c : gcase := {coq_case(case, out)}.\nEval vm_compute in (implO c, specO c, okSep c).\n"
    try:
        return coq_eval(ctx, "c17_show", HEADER, body)[:6000]
    except Exception as e:
        return f"(model evaluation failed: {e})"

def usable(out):
    return isinstance(out, dict) and "err" not in out and not ("raised" in out and out["raised"] not in ("ValueError", "KeyError"))

# ---------------------------------------------------------------------------------------------- check
def check(ctx):
    pr = proof_gate(ctx, NEEDS)
    problem = proof_problem(pr)
    n = 48 if ctx.tier == "quick" else 600
    if ctx.replay:
        rp = json.load(open(ctx.replay))
        cases = [rp["case"]] if "case" in rp else []
    else:
        cases = load_corpus("C17") + [gen_case(ctx.rng) for _ in range(n)]
    outs = run_impl(ctx, "c17", "impl", cases, per_case_timeout=300)
    crashed = [i for i, o in enumerate(outs) if not usable(o)]
    good = [i for i in range(len(cases)) if i not in crashed]
    badI, badS, badSep, gfan, gidx, gdel = model_compare(ctx, [cases[i] for i in good], [outs[i] for i in good], "main")
    badI = [good[i] for i in badI]; badSep = [good[i] for i in badSep]
    # the loud class is recognised by its exception; anything else outside the guard is judged like any other case
    gv = {good[i]: ["swept_edges_declared_at_top"] for i in gfan if outs[good[i]].get("raised") == "KeyError"}
    # the ignored edge idx explains a disagreement with the Spec only when the mechanism model predicts the observed sweep
    for i in gdel:          # delays are outside the model: the class is recognised by its guard alone
        gv.setdefault(good[i], []).append("one_step_delay_not_mixed")
    for i in gidx:
        if good[i] not in badI:
            gv.setdefault(good[i], []).append("swept_edge_is_parallel_edge_0")
    badS = sorted(set(good[i] for i in badS) | set(badSep))
    ctx.note(f"E1: {len(cases)} sweeps, {sum(nrows(c) for c in cases)} rows; sweep-vs-Impl mismatches {len(badI)}, sweep-vs-Spec mismatches "
             f"{len(badS)} (of which sweep-vs-separate-real-runs {len(badSep)}), unusable outcomes {len(crashed)}")
    def show(c):
        out = run_impl(ctx, "c17", "impl", [c], nworkers=1, per_case_timeout=300)[0]
        return dict(implementation_output=out, model_output=model_outputs(ctx, c, out) if usable(out) else None)
    def witness_check(f):
        out = run_impl(ctx, "c17", "impl", [f["witness"]], nworkers=1, per_case_timeout=300)[0]
        if f["guard"] == "swept_edges_declared_at_top":
            return isinstance(out, dict) and out.get("raised") == "KeyError"
        if not usable(out):
            return True
        res = model_compare(ctx, [f["witness"]], [out], "wit_" + f["id"].replace("-", "_"))
        return bool(res[1]) or bool(res[2])
    conclude(ctx, cases=cases, impl_out=outs, bad_spec=badS, bad_impl=badI, crashed=crashed, problem=problem, show=show,
             guard_viol=gv, witness_check=witness_check,
             spec_name="Grid.grid_spec (every row of the returned table simulated on its own) and the separate real runs",
             impl_name="Grid.grid_impl (assembled network)")
    nt = {canon(c) for c in cases if nontrivial(c)}
    hist = dict(delay_sweeps=sum(1 for c in cases if c.get("delays")), gamma_sweeps=sum(1 for c in cases if c.get("delays") and any(sp for _, sp in c["delays"])),
                parallel_edges=sum(1 for c in cases if len({(e[0], e[1]) for e in c["edges"]}) < len(c["edges"])),
                edge_keys_with_idx=sum(1 for c in cases if any(k == "edges" and len(sp["edges"][0]) == 3 for _, k, sp in c["pmap"])),
                circuit_as_yaml_path=sum(1 for c in cases if c.get("as_yaml")),
                hierarchical_base=sum(1 for c in cases if c.get("hier")), hierarchical_base_with_inputs=sum(1 for c in cases if c.get("hier") and c.get("inputs")),
                permuted=sum(1 for c in cases if c["permute"]), zipped=sum(1 for c in cases if not c["permute"]),
                value_error=sum(1 for o in outs if isinstance(o, dict) and o.get("raised") == "ValueError"),
                edge_keys=sum(1 for c in cases if any(k == "edges" for _, k, _ in c["pmap"])),
                multi_target_keys=sum(1 for c in cases if any(len(t) > 1 for t in targets(c).values())),
                vectorized=sum(1 for c in cases if c["vectorize"]), rows=sum(nrows(c) for c in cases),
with_inputs=sum(1 for c in cases if c.get("inputs")),
                shared_node_templates=sum(1 for c in cases if c.get("share")),
                dataframe_grids_with_permuted_index=sum(1 for c in cases if c.get("df_index") is not None),
                wildcard_outputs=sum(1 for c in cases if c["outputs"][0][1].startswith("all")))
    write_evidence(ctx, evaluations=len(cases), distinct_nontrivial=len(nt),
                   rule="random linear circuits (2-3 nodes, 1-3 edges, dyadic k, c, x0, weights) x random sweeps: 1-3 keys with disjoint target "
                        "sets (node parameters op/k, op/c on 1-3 nodes, both vars per key, edge weights on 1-2 edges incl. parallel edges addressed as (source, target) or (source, target, idx)), equal-length or permuted "
                        "grids, base circuit flat or wrapped in 1-2 further hierarchy levels (a few of unequal length without permute -> ValueError), a fifth of the sweeps over the delay / spread attribute of an edge (discrete delays of 0, 1 and >= 2 steps; gamma kernels with finely "
                        "spaced delays on several time scales; values against the separate real runs, labels and table against the model), zipped grids also passed as a DataFrame whose integer index "
                        "is a permutation, half of the sweeps with non-constant extrinsic input series on 1-2 nodes (also on nodes with incoming edges), nodes with identical values held as one shared NodeTemplate object, outputs by node name or 'all', vectorize on/off; "
                        "non-trivial = >= 2 rows; distinct = distinct canonical JSON",
                   samples=[cases[0] if cases else None],
                   extra=dict(input_distribution=hist, impl_vs_model_mismatches=len(badI), impl_vs_spec_mismatches=len(badS),
                              sweep_vs_separate_runs_mismatches=len(badSep)),
                   trusted_base=["float64 Euler on dyadic data (dt = 1/8, 8 steps, quarter-integer parameters) is exact (checked: every value is compared as an exact rational)",
                                 "the separate runs use circuits built directly from the values of the returned table (not adapt_circuit)"],
                   assumptions=["inputs= is exercised on flat and on hierarchical base circuits (1-2 extra levels; repair D89 of D30)",
                                "target sets of different grid keys are disjoint", "the model's node dynamics are linear (x' = -k x + c + weighted inputs)"])
