#!/bin/bash
# wave3.sh Cnn : confirm /tmp/seed3_out/Cnn/m1,m2 as seeded/Cnn-m5,m6 and run the check against them
p=$1
for k in 1 2; do
  id=$p-m$((k+4))
  /verif/harness/confirm_seed.sh /tmp/seed3_out/$p/m$k $id
  if [ -d /verif/seeded/$id ]; then
    out=$(/verif/harness/try_seed.sh /verif/seeded/$id/patch.diff $p 2>&1)
    echo "$id check=$p violations=$(echo "$out" | grep -c '^VIOLATION') no_input=$(echo "$out" | grep -c 'no-failing-input-found') $(echo "$out" | grep -o 'done in [0-9.]*s' | head -1)"
  fi
done
