"""C01 — the generated vector field equals the model the user wrote (vectorize=False; vectorization is C04).
Model: coq/theories/Expr.v (polynomial expressions), Net.v (Spec: scalar network and its denotation `deriv`),
Edges.v (Impl: grouping / merge by source node / weight matrix / multi-source sum / input substitution, state layout);
proofs in EdgesProofs.v; theorems in coq/properties/C01.v.
Tie: E1 — random networks are compiled by the real get_run_func and evaluated at dyadic points; every state
variable's derivative is compared, as an exact rational, with Spec and Impl evaluated inside Coq."""
import json, os, collections
from fractions import Fraction as Fr
from core import *

NEEDS = ["Expr", "Net", "Edges", "EdgesProofs", "Corr", "IndexedEquiv"]   # IndexedEquiv: E2 tie of _get_indexed_var_str (edge index strings)

# A case (JSON):
#   ops    : {opname: {"vars": [[name, kind, value]], "eqs": [[lhs, is_de, poly]], "out": name|None}}
#            kind in "state" | "const" | "input" | "alg";   poly = [[coef, [factor names]]]   (coef = "k/4")
#   tree   : circuit = {"nodes": [[name, [[opname, {var: value}]]]], "subs": [[name, circuit]], "edges": [[src, tgt, w]]}
#            (either nodes or subs is non-empty; edge paths are relative to the circuit that declares them)
#   points : [{"state": {"path/op/var": value}, "params": {"path/op/var": value}}]
# ---------------------------------------------------------------------------------------------- impl side (worker)
def dec(x):
    """decimal text of a dyadic rational, exact"""
    f = Fr(x)
    s = "%.10f" % float(f)
    assert Fr(s) == f, x
    s = s.rstrip("0")
    return s + "0" if s.endswith(".") else s

def poly_str(poly):
    if not poly:
        return "0.0"
    out = []
    for coef, facs in poly:
        c = Fr(coef)
        term = "*".join([dec(abs(c))] + list(facs))
        out.append(("-" if c < 0 else "+") + " " + term)
    s = " ".join(out)
    return s[2:] if s.startswith("+ ") else s

def wq(w):
    """weight of an edge; None = the edge dict has no 'weight' entry, which means 1.0"""
    return Fr(1) if w is None else Fr(w)

def edict(w):
    return {} if w is None else {"weight": float(Fr(w))}

def opname(key):
    """operator templates are keyed `name` or `name#k`: since fix D90 two DIFFERENT operator templates may carry the same
    name in one circuit (never in one node); the part before `#` is the operator's name, which appears in variable paths"""
    return key.split("#")[0]

def build(case):
    """case -> CircuitTemplate (ONE OperatorTemplate object per operator name; per-node values as overrides)"""
    from pyrates import OperatorTemplate, NodeTemplate, CircuitTemplate
    ops = {}
    for oname, o in case["ops"].items():
        variables = {}
        for name, kind, val in o["vars"]:
            v = dec(val)
            if name == o["out"]:
                variables[name] = f"output({v})"
            elif kind == "input":
                variables[name] = f"input({v})"
            elif kind == "const":
                variables[name] = int(Fr(val)) if name in o.get("ints", []) else float(Fr(val))
            elif name in o.get("plain_alg", []):
                variables[name] = float(Fr(val))        # an algebraic variable declared like a parameter (`m: 0.5`, equation `m = ...`)
            else:
                variables[name] = f"variable({v})"
        eqs = [(f"{lhs}' = " if de else f"{lhs} = ") + poly_str(p) for lhs, de, p in o["eqs"]]
        ops[oname] = OperatorTemplate(name=opname(oname), equations=eqs, variables=variables, path=None)
    def circ(name, c):
        if c["nodes"]:
            nodes = {}
            for nname, nops in c["nodes"]:
                nodes[nname] = NodeTemplate(name=nname, path=None,
                                            operators={ops[on]: {k: float(Fr(v)) for k, v in ov.items()} for on, ov in nops})
            return CircuitTemplate(name=name, path=None, nodes=nodes,
                                   edges=[(s, t, None, edict(w)) for s, t, w in c["edges"]])
        subs = {sn: circ(sn, sc) for sn, sc in c["subs"]}
        return CircuitTemplate(name=name, path=None, circuits=subs,
                               edges=[(s, t, None, edict(w)) for s, t, w in c["edges"]])
    return circ("net", case["tree"])

def impl(case):
    import numpy as np
    import pyr
    from pyr import frac
    pyr.reset_pyrates()
    try:
        try:
            net = build(case)
            func, args, arg_names, smap = net.get_run_func("vf", 0.0078125, file_name="c01_vf", vectorize=False, backend="default",
                                                           float_precision="float64", solver="euler", in_place=False,
                                                           clear=False, verbose=bool(case.get("verbose", False)))
        except Exception as e:
            return dict(stage="compile", **pyr.errclass(e))
        names = list(arg_names)
        positions = {}
        for k, v in smap.items():
            if isinstance(v, (tuple, list)):
                positions[k] = [int(v[0]), int(v[1])]
            else:
                positions[k] = [int(v), int(v) + 1]
        ny = int(np.asarray(args[1]).size)
        declared = {}
        for i, nm in enumerate(names):
            if i >= 3:
                a = np.asarray(args[i], dtype=np.float64).reshape(-1)
                declared[nm] = [frac(x) for x in a]
        y0 = [frac(x) for x in np.asarray(args[1], dtype=np.float64).reshape(-1)]
        outs = []
        for pt in case["points"]:
            a = list(args)
            y = np.zeros(ny, dtype=np.float64)
            for k, v in pt["state"].items():
                if k in positions:
                    y[positions[k][0]:positions[k][1]] = float(Fr(v))
            a[1] = y
            a[2] = np.zeros(ny, dtype=np.float64)
            for k, v in pt["params"].items():
                if k in names:
                    i = names.index(k)
                    a[i] = np.asarray(float(Fr(v)), dtype=np.float64).reshape(np.shape(args[i]))
            try:
                dy = np.asarray(func(*a), dtype=np.float64).reshape(-1)
                outs.append({k: frac(dy[p[0]]) for k, p in positions.items() if p[1] - p[0] == 1})
            except Exception as e:
                outs.append(dict(stage="call", **pyr.errclass(e)))
        return dict(positions=positions, ny=ny, arg_names=names, declared=declared, y0=y0, outs=outs)
    finally:
        pyr.reset_pyrates()

# ---------------------------------------------------------------------------------------------- generator
POOL = ["r", "rr", "r_in", "r_in0", "m_in2", "weight", "x_v1", "source", "a_in0", "x", "z", "v", "u", "a", "b", "k", "m",
        "w", "x_v2", "a_v1", "weight_in0", "q", "rin"]
NODE_NAMES = ["A", "B", "T", "n0", "n1", "p", "exc", "inh", "n_1", "pop"]
CIRC_NAMES = ["c1", "c2", "g", "sub", "L", "c_3"]
OP_NAMES = ["op", "sop", "top", "rate", "syn", "op_1", "o2", "lin"]

def q4(rng, lo=-8, hi=8, nz=False):
    while True:
        k = rng.randint(lo, hi)
        if k or not nz:
            return str(Fr(k, 4))

def gen_poly(rng, names, must=None, maxdeg=3):
    """polynomial with distinct monomials over `names`; coefficients k/4; degree <= maxdeg"""
    nm = rng.randint(1, 3)
    monos, seen = [], set()
    for i in range(nm):
        d = rng.choice([0, 1, 1, 1, 1, 2, 2, 3]) if names else 0
        d = min(d, maxdeg)
        facs = sorted(rng.choice(names) for _ in range(d))
        if must and i == 0:
            facs = sorted(([must] + facs)[:max(1, min(len(facs) + 1, maxdeg))])
        if tuple(facs) in seen:
            continue
        seen.add(tuple(facs))
        monos.append([q4(rng, nz=True), facs])
    rng.shuffle(monos)
    return monos

SMALL_POOL = ["a", "a_v1", "x", "x_v1", "x_v2", "weight", "a_in0", "r", "r_in0", "u"]

def gen_ops(rng, n_ops, small=False):
    """operator templates op_1..op_M: the inputs of op_j may be named after the outputs of op_i, i<j, so that every
    subset of them forms an acyclic operator graph; output names may coincide (several producers of one input)."""
    names = rng.sample(SMALL_POOL, len(SMALL_POOL)) if small else rng.sample(POOL, len(POOL))
    onames = rng.sample(OP_NAMES, n_ops)
    ops, outs = {}, []
    free_pool = [x for x in names]
    out_names_all = []
    for j in range(n_ops):
        # output name: sometimes the same as an earlier operator's output (two producers)
        if outs and rng.random() < 0.2:
            out = rng.choice(outs)
        else:
            out = rng.choice([x for x in names if x not in out_names_all])
        out_names_all.append(out)
        used = {out}
        n_in = rng.choice([0, 1, 1, 2, 2, 3]) if j == 0 else rng.choice([1, 1, 2, 2, 3])
        inputs = []
        cand_prev = [o for o in outs if o != out]
        for _ in range(n_in):
            if cand_prev and rng.random() < 0.6:
                nm = rng.choice(cand_prev)
            else:
                nm = rng.choice(names)
            if nm in used:
                continue
            used.add(nm); inputs.append(nm)
        extra_sv = []
        for _ in range(rng.choice([0, 0, 1, 1, 2])):
            nm = rng.choice(names)
            if nm not in used:
                used.add(nm); extra_sv.append(nm)
        consts = []
        for _ in range(rng.choice([0, 1, 1, 2])):
            nm = rng.choice(names)
            if nm not in used:
                used.add(nm); consts.append(nm)
        lhs_vars = [out] + extra_sv
        kinds = {}
        for i, v in enumerate(lhs_vars):
            kinds[v] = "state" if rng.random() < 0.6 else "alg"
        if all(k == "alg" for k in kinds.values()) and rng.random() < 0.7:
            kinds[rng.choice(lhs_vars)] = "state"
        # algebraic variables: acyclic dependencies inside the operator (hidden order)
        algs = [v for v in lhs_vars if kinds[v] == "alg"]
        rng.shuffle(algs)
        eqs = []
        for v in lhs_vars:
            if kinds[v] == "state":
                avail = lhs_vars + inputs + consts
                eqs.append([v, True, gen_poly(rng, avail, must=rng.choice(inputs) if inputs and rng.random() < 0.7 else None)])
            else:
                avail = [s for s in lhs_vars if kinds[s] == "state"] + inputs + consts + algs[:algs.index(v)]
                eqs.append([v, False, gen_poly(rng, avail, must=rng.choice(inputs) if inputs and rng.random() < 0.7 else None, maxdeg=2)])
        rng.shuffle(eqs)
        decl = [[v, kinds[v], q4(rng)] for v in lhs_vars] + [[v, "input", q4(rng)] for v in inputs] + [[v, "const", q4(rng, nz=True)] for v in consts]
        rng.shuffle(decl)
        ints = [v for v in consts if rng.random() < 0.3]
        for d_ in decl:
            if d_[0] in ints:
                d_[2] = str(rng.choice([-3, -2, -1, 1, 2, 3]))       # declared as a Python int (never overridden with a float: D97)
        plain = [v for v in lhs_vars if kinds[v] == "alg" and v != out and rng.random() < 0.5]
        ops[onames[j]] = dict(vars=decl, eqs=eqs, out=out, ints=ints, plain_alg=plain)
        outs.append(out)
    # the operators were built in dependency order; the dict keeps that order (nodes pick their own declaration order)
    if n_ops >= 2 and rng.random() < 0.3:
        # two DIFFERENT operator templates with the same name (used by different nodes; works since fix D90)
        keys = list(ops)
        i, j = rng.sample(range(n_ops), 2)
        ops = {(keys[j] + "#2" if k == keys[i] else k): v for k, v in ops.items()}
    return ops

def gen_tree(rng, ops, depth, n_nodes):
    onames = list(ops)
    def node(name):
        k = rng.randint(1, min(3, len(onames)))
        chosen = []
        for on in rng.sample(onames, k):
            if opname(on) not in [opname(c) for c in chosen]:      # operator names are unique inside a node
                chosen.append(on)
        nops = []
        for on in chosen:
            ov = {}
            for vn, kind, val in ops[on]["vars"]:
                if rng.random() < 0.25 and vn not in ops[on].get("ints", []):
                    ov[vn] = q4(rng, nz=(kind == "const"))
            nops.append([on, ov])
        return [name, nops]
    node_names = rng.sample(NODE_NAMES, len(NODE_NAMES))
    circ_names = CIRC_NAMES
    def mk(level, n):
        if level == depth:
            return dict(nodes=[node(nm) for nm in rng.sample(node_names, n)], subs=[], edges=[])
        k = rng.randint(1, min(3, n))
        sizes = [1] * k
        for _ in range(n - k):
            sizes[rng.randrange(k)] += 1
        return dict(nodes=[], subs=[[nm, mk(level + 1, s)] for nm, s in zip(rng.sample(circ_names, k), sizes)], edges=[])
    return mk(0, n_nodes)

def tree_nodes(c, prefix=""):
    """node paths in the order of get_nodes(['all'])"""
    out = []
    for nm, nops in c["nodes"]:
        out.append((prefix + nm, nops))
    for sn, sc in c["subs"]:
        out += tree_nodes(sc, prefix + sn + "/")
    return out

def tree_edges(c, prefix=""):
    """edges with absolute paths in the order of collect_edges"""
    out = [[prefix + s, prefix + t, w] for s, t, w in c["edges"]]
    for sn, sc in c["subs"]:
        out += tree_edges(sc, prefix + sn + "/")
    return out

def add_edge(c, s, t, w, rng):
    """declare the edge at a random circuit level that contains both end points"""
    lvl = c
    while True:
        subs = dict((a, b) for a, b in lvl["subs"])
        hs, ht = s.split("/")[0], t.split("/")[0]
        if lvl["subs"] and hs == ht and hs in subs and rng.random() < 0.7:
            lvl = subs[hs]; s = s.split("/", 1)[1]; t = t.split("/", 1)[1]
        else:
            break
    lvl["edges"].append([s, t, w])

def gen_case(rng, mode="valid"):
    """mode: valid (satisfies the guards) | d3 (two variables of one source node into one target variable)
             | d22 (names of the generated in_edge operator clash, e.g. source and target variable have the same name)
             | lab (an input `a` with >= 2 sources in an operator that owns a variable a_v<k>)"""
    for _ in range(20000 if mode == "lab" else 200):
        n_ops = rng.randint(1, 4)
        ops = gen_ops(rng, n_ops, small=(mode in ("lab", "d22")))
        depth = rng.choice([0, 0, 1, 1, 2])
        n_nodes = rng.randint(1, 5)
        tree = gen_tree(rng, ops, depth, n_nodes)
        nodes = tree_nodes(tree)
        srcs, tgts = [], []
        for path, nops in nodes:
            for on, _ in nops:
                for vn, kind, _ in ops[on]["vars"]:
                    if kind in ("state", "alg"):
                        srcs.append((path, opname(on), vn))
                    elif kind == "input":
                        tgts.append((path, opname(on), vn))
        if not tgts or not srcs:
            continue
        n_e = rng.choice([0, 1, 2, 2, 3, 3, 4, 5, 6, 8, 11, 14])
        hub = rng.choice(tgts) if n_e >= 10 else None          # >= 10 edges: most of them converge on one input
        chosen = {}
        edges = []
        for _ in range(n_e):
            t = hub if hub and rng.random() < 0.7 else rng.choice(tgts)
            if edges and rng.random() < 0.3:
                s, t = rng.choice(edges)            # a parallel edge
            elif rng.random() < 0.15:
                cand = [s for s in srcs if s[0] == t[0]]   # self loop
                s = rng.choice(cand) if cand else rng.choice(srcs)
            else:
                s = rng.choice(srcs)
            if mode != "d22" and s[2] == t[2] and not fixed("D22"):
                continue
            key = (t, s[0])
            if mode != "d3" and chosen.get(key, s) != s and not fixed("D3"):
                s = chosen[key]
            chosen.setdefault(key, s)
            edges.append((s, t))
        if mode == "d3":
            ok = False
            for s, t in list(edges):
                alt = [x for x in srcs if x[0] == s[0] and x != s and x[2] != t[2]]
                if alt:
                    edges.insert(rng.randrange(len(edges) + 1), (rng.choice(alt), t)); ok = True
                    break
            if not ok:
                continue
        if mode == "d22":
            cand = [(s, t) for s in srcs for t in tgts if s[2] == t[2]]
            if not cand:
                continue
            edges.insert(rng.randrange(len(edges) + 1), rng.choice(cand))
        for s, t in edges:
            r_ = rng.random()
            add_edge(tree, "/".join(s), "/".join(t), q4(rng, nz=True) if r_ < 0.75 else ("1" if r_ < 0.85 else None), rng)
        case = dict(ops=ops, tree=tree, points=[], mode=mode, verbose=rng.random() < 0.25)
        if not py_wf(case):
            continue
        if mode != "d22" and not py_guard_names(case) and not fixed("D22"):
            continue
        if mode == "d22" and py_guard_names(case):
            continue
        if mode == "lab" and py_guard_labels(case):
            continue
        if mode != "lab" and not py_guard_labels(case) and not fixed("D22b"):
            continue
        if mode == "d3" and py_guard_d3(case):
            continue
        if mode != "d3" and not py_guard_d3(case) and not fixed("D3"):
            continue
        svars = [("/".join(s)) for s in srcs if kind_of(case, s) == "state"]
        pvars = param_vars(case)
        pts = []
        for i in range(3):
            st = {v: q4(rng, -6, 6) for v in svars}
            pts.append(dict(state=st, params={}))
            pts.append(dict(state=st, params={v: (str(rng.randint(-3, 3)) if is_int_const(case, v) else q4(rng, -6, 6)) for v in pvars}))
        case["points"] = pts
        if not exact_ok(case):
            continue
        return case
    raise RuntimeError("generator could not produce a case")

# ---------------------------------------------------------------------------------------------- python reference
# (used by the generator only: well-formedness, exactness filter, non-triviality; the deciding comparison is in Coq)
def resolved(case):
    """{node path: [(opname, {var: (kind, value)}, eqs, out)]} with node-level overrides applied"""
    res = {}
    for path, nops in tree_nodes(case["tree"]):
        l = []
        for on, ov in nops:
            o = case["ops"][on]
            l.append((opname(on), {vn: (kind, Fr(ov.get(vn, val))) for vn, kind, val in o["vars"]}, o["eqs"], o["out"]))
        res[path] = l
    return res

def kind_of(case, vid):
    path, on, vn = vid
    for p, nops in tree_nodes(case["tree"]):
        if p == path:
            for key, _ in nops:
                if opname(key) == on:
                    for vn2, kind, _ in case["ops"][key]["vars"]:
                        if vn2 == vn:
                            return kind
    return None

def is_int_const(case, v):
    path, on, vn = split_vid(v)
    for p, nops in tree_nodes(case["tree"]):
        if p == path:
            for key, _ in nops:
                if opname(key) == on:
                    return vn in case["ops"][key].get("ints", [])
    return False

def split_vid(s):
    *n, o, v = s.split("/")
    return ("/".join(n), o, v)

def param_vars(case):
    """constants, and input variables to which nothing connects"""
    res = resolved(case)
    edges = [(split_vid(s), split_vid(t), wq(w)) for s, t, w in tree_edges(case["tree"])]
    out = []
    for path, l in res.items():
        for on, vs, eqs, o in l:
            for vn, (kind, val) in vs.items():
                if kind == "const":
                    out.append(f"{path}/{on}/{vn}")
                elif kind == "input":
                    prods = [1 for on2, _, _, o2 in l if o2 == vn]
                    es = [1 for s, t, w in edges if t == (path, on, vn)]
                    if not prods and not es:
                        out.append(f"{path}/{on}/{vn}")
    return out

def is_vk_of(a, x):
    return x.startswith(a + "_v") and len(x) > len(a) + 2 and x[len(a) + 2:].isdigit() and x[len(a) + 2:].isascii()

def py_guard_names(case):
    """mirror of Edges.guard_names (only steers the generator; classification is by the Coq guard)"""
    edges = [(split_vid(s), split_vid(t)) for s, t, w in tree_edges(case["tree"])]
    for t in dict.fromkeys(t for _, t in edges):
        first = {}
        for s, t2 in edges:
            if t2 == t:
                first.setdefault(s[0], s)
        svars = [s[2] for s in first.values()]
        k = len(svars)
        B = [t[2], "weight"] + svars
        if k >= 10 or t[2] in svars or "weight" in svars or t[2] == "weight":
            return False
        for x in B:
            for z in B:
                if is_vk_of(z, x) or any(x == f"{z}_in{j}" for j in range(k)):
                    return False
    return True

def py_guard_labels(case):
    """mirror of Edges.guard_labels: an input with >= 2 operator-level sources in an operator that owns a_v<k>"""
    targets = {split_vid(t) for s_, t, w in tree_edges(case["tree"])}
    for path, nops in tree_nodes(case["tree"]):
        outs = [case["ops"][on]["out"] for on, _ in nops]
        for on, _ in nops:
            vs = case["ops"][on]["vars"]
            for v, kind, _ in vs:
                if kind == "input":
                    k = outs.count(v) + (1 if (path, opname(on), v) in targets else 0)
                    if k >= 2 and any(is_vk_of(v, v2) for v2, _, _ in vs):
                        return False
    return True

def py_guard_d3(case):
    edges = [(split_vid(s), split_vid(t)) for s, t, w in tree_edges(case["tree"])]
    seen = {}
    for s, t in edges:
        if seen.setdefault((t, s[0]), s) != s:
            return False
    return True

def py_acyclic(case):
    for path, nops in tree_nodes(case["tree"]):
        ons = [on for on, _ in nops]
        succ = {on: [] for on in ons}
        for a in ons:
            for b in ons:
                out = case["ops"][a]["out"]
                if out is not None and any(v[0] == out and v[1] == "input" for v in case["ops"][b]["vars"]):
                    succ[a].append(b)
        state = {}
        def dfs(u):
            state[u] = 1
            for w in succ[u]:
                if state.get(w) == 1 or (w not in state and dfs(w)):
                    return True
            state[u] = 2
            return False
        if any(on not in state and dfs(on) for on in ons):
            return False
    return True

def py_wf(case):
    if not py_acyclic(case):
        return False
    res = resolved(case)
    if len(res) != len(tree_nodes(case["tree"])):
        return False
    if not any(kind == "state" for l in res.values() for _, vs, _, _ in l for kind, _ in vs.values()):
        return False
    for path, l in res.items():
        if len({on for on, *_ in l}) != len(l):
            return False
    for on, o in case["ops"].items():
        names = [v[0] for v in o["vars"]]
        if len(set(names)) != len(names):
            return False
    return True

class Inexact(Exception):
    pass

def py_eval(case, pt, d3=False):
    """Spec (d3=False) or the mechanism with the merge-by-source-node behaviour (d3=True); returns {state var: derivative}"""
    res = resolved(case)
    edges = [(split_vid(s), split_vid(t), wq(w)) for s, t, w in tree_edges(case["tree"])]
    st = {k: Fr(v) for k, v in pt["state"].items()}
    pa = {k: Fr(v) for k, v in pt["params"].items()}
    memo, busy = {}, set()
    def chk(x):
        if x.denominator.bit_length() > 34 or abs(x.numerator).bit_length() > 44:
            raise Inexact()
        return x
    def ev_poly(p, path, on):
        tot = Fr(0)
        for c, facs in p:
            m = Fr(c)
            for f in facs:
                m = chk(m * value((path, on, f)))
            tot = chk(tot + m)
        return tot
    def value(vid):
        if vid in memo:
            return memo[vid]
        if vid in busy:
            raise Inexact()
        busy.add(vid)
        path, on, vn = vid
        l = res[path]
        ent = [e for e in l if e[0] == on][0]
        kind, dv = ent[1][vn]
        key = "/".join(vid)
        if kind == "state":
            r = st[key]
        elif kind == "const":
            r = pa.get(key, dv)
        elif kind == "alg":
            eq = [e for e in ent[2] if e[0] == vn and not e[1]][0]
            r = ev_poly(eq[2], path, on)
        else:
            prods = [(path, on2, vn) for on2, _, _, o2 in l if o2 == vn]
            es = [(s, w) for s, t, w in edges if t == vid]
            if not prods and not es:
                r = pa.get(key, dv)
            else:
                r = Fr(0)
                for p in prods:
                    r = chk(r + value(p))
                if d3:
                    first = {}
                    for s, w in es:
                        first.setdefault(s[0], s)
                    for s, w in es:
                        r = chk(r + chk(w * value(first[s[0]])))
                else:
                    for s, w in es:
                        r = chk(r + chk(w * value(s)))
        busy.discard(vid)
        memo[vid] = chk(r)
        return r
    out = {}
    for path, l in res.items():
        for on, vs, eqs, o in l:
            for vn in vs:
                value((path, on, vn))          # every variable must be defined (no algebraic loop anywhere)
            for lhs, de, p in eqs:
                if de:
                    out[f"{path}/{on}/{lhs}"] = ev_poly(p, path, on)
    return out

def exact_ok(case):
    try:
        for pt in case["points"]:
            py_eval(case, pt); py_eval(case, pt, d3=True)
        return True
    except Inexact:
        return False

# ---------------------------------------------------------------------------------------------- model side (Coq)
HEADER = """From Coq Require Import List String ZArith QArith Qcanon Bool.
From PV Require Import Expr Net Edges Corr.
Import ListNotations.
Open Scope string_scope.
Definition V (a b c : string) : vid := (a, b, c).
Definition D (x : string) (k : vkind) (q : Qc) : vdecl := {| vname := x; vk := k; vval := q |}.
Definition Q (l : string) (de : bool) (p : poly) : eqn := {| lhs := l; is_de := de; rhs := poly_expr p |}.
Definition E (s t : vid) (w : Qc) : edge := {| esrc := s; etgt := t; ew := w |}.
Record obs := { o_circ : circuit; o_ny : nat; o_smap : list (vid * nat); o_vals : list (vid * Qc);
                o_pts : list (list (vid * Qc) * list (vid * Qc) * list (vid * Qc)) }.
Definition check_with (f : net -> (vid -> Qc) -> (vid -> Qc) -> vid -> option Qc) (o : obs) : bool :=
  let n := flatten (o_circ o) in
  layout_ok n (o_ny o) (o_smap o) && values_ok n (o_vals o) &&
  forallb (fun p : list (vid * Qc) * list (vid * Qc) * list (vid * Qc) =>
             let '(st, pa, dv) := p in
             point_ok (f n (assoc_env st zero_env) (assoc_env pa (declared_env n))) dv) (o_pts o).
Definition okS := check_with deriv.
Definition okI := check_with deriv_impl.
Definition net_of (o : obs) := flatten (o_circ o).
"""

def c_vid(s):
    n, o, v = split_vid(s) if isinstance(s, str) else s
    return f"(V {cstr(n)} {cstr(o)} {cstr(v)})"

KIND = {"state": "VState", "const": "VConst", "input": "VInput", "alg": "VAlg"}

def c_poly(p):
    return clist([f"({cq(c)}, {clist([cstr(f) for f in fs])})" for c, fs in p])

def c_oper(name, o):
    vs = clist([f"D {cstr(v)} {KIND[k]} {cq(val)}" for v, k, val in o["vars"]])
    eqs = clist([f"Q {cstr(l)} {cbool(de)} {c_poly(p)}" for l, de, p in o["eqs"]])
    out = "None" if o["out"] is None else f"(Some {cstr(o['out'])})"
    return f"{{| oname := {cstr(name)}; ovars := {vs}; oeqs := {eqs}; oout := {out} |}}"

def c_circ(c, opref):
    nodes = clist([f"({cstr(nm)}, {clist([f'({opref[on]}, ' + clist([f'({cstr(k)}, {cq(v)})' for k, v in ov.items()]) + ')' for on, ov in nops])})"
                   for nm, nops in c["nodes"]])
    subs = clist([f"({cstr(sn)}, {c_circ(sc, opref)})" for sn, sc in c["subs"]])
    edges = clist([f"E {c_vid(s)} {c_vid(t)} {cq(wq(w))}" for s, t, w in c["edges"]])
    return f"(Circ {nodes} {subs} {edges})"

def c_assoc(d):
    return clist([f"({c_vid(k)}, {cq(v)})" for k, v in d.items()])

def coq_case(idx, case, out):
    """Definitions for one case; `out` is the real-code result (or an error dict: then nothing is observed)"""
    lines, opref = [], {}
    for j, (on, o) in enumerate(case["ops"].items()):
        opref[on] = f"c{idx}_op{j}"
        lines.append(f"Definition c{idx}_op{j} : oper := {c_oper(opname(on), o)}.")
    ok = isinstance(out, dict) and "outs" in out and all("err" not in o for o in out["outs"])
    if ok:
        user_vars = set()
        for path, nops in tree_nodes(case["tree"]):
            for on, _ in nops:
                for v, k, _ in case["ops"][on]["vars"]:
                    user_vars.add(f"{path}/{opname(on)}/{v}")
        smap = clist([f"({c_vid(k)}, {cnat(p[0])})" for k, p in out["positions"].items()])
        vals = {k: v[0] for k, v in out["declared"].items() if k in user_vars and len(v) == 1}
        for k, p in out["positions"].items():
            if p[1] - p[0] == 1 and k in user_vars:
                vals[k] = out["y0"][p[0]]
        pts = clist([f"({c_assoc(pt['state'])}, {c_assoc(pt['params'])}, {c_assoc(o)})" for pt, o in zip(case["points"], out["outs"])])
        ny = out["ny"]
    else:
        smap, vals, pts, ny = "[]", {}, "[]", 0
    lines.append(f"Definition c{idx} : obs := {{| o_circ := {c_circ(case['tree'], opref)}; o_ny := {cnat(ny)}; o_smap := {smap}; "
                 f"o_vals := {c_assoc(vals)}; o_pts := {pts} |}}.")
    return "\n".join(lines), ok

def model_compare(ctx, cases, outs, tag):
    """Evaluates Spec, Impl and the guards inside Coq.  Returns dict of index lists:
       badS / badI: observed real-code values differ from Spec / Impl (only cases that produced values);
       nwf: not well-formed; g_d3 / g_names / g_labels: guard false."""
    res = dict(badS=[], badI=[], nwf=[], g_d3=[], g_names=[], g_labels=[])
    shard = 25
    def one(s):
        body, observed = [], []
        for i in range(s, min(s + shard, len(cases))):
            txt, ok = coq_case(i - s, cases[i], outs[i])
            body.append(txt); observed.append(ok)
        k = len(observed)
        body.append("Definition cases : list obs := " + clist([f"c{i}" for i in range(k)]) + ".")
        body.append("Definition observed : list obs := " + clist([f"c{i}" for i in range(k) if observed[i]]) + ".")
        body += ["Eval vm_compute in (mismatches okS observed).", "Eval vm_compute in (mismatches okI observed).",
                 "Eval vm_compute in (mismatches (fun o => wf (net_of o)) cases).",
                 "Eval vm_compute in (mismatches (fun o => guard_d3 (net_of o)) cases).",
                 "Eval vm_compute in (mismatches (fun o => guard_names (net_of o)) cases).",
                 "Eval vm_compute in (mismatches (fun o => guard_labels (net_of o)) cases)."]
        o = coq_eval(ctx, f"c01_{tag}_{s}", HEADER, "\n".join(body))
        ls = parse_nat_lists(o)
        assert len(ls) == 6, o[:600]
        return s, k, observed, ls
    from concurrent.futures import ThreadPoolExecutor
    with ThreadPoolExecutor(max_workers=max(1, min(int(os.environ.get("VERIF_JOBS", "4")), 8))) as ex:
        results = list(ex.map(one, range(0, len(cases), shard)))
    for s, k, observed, ls in results:
        obs_idx = [s + i for i in range(k) if observed[i]]
        res["badS"] += [obs_idx[i] for i in ls[0]]; res["badI"] += [obs_idx[i] for i in ls[1]]
        for name, l in zip(("nwf", "g_d3", "g_names", "g_labels"), ls[2:]):
            res[name] += [s + i for i in l]
    return res

def model_outputs(ctx, case, out, tag):
    txt, ok = coq_case(0, case, out)
    n = "(net_of c0)"
    body = [txt]
    for j, pt in enumerate(case["points"][:2]):
        env = f"(assoc_env {c_assoc(pt['state'])} zero_env) (assoc_env {c_assoc(pt['params'])} (declared_env {n}))"
        body.append(f"Eval vm_compute in (map (fun v => (v, deriv {n} {env} v, deriv_impl {n} {env} v)) (state_vars {n})).")
    body.append(f"Eval vm_compute in (wf {n}, guard_d3 {n}, guard_names {n}, guard_labels {n}).")
    try:
        return coq_eval(ctx, f"c01_show_{tag}", HEADER, "\n".join(body))[:8000]
    except Exception as e:
        return f"(model evaluation failed: {e})"

# ---------------------------------------------------------------------------------------------- verdict helpers
GUARDS = {"g_names": "guard_names", "g_labels": "guard_labels"}
PROPOSED = {}   # no open finding: D3 (D59), the parser class (D80), D22 (D83) and D22b (D84) are repaired; their witnesses are regression cases

import functools

@functools.lru_cache(maxsize=None)
def fixed(name):
    """a model switch of Edges.v (`Definition fixed_<name> : bool := true|false.`)"""
    import re
    txt = open(os.path.join(COQ, "theories", "Edges.v")).read()
    return re.search(r"Definition fixed_%s : bool := (true|false)\." % name, txt).group(1) == "true"

def fixed_D3():
    return fixed("D3")

def failed_out(o):
    return (not isinstance(o, dict)) or "outs" not in o or any("err" in x for x in o["outs"])

def nontrivial(case):
    """>= 2 nodes, >= 1 edge, some input variable with fan-in >= 2 or a same-node producer (DESIGN summary table)"""
    nodes = tree_nodes(case["tree"])
    edges = tree_edges(case["tree"])
    if len(nodes) < 2 or not edges:
        return False
    fan = {}
    for s_, t_, w in edges:
        fan[t_] = fan.get(t_, 0) + 1
    if any(v >= 2 for v in fan.values()):
        return True
    for path, nops in nodes:
        outs = [case["ops"][on]["out"] for on, _ in nops]
        for on, _ in nops:
            if any(k == "input" and v in outs for v, k, _ in case["ops"][on]["vars"]):
                return True
    return False

def evaluate(ctx, cases, tag):
    """run the real code and the models; returns (outs, crashed, cmp)"""
    outs = run_impl(ctx, "c01", "impl", cases, per_case_timeout=120)
    crashed = [i for i, o in enumerate(outs) if failed_out(o)]
    cmp_ = model_compare(ctx, cases, outs, tag)
    return outs, crashed, cmp_

def fails(ctx, case, tag):
    outs, crashed, cmp_ = evaluate(ctx, [case], tag)
    return bool(crashed or cmp_["badS"]), outs[0]

def drop_unused_ops(case):
    used = {on for _, nops in tree_nodes(case["tree"]) for on, _ in nops}
    case["ops"] = {k: v for k, v in case["ops"].items() if k in used}
    return case

def shrink(ctx, case, budget=8):
    """greedy: drop points, edges, nodes (with their edges) while the disagreement with Spec persists"""
    import copy
    best = copy.deepcopy(case)
    def edges_of(c, acc):
        acc.append(c)
        for _, sc in c["subs"]:
            edges_of(sc, acc)
        return acc
    def candidates(c):
        if len(c["points"]) > 1:
            for i in range(len(c["points"])):
                d = copy.deepcopy(c); d["points"] = [c["points"][i]]; yield d
        circs = edges_of(c["tree"], [])
        for ci in range(len(circs)):
            for ei in range(len(circs[ci]["edges"])):
                d = copy.deepcopy(c); del edges_of(d["tree"], [])[ci]["edges"][ei]; yield d
        nodes = [p for p, _ in tree_nodes(c["tree"])]
        for p in nodes:
            if len(nodes) < 2:
                break
            d = copy.deepcopy(c)
            def rm(cc, pre):
                cc["nodes"] = [n for n in cc["nodes"] if pre + n[0] != p]
                for sn, sc in cc["subs"]:
                    rm(sc, pre + sn + "/")
                cc["subs"] = [x for x in cc["subs"] if x[1]["nodes"] or x[1]["subs"]]
            rm(d["tree"], "")
            def prune(cc, pre):
                keep = []
                for s_, t_, w in cc["edges"]:
                    if not ((pre + s_).startswith(p + "/") or (pre + t_).startswith(p + "/")):
                        keep.append([s_, t_, w])
                cc["edges"] = keep
                for sn, sc in cc["subs"]:
                    prune(sc, pre + sn + "/")
            prune(d["tree"], "")
            if not tree_nodes(d["tree"]):
                continue
            live = {f"{pp}/{opname(on)}/{v}" for pp, nops in tree_nodes(d["tree"]) for on, _ in nops for v, _, _ in d["ops"][on]["vars"]}
            for pt in d["points"]:
                pt["state"] = {k: v for k, v in pt["state"].items() if k in live}
                pt["params"] = {k: v for k, v in pt["params"].items() if k in live}
            yield drop_unused_ops(d)
    progressed = True
    while progressed and budget > 0:
        progressed = False
        for cand in candidates(best):
            if budget <= 0:
                break
            budget -= 1
            try:
                if py_wf(cand) and fails(ctx, cand, f"s{budget}")[0]:
                    best, progressed = cand, True
                    break
            except Exception:
                continue
    return best

# ---------------------------------------------------------------------------------------------- check
def check(ctx):
    pr = proof_gate(ctx, NEEDS)
    problem = proof_problem(pr)
    n_valid, n_d3, n_d22, n_lab = (150, 10, 6, 4) if ctx.tier == "quick" else (3000, 150, 60, 40)
    if problem:
        n_valid *= 4
    if ctx.replay:
        rp = json.load(open(ctx.replay))
        cases = [rp["case"]] if "case" in rp else []
    else:
        cases = ([c["case"] if "case" in c and "ops" not in c else c for c in load_corpus("C01")] +
                 [gen_case(ctx.rng) for _ in range(n_valid)] + [gen_case(ctx.rng, "d3") for _ in range(n_d3)] +
                 [gen_case(ctx.rng, "d22") for _ in range(n_d22)] + [gen_case(ctx.rng, "lab") for _ in range(n_lab)])
    outs, crashed, cmp_ = evaluate(ctx, cases, "main")
    badS, badI = cmp_["badS"], cmp_["badI"]
    if cmp_["nwf"]:
        raise RuntimeError(f"generator produced cases that are not well-formed (Net.wf = false): {cmp_['nwf'][:5]}")
    guard_viol = {}
    for k, g in GUARDS.items():
        for i in cmp_[k]:
            guard_viol.setdefault(i, []).append(g)
    n_eval = sum(len(o["outs"]) for o in outs if isinstance(o, dict) and "outs" in o)
    if fixed_D3():
        ctx.note("model switch fixed_D3 = true: Impl merges by (source node, source variable); the d3 stream is an ordinary valid stream")
    ctx.note(f"E1: {len(cases)} networks, {n_eval} vector-field evaluations; real-vs-Impl mismatches {len(badI)}, real-vs-Spec mismatches "
             f"{len(badS)}, raised/crashed {len(crashed)}; outside guards: d3 {len(cmp_['g_d3'])}, names {len(cmp_['g_names'])}, labels {len(cmp_['g_labels'])}")
    # failures of inputs outside a guard whose finding is proposed but not yet listed in known_findings.json are attributed here
    listed = {f.get("guard") for f in known_findings("C01")}
    pending = {}
    for i in sorted(set(badS) | set(crashed)):
        gv = guard_viol.get(i, [])
        if gv and not any(g in listed for g in gv):
            pending.setdefault(gv[0], []).append(i)
    skip = {i for l in pending.values() for i in l}
    def show(c):
        bad, r = fails(ctx, c, "show")
        return dict(implementation_output=r, model_output=model_outputs(ctx, c, r, "showm"))
    def witness_check(f):
        c = json.load(open(os.path.join(VERIF, f["witness"])))
        return fails(ctx, c.get("case", c) if "ops" not in c else c, "wit")[0]
    conclude(ctx, cases=cases, impl_out=outs, bad_spec=[i for i in badS if i not in skip], bad_impl=badI,
             crashed=[i for i in crashed if i not in skip], problem=problem, guard_viol=guard_viol,
             spec_name="Net.deriv (each derivative is its own equation; inputs = producers + all edges, or the default)",
             impl_name="Edges.deriv_impl", shrink=lambda c: shrink(ctx, c), show=show, witness_check=witness_check)
    for g, idxs in pending.items():
        f = PROPOSED[g]
        try:
            still = witness_check(f)
        except Exception as e:
            still = True; ctx.note(f"witness of {f['id']} could not be replayed: {e}")
        if still:
            known(ctx, f"{f['id']}: {f['text']} (proposed entry, not yet in known_findings.json; witness still fails; "
                       f"{len(idxs)} generated cases outside {g} attributed)")
    drift_out = [i for i in badI if i not in badS and guard_viol.get(i)]
    nt = {canon(dict(ops=c["ops"], tree=c["tree"])) for c in cases if nontrivial(c)}
    hist = dict(streams=dict(valid=sum(1 for c in cases if c.get("mode") == "valid"), d3=sum(1 for c in cases if c.get("mode") == "d3"),
                             names=sum(1 for c in cases if c.get("mode") == "d22"), labels=sum(1 for c in cases if c.get("mode") == "lab")),
                nodes={k: sum(1 for c in cases if len(tree_nodes(c["tree"])) == k) for k in range(1, 6)},
                depth={d: sum(1 for c in cases if max(p.count("/") for p, _ in tree_nodes(c["tree"])) == d) for d in range(3)},
                edges=sum(len(tree_edges(c["tree"])) for c in cases),
                with_parallel_edges=sum(1 for c in cases if len({(s_, t_) for s_, t_, _ in tree_edges(c["tree"])}) < len(tree_edges(c["tree"]))),
                max_fan_in=max((max(collections.Counter(t_ for _, t_, _ in tree_edges(c["tree"])).values(), default=0) for c in cases), default=0),
                networks_with_fan_in_ge_10=sum(1 for c in cases if max(collections.Counter(t_ for _, t_, _ in tree_edges(c["tree"])).values(), default=0) >= 10),
                int_declared_constants=sum(len(o.get("ints", [])) for c in cases for o in c["ops"].values()),
                algebraic_declared_as_plain_float=sum(len(o.get("plain_alg", [])) for c in cases for o in c["ops"].values()),
                verbose_compilations=sum(1 for c in cases if c.get("verbose")),
                nodes_without_state_variable=sum(1 for c in cases for p_, nops in tree_nodes(c["tree"])
                                                 if not any(k == "state" for on, _ in nops for _, k, _ in c["ops"][on]["vars"])),
                weightless_edges=sum(1 for c in cases for _, _, w in tree_edges(c["tree"]) if w is None),
                same_name_different_operators=sum(1 for c in cases if any("#" in k for k in c["ops"])),
                with_self_loop=sum(1 for c in cases if any(split_vid(s_)[0] == split_vid(t_)[0] for s_, t_, _ in tree_edges(c["tree"]))),
                with_unconnected_input=sum(1 for c in cases if any(kind_of(c, split_vid(v)) == "input" for v in param_vars(c))),
                state_dim_max=max((o["ny"] for o in outs if isinstance(o, dict) and "ny" in o), default=0))
    sample = dict(ops=cases[-1]["ops"], tree=cases[-1]["tree"]) if cases else {}
    write_evidence(ctx, evaluations=n_eval, distinct_nontrivial=len(nt),
                   rule="random scalar networks (1-5 nodes, 1-3 operators per node chained by variable name, DE and algebraic equations, "
                        "polynomial right-hand sides of degree <= 3 with coefficients k/4, several inputs per operator, random declaration "
                        "order, fan-in/fan-out, parallel edges, self loops, hierarchy depth 0-2, names from a pool with r, rr, r_in, r_in0, "
                        "m_in2, weight, x_v1, source, a_in0), each compiled with get_run_func(vectorize=False, float64) and evaluated at 3 dyadic "
                        "states x 2 parameter assignments; a network is non-trivial when it has >= 2 nodes, >= 1 edge and some input variable "
                        "with fan-in >= 2 or a same-node producer; distinct = distinct canonical JSON of (operators, circuit tree)",
                   samples=[sample],
                   extra=dict(input_distribution=hist, model_switches=dict(fixed_D3=fixed("D3"), fixed_D22=fixed("D22"), fixed_D22b=fixed("D22b")), impl_vs_model_mismatches=len(badI), impl_vs_spec_mismatches=len(badS),
                              raised=len(crashed), outside_guards={g: len(cmp_[k]) for k, g in GUARDS.items()}, guard_d3_false=len(cmp_["g_d3"]),
                              attributed_to_proposed_findings={g: len(v) for g, v in pending.items()},
                              code_better_than_model_outside_guards=len(drift_out),
                              also_checked="state map positions pairwise distinct, inside y and covering exactly the declared state variables; "
                                           "returned argument values and initial state = declared or overridden values (Edges.layout_ok, values_ok)"),
                   trusted_base=["numpy float64 arithmetic is exact on the generated dyadic data (the generator rejects points whose intermediate "
                                 "values need more than 44 bits; results are compared as exact rationals)",
                                 "sympy parsing/printing and the generated Python source are outside the model; they are exercised by every case"],
                   assumptions=["guards of C01_full: guard_names, guard_labels (no clash between generated names/labels and user names), "
                                "classified by the Coq booleans; the d3 stream (two variables of one source node into one "
                                "target variable) is a regression stream since fix D59",
                                "models without any differential equation, cyclic operator graphs and algebraic loops are not well-formed (Net.wf)",
                                "IEEE rounding is outside the model: the model computes in Qc"])
