"""C01 — the generated vector field equals the model the user wrote (vectorize=False; vectorization is C04).
Model: coq/theories/Expr.v (polynomial expressions), Net.v (Spec: scalar network and its denotation `deriv`),
Edges.v (Impl: grouping / merge by source node / weight matrix / multi-source sum / input substitution, state layout);
proofs in EdgesProofs.v; theorems in coq/properties/C01.v.
Tie: E1 — random networks are compiled by the real get_run_func and evaluated at dyadic points; every state
variable's derivative is compared, as an exact rational, with Spec and Impl evaluated inside Coq."""
import json, os
from fractions import Fraction as Fr
from core import *

NEEDS = ["Expr", "Net", "Edges", "EdgesProofs", "Corr"]

# A case (JSON):
#   ops    : {opname: {"vars": [[name, kind, value]], "eqs": [[lhs, is_de, poly]], "out": name|None}}
#            kind in "state" | "const" | "input" | "alg";   poly = [[coef, [factor names]]]   (coef = "k/4")
#   tree   : circuit = {"nodes": [[name, [[opname, {var: value}]]]], "subs": [[name, circuit]], "edges": [[src, tgt, w]]}
#            (either nodes or subs is non-empty; edge paths are relative to the circuit that declares them)
#   points : [{"state": {"path/op/var": value}, "params": {"path/op/var": value}}]
# ---------------------------------------------------------------------------------------------- impl side (worker)
def dec(x):
    """decimal text of a dyadic rational, exact"""
    f = Fr(x)
    s = "%.10f" % float(f)
    assert Fr(s) == f, x
    s = s.rstrip("0")
    return s + "0" if s.endswith(".") else s

def poly_str(poly):
    if not poly:
        return "0.0"
    out = []
    for coef, facs in poly:
        c = Fr(coef)
        term = "*".join([dec(abs(c))] + list(facs))
        out.append(("-" if c < 0 else "+") + " " + term)
    s = " ".join(out)
    return s[2:] if s.startswith("+ ") else s

def build(case):
    """case -> CircuitTemplate (ONE OperatorTemplate object per operator name; per-node values as overrides)"""
    from pyrates import OperatorTemplate, NodeTemplate, CircuitTemplate
    ops = {}
    for oname, o in case["ops"].items():
        variables = {}
        for name, kind, val in o["vars"]:
            v = dec(val)
            if name == o["out"]:
                variables[name] = f"output({v})"
            elif kind == "input":
                variables[name] = f"input({v})"
            elif kind == "const":
                variables[name] = float(Fr(val))
            else:
                variables[name] = f"variable({v})"
        eqs = [(f"{lhs}' = " if de else f"{lhs} = ") + poly_str(p) for lhs, de, p in o["eqs"]]
        ops[oname] = OperatorTemplate(name=oname, equations=eqs, variables=variables, path=None)
    def circ(name, c):
        if c["nodes"]:
            nodes = {}
            for nname, nops in c["nodes"]:
                nodes[nname] = NodeTemplate(name=nname, path=None,
                                            operators={ops[on]: {k: float(Fr(v)) for k, v in ov.items()} for on, ov in nops})
            return CircuitTemplate(name=name, path=None, nodes=nodes,
                                   edges=[(s, t, None, {"weight": float(Fr(w))}) for s, t, w in c["edges"]])
        subs = {sn: circ(sn, sc) for sn, sc in c["subs"]}
        return CircuitTemplate(name=name, path=None, circuits=subs,
                               edges=[(s, t, None, {"weight": float(Fr(w))}) for s, t, w in c["edges"]])
    return circ("net", case["tree"])

def impl(case):
    import numpy as np
    import pyr
    from pyr import frac
    pyr.reset_pyrates()
    try:
        try:
            net = build(case)
            func, args, arg_names, smap = net.get_run_func("vf", 0.0078125, file_name="c01_vf", vectorize=False, backend="default",
                                                           float_precision="float64", solver="euler", in_place=False,
                                                           clear=False, verbose=False)
        except Exception as e:
            return dict(stage="compile", **pyr.errclass(e))
        names = list(arg_names)
        positions = {}
        for k, v in smap.items():
            if isinstance(v, (tuple, list)):
                positions[k] = [int(v[0]), int(v[1])]
            else:
                positions[k] = [int(v), int(v) + 1]
        ny = int(np.asarray(args[1]).size)
        declared = {}
        for i, nm in enumerate(names):
            if i >= 3:
                a = np.asarray(args[i], dtype=np.float64).reshape(-1)
                declared[nm] = [frac(x) for x in a]
        y0 = [frac(x) for x in np.asarray(args[1], dtype=np.float64).reshape(-1)]
        outs = []
        for pt in case["points"]:
            a = list(args)
            y = np.zeros(ny, dtype=np.float64)
            for k, v in pt["state"].items():
                if k in positions:
                    y[positions[k][0]:positions[k][1]] = float(Fr(v))
            a[1] = y
            a[2] = np.zeros(ny, dtype=np.float64)
            for k, v in pt["params"].items():
                if k in names:
                    i = names.index(k)
                    a[i] = np.asarray(float(Fr(v)), dtype=np.float64).reshape(np.shape(args[i]))
            try:
                dy = np.asarray(func(*a), dtype=np.float64).reshape(-1)
                outs.append({k: frac(dy[p[0]]) for k, p in positions.items() if p[1] - p[0] == 1})
            except Exception as e:
                outs.append(dict(stage="call", **pyr.errclass(e)))
        return dict(positions=positions, ny=ny, arg_names=names, declared=declared, y0=y0, outs=outs)
    finally:
        pyr.reset_pyrates()
