"""C11 — distributed delays are unit-gain gamma kernels with the stated mean.
Model: coq/theories/Gamma.v (Impl: per-slot order/rate of the ODE branch of _add_edge_buffer, grouping by (order, round(rate,12)),
chain rate of the first slot of a group; Spec: every edge (d, s) has its own chain of n = max(round((d/s)^2), dde_approx) stages of rate n/d,
the explicitly written augmented ODE system); theorems: coq/properties/C11.v.
Tie: E1 — run(solver='euler') of random two-layer circuits with (delay, spread) edges; trajectories of all user variables compared as
exact rationals with the Euler trajectories of the explicit linear-chain system computed inside Coq."""
import json, os
from fractions import Fraction as Fr
from core import *

NEEDS = ["Ring", "Gamma", "GammaProofs", "Corr"]

# ---------------------------------------------------------------------------------------------- impl side (worker)
def impl(case):
    """case: dt, steps, vectorize, dde, nodes=[{kind, cls, k, x0}], edges=[[src, tgt, w, dspec]];
    dspec: 'nokey' | [d] (plain delay) | [d, s] (delay, spread)."""
    import warnings
    warnings.filterwarnings("ignore")
    import numpy as np
    from pyr import reset_pyrates, frac
    reset_pyrates()
    try:
        from pyrates import CircuitTemplate, NodeTemplate, OperatorTemplate
        from pyrates.ir.circuit import PyRatesException
        ops = {
            ("s", 0): OperatorTemplate("sa", equations=["x' = k"], variables={"x": "output(0.0)", "k": 1.0}),
            ("s", 1): OperatorTemplate("sb", equations=["x' = k + k"], variables={"x": "output(0.0)", "k": 1.0}),
            ("t", 0): OperatorTemplate("ta", equations=["x' = r_in"], variables={"x": "output(0.0)", "r_in": "input(0.0)"}),
            ("t", 1): OperatorTemplate("tb", equations=["x' = r_in + r_in"], variables={"x": "output(0.0)", "r_in": "input(0.0)"}),
        }
        opname = {("s", 0): "sa", ("s", 1): "sb", ("t", 0): "ta", ("t", 1): "tb"}
        # a "tap": a second operator on the source node that reads x through the operator graph (w' = x)
        tap_op = OperatorTemplate("tp", equations=["w' = x"], variables={"w": "variable(0.0)", "x": "input(0.0)"})
        tapped = {s_: w0 for s_, w0 in case.get("taps", [])}
        ints = set(case.get("int_edges", []))
        num = lambda v, i: int(Fr(v)) if i in ints and Fr(v).denominator == 1 else float(Fr(v))
        nodes, outs = {}, {}
        # twins: two model source nodes (ix, iu) that are the two state variables x, u of ONE operator on ONE node
        twin_op = OperatorTemplate("tw", equations=["x' = k + k + k", "u' = m + m + m + m"],
                                   variables={"x": "output(0.0)", "u": "variable(0.0)", "k": 1.0, "m": 1.0})
        twin_u = {iu: ix for ix, iu in case.get("twins", [])}; twin_x = {ix: iu for ix, iu in case.get("twins", [])}
        for i, n in enumerate(case["nodes"]):
            if i in twin_u:
                outs[f"n{i}"] = f"n{twin_u[i]}/tw/u"
                continue
            if i in twin_x:
                nu = case["nodes"][twin_x[i]]
                nodes[f"n{i}"] = NodeTemplate(f"N{i}", operators={twin_op: {"x": float(Fr(n["x0"])), "k": float(Fr(n["k"])),
                                                                             "u": float(Fr(nu["x0"])), "m": float(Fr(nu["k"]))}})
                outs[f"n{i}"] = f"n{i}/tw/x"
                continue
            key = (n["kind"], n["cls"])
            vals = {"x": float(Fr(n["x0"]))}
            if n["kind"] == "s":
                vals["k"] = float(Fr(n["k"]))
            opd = {ops[key]: vals}
            if i in tapped:
                opd[tap_op] = {"w": float(Fr(tapped[i]))}
            nodes[f"n{i}"] = NodeTemplate(f"N{i}", operators=opd)
            outs[f"n{i}"] = f"n{i}/{opname[key]}/x"
        for j, (s_, w0) in enumerate(case.get("taps", [])):
            outs[f"tap{j}"] = f"n{s_}/tp/w"
        edges = []
        for ei, (s, t, w, ds) in enumerate(case["edges"]):
            d = {"weight": float(Fr(w))}
            if ds != "nokey":
                d["delay"] = num(ds[0], ei)
                if len(ds) > 1:
                    d["spread"] = num(ds[1], ei)
            tk = opname[(case["nodes"][t]["kind"], case["nodes"][t]["cls"])]
            if s in twin_u or s in twin_x:
                src = f"n{twin_u.get(s, s)}/tw/{'u' if s in twin_u else 'x'}"
            else:
                src = f"n{s}/{opname[(case['nodes'][s]['kind'], case['nodes'][s]['cls'])]}/x"
            edges.append((src, f"n{t}/{tk}/r_in", None, d))
        dt = float(Fr(case["dt"]))
        c = CircuitTemplate("c", nodes=nodes, edges=edges)
        # the documented `decorator=` option of run() / get_run_func(): a pass-through wrapper must not change anything (in particular
        # it must not make the vector field run an extra time: the ring buffers of discrete delays are its only state)
        # backend: default (numpy) or Fortran (f2py build, needs /venv/bin on PATH; a file name of its own per circuit: a second
        # Fortran build under one name in one process would hand back the first routine)
        backend_kw = {"backend": "default"}
        if case.get("backend") == "fortran":
            import hashlib
            backend_kw = {"backend": "fortran", "file_name": "f" + hashlib.sha1(json.dumps(case, sort_keys=True).encode()).hexdigest()[:10]}
        deco_kw = {}
        if case.get("decorator"):
            def passthrough(f, tag=None):
                def wrapped(*args):
                    return f(*args)
                return wrapped
            deco_kw = {"decorator": passthrough}
            if case["decorator"] == "kwargs":
                deco_kw["decorator_kwargs"] = {"tag": 1}
        kw = {"dde_approx": case["dde"]} if case.get("dde") else {}
        if case.get("solver") == "scipy":
            kw.update(rtol=1e-10, atol=1e-12)
        try:
            r = c.run(simulation_time=case["steps"] * dt, step_size=dt, solver=case.get("solver", "euler"), outputs=outs,
                      vectorize=case["vectorize"], float_precision="float64", clear=True, verbose=False,
                      in_place=False, **backend_kw, **kw, **deco_kw)
        except (IndexError, ValueError, KeyError, TypeError, AttributeError, NameError, PyRatesException) as e:
            return {"raised": type(e).__name__, "msg": str(e)[:160]}
        cols = [f"n{i}" for i in range(len(case["nodes"]))] + [f"tap{j}" for j in range(len(case.get("taps", [])))]
        return [[frac(np.asarray(r[cname].values[j]).reshape(-1)[0]) for cname in cols] for j in range(len(r.index))]
    finally:
        reset_pyrates()

def impl_conn(case):
    """one source population p (x' = k_j; first ns nodes) and 1-3 target populations q0, q1, q2 (integrators), one
    Connectivity(weights, delays, spread) per target population: case['pops'] = [ns, n0, n1, n2], case['conns'] =
    [{tgt, W (rows), d, s}]; the case's `edges` list is the expansion, one edge per matrix entry with its connection's (d, s)."""
    import warnings
    warnings.filterwarnings("ignore")
    import numpy as np
    from pyr import reset_pyrates, frac
    reset_pyrates()
    try:
        from pyrates import CircuitTemplate, NodeTemplate, OperatorTemplate
        from pyrates.frontend.template.population import PopulationTemplate, Connectivity
        nodes = case["nodes"]; ns, *nts = case["pops"]
        sop = OperatorTemplate("sa", equations=["x' = k"], variables={"x": "output(0.0)", "k": 1.0})
        # (a population of >= 2 units with the bare right-hand side `r_in` does not compile: shape check on no_op(r_in))
        top = OperatorTemplate("ta", equations=["x' = r_in + m"], variables={"x": "output(0.0)", "r_in": "input(0.0)", "m": 0.0})
        tnode = NodeTemplate("TN", operators=[top])
        taps = case.get("taps", [])
        sops, sparams = [sop], {"sa/k": [float(Fr(n["k"])) for n in nodes[:ns]], "sa/x": [float(Fr(n["x0"])) for n in nodes[:ns]]}
        if taps:          # a second operator on the source population's node that reads x through the operator graph
            sops.append(OperatorTemplate("tp", equations=["w' = x + m"], variables={"w": "variable(0.0)", "x": "input(0.0)", "m": 0.0}))
            sparams["tp/w"] = [float(Fr(w0)) for _, w0 in taps]
        pops = {"p": PopulationTemplate("p", NodeTemplate("SN", operators=sops), ns, params=sparams)}
        outs = {"p": "p/sa/x"}; sizes = [("p", ns)]; off = ns
        for i, nt in enumerate(nts):
            if nt:
                pops[f"q{i}"] = PopulationTemplate(f"q{i}", tnode, nt, params={"ta/x": [float(Fr(n["x0"])) for n in nodes[off:off + nt]]})
                outs[f"q{i}"] = f"q{i}/ta/x"; sizes.append((f"q{i}", nt)); off += nt
        num = lambda v: int(Fr(v)) if case.get("int_conn") and Fr(v).denominator == 1 else float(Fr(v))
        conns = [Connectivity(source="p/sa/x", target=f"q{cn['tgt']}/ta/r_in", weights=np.array([[float(Fr(w)) for w in row] for row in cn["W"]]),
                              delays=num(cn["d"]), spread=num(cn["s"])) for cn in case["conns"]]
        if taps:
            outs["w"] = "p/tp/w"; sizes.append(("w", ns))
        c = CircuitTemplate("c", populations=pops, connections=conns)
        dt = float(Fr(case["dt"]))
        try:
            r = c.run(simulation_time=case["steps"] * dt, step_size=dt, solver="euler", outputs=outs,
                      float_precision="float64", backend="default", clear=True, verbose=False)
        except (IndexError, ValueError, KeyError, TypeError, AttributeError, NameError) as e:
            return {"raised": type(e).__name__, "msg": str(e)[:160]}
        cols = [np.asarray(r[k].values).reshape(case["steps"], n) for k, n in sizes]
        return [[frac(v) for blk in cols for v in blk[j]] for j in range(case["steps"])]
    finally:
        reset_pyrates()

# ---------------------------------------------------------------------------------------------- generator
def rhe(q):
    fl = q.numerator // q.denominator
    r = q - fl
    if r != Fr(1, 2):
        return fl if r < Fr(1, 2) else fl + 1
    return fl if fl % 2 == 0 else fl + 1

# (d, s) pairs: d a power of two (rate n/d dyadic), (d/s)^2 at least 1/64 away from a tie so that the float computation
# of np.round((d/s)**2) is the exact one; includes the design's (2, 1) -> 4 and (2, 0.8) -> 6 and pairs rounding to equal orders
SPREADS = [Fr(1, 4), Fr(3, 8), Fr(1, 2), Fr(5, 8), Fr(3, 4), Fr(4, 5), Fr(7, 8), Fr(1), Fr(5, 4), Fr(3, 2), Fr(2)]
def pairs(dt):
    out = []
    for d in (Fr(1, 2), Fr(1), Fr(2), Fr(4)):
        for s in SPREADS:
            q = (d / s) ** 2
            n = rhe(q)
            if 1 <= n <= 6 and abs((q % 1) - Fr(1, 2)) >= Fr(1, 64) and d > dt and (Fr(n) / d * dt).denominator <= 8:
                out.append((d, s, n))
    return out

def rescale(case, j):
    """the same circuit on another time scale: time unit * 2^j (dt, delays, spreads), source slopes and edge weights / 2^j.  Every number
    the integration produces is unchanged (so exactness is), but the rates n/d of the kernels move over many orders of magnitude — which is
    what `round(rate, 12)` in the chain grouping of _add_edge_buffer sees."""
    f = Fr(2) ** j
    nodes = [dict(n, k=str(Fr(n["k"]) / f)) if n["kind"] == "s" else dict(n) for n in case["nodes"]]
    edges = [[s_, t_, str(Fr(w) / f), ds if ds == "nokey" else [str(Fr(x) * f) for x in ds]] for s_, t_, w, ds in case["edges"]]
    return dict(case, dt=str(Fr(case["dt"]) * f), nodes=nodes, edges=edges, scale=j)

def exact_ok(case, bits=46):
    """all values of the explicit system stay exactly representable (dyadic, < 2^bits significant bits)"""
    dt = Fr(case["dt"]); nodes = case["nodes"]; edges = case["edges"]; dde = case.get("dde", 0)
    ps = []
    for s, t, w, ds in edges:
        if ds == "nokey" or len(ds) < 2:
            ps.append((0, Fr(0)))
        else:
            n = max(rhe((Fr(ds[0]) / Fr(ds[1])) ** 2), dde); ps.append((n, Fr(n) / Fr(ds[0])))
    xs = [Fr(n["x0"]) for n in nodes]; zs = [[Fr(0)] * p[0] for p in ps]
    def ok(v):
        d = v.denominator
        return d & (d - 1) == 0 and abs(v.numerator).bit_length() <= bits
    for _ in range(case["steps"]):
        dx = []
        for j, n in enumerate(nodes):
            fac = 2 if n["cls"] == 1 else 1
            if n["kind"] == "s":
                dx.append(fac * Fr(n["k"]))
            else:
                dx.append(fac * sum((Fr(e[2]) * (z[-1] if z else xs[e[0]]) for e, z in zip(edges, zs) if e[1] == j), Fr(0)))
        nz = []
        for e, p, z in zip(edges, ps, zs):
            prev = [xs[e[0]]] + z[:-1]
            nz.append([zz + dt * p[1] * (u - zz) for u, zz in zip(prev, z)])
        xs = [a + dt * b for a, b in zip(xs, dx)]; zs = nz
        if not all(ok(v) for v in xs) or not all(ok(v) for z in zs for v in z):
            return False
    return True

def gen_case(rng, kind="valid"):
    """kind: valid | plain (plain delay next to a spread: its delay is dropped) | dde (dde_approx without spread under a fixed step)
             | kernel (dde_approx > 0 turns an undelayed edge on a buffered source into a kernel)
             | shared (vectorized, single-unit source, two slots in one chain: IndexError)
             | chains (valid: vectorized, several slots per chain, several chains on one source vector)
             | perm (valid since fix D45: vectorized, a chain over all units of the source vector in another order: sources swapped)"""
    for _ in range(200):
        ns = rng.randint(1, 3); nt = rng.randint(1, 3)
        kinds = ["s"] * ns + ["t"] * nt
        rng.shuffle(kinds)
        twocls = rng.random() < 0.35
        nodes = []
        for kd in kinds:
            n = dict(kind=kd, cls=rng.randint(0, 1) if twocls else 0, x0=str(Fr(rng.randint(-4, 4), 2)), k="0")
            if kd == "s":
                n["k"] = str(rng.randint(1, 3))
                if n["x0"] == "0":
                    n["x0"] = "1/2"
            nodes.append(n)
        S = [i for i, n in enumerate(nodes) if n["kind"] == "s"]; T = [i for i, n in enumerate(nodes) if n["kind"] == "t"]
        dt = Fr(1, rng.choice([4, 8]))
        vec = rng.random() < 0.5 and kind != "plain"
        dde = rng.choice([0, 0, 0, 2, 3]) if kind == "valid" else (rng.choice([1, 2, 3]) if kind in ("dde", "kernel", "mixkeys") else 0)
        pp = pairs(dt)
        edges, seen = [], set()
        for _ in range(rng.randint(1, 5)):
            s = rng.choice(S); t = rng.choice(T)
            if (not vec or kind == "dde") and (s, t) in seen:
                continue                      # non-vectorized: parallel edges on a buffered source do not compile (C09, D18)
            seen.add((s, t))
            w = str(Fr(rng.choice([-4, -3, -2, -1, 1, 2, 3, 4]), 2))
            d, sp, n = rng.choice(pp)
            r = rng.random()
            if kind == "dde":
                ds = [str(rng.choice([Fr(1, 2), Fr(1)]))]
            elif kind == "plain" and r < 0.4:
                ds = [str(rng.choice([Fr(1, 2), Fr(1)]))]
            elif r < (0.5 if kind == "kernel" else 0.2):
                ds = "nokey"
            else:
                ds = [str(d), str(sp)]
            edges.append([s, t, w, ds])
        key = (lambda i: nodes[i]["cls"]) if vec else (lambda i: i)
        if kind == "plain" and not (any(e[3] != "nokey" and len(e[3]) == 1 for e in edges) and any(e[3] != "nokey" and len(e[3]) == 2 for e in edges)):
            continue
        if kind == "plain":
            # every plain-delay edge shares its source with a spread edge (otherwise it is a discrete ring-buffer delay: C09)
            spread_src = {e[0] for e in edges if e[3] != "nokey" and len(e[3]) == 2}
            edges = [e for e in edges if e[3] == "nokey" or len(e[3]) == 2 or e[0] in spread_src]
            if not any(e[3] != "nokey" and len(e[3]) == 1 for e in edges):
                continue
        if kind == "kernel" and not any(e[3] == "nokey" for e in edges):
            continue
        if kind == "chains":
            # vectorized, >= 2 source units of one class, slots written A, .., A, B, .., B[, C..]: an earlier chain holds >= 2 slots
            # before a chain with another (order, rate) starts (the chain's rate is the rate of ITS first slot)
            vec = True
            su = [i for i in S if nodes[i]["cls"] == nodes[S[0]]["cls"]]
            if len(su) < 2:
                continue
            groups = rng.sample(pp, min(len(pp), rng.randint(2, 3)))
            if len({(n, Fr(n) / d) for d, sp, n in groups}) < len(groups):
                continue
            edges = []
            for gi, (d, sp, n) in enumerate(groups):
                for _ in range(rng.randint(2, 3) if gi == 0 else rng.randint(1, 2)):
                    edges.append([rng.choice(su), rng.choice(T), str(Fr(rng.choice([-3, -2, -1, 1, 2, 3]), 2)), [str(d), str(sp)]])
        if kind == "scaled":
            # vectorized, one source class with 1-3 units, 3-6 (delay, spread) edges over 2-3 kernels of the SAME order and different rates
            # (e.g. (1/2,1/4), (1,1/2), (2,1), (4,2): order 4, rates 8, 4, 2, 1), written in an order where a kernel repeats before a new one
            # first appears (A,A,B; A,B,A,C; A,A,B,A,B); then moved to a time scale 2^j, j in -6..13: at j >= 10 rates of one order fall
            # into one bin of width 0.01 (they still differ by a factor 2: every slot must keep ITS rate)
            vec = True
            su = [i for i in S if nodes[i]["cls"] == nodes[S[0]]["cls"]]
            byn = {}
            for q in pp:
                byn.setdefault(q[2], {}).setdefault(q[0], q)           # one pair per (order, delay)
            cands = [list(v.values()) for v in byn.values() if len(v) >= 2]
            if not cands:
                continue
            pool_ = rng.choice(cands); ks = rng.sample(pool_, rng.randint(2, min(3, len(pool_))))
            seq = [0, 0] if rng.random() < 0.6 else [0, 1, 0]
            while len(seq) < rng.randint(3, 6):
                seq.append(rng.randrange(min(len(ks), max(seq) + 2)))
            if len(set(seq)) < 2:
                seq.append(1)
            edges = [[rng.choice(su), rng.choice(T), str(Fr(rng.choice([-3, -2, -1, 1, 2, 3]), 2)), [str(ks[i][0]), str(ks[i][1])]] for i in seq]
        if kind == "perm":
            # two units of one class, the edge from the later unit written first, same (d, s): one chain over the whole vector
            vec = True
            su = [i for i in S if nodes[i]["cls"] == nodes[S[0]]["cls"]]
            if len(su) != 2:
                continue
            d, sp, n = rng.choice(pp)
            edges = [[su[1], rng.choice(T), "2", [str(d), str(sp)]], [su[0], rng.choice(T), "-1/2", [str(d), str(sp)]]]
        if kind == "shared":
            vec = True
            e = rng.choice([x for x in edges if x[3] != "nokey"] or [None])
            if e is None or sum(1 for n in nodes if n["kind"] == "s" and n["cls"] == nodes[e[0]]["cls"]) != 1:
                continue
            edges.append([e[0], rng.choice(T), "1", list(e[3])])
        if not edges:
            continue
        if kind == "mixkinds":
            # dde_approx = 0: plain discrete delays (>= 2 steps) and (delay, spread) edges in one circuit — leaving the same source
            # node, different source nodes of one class (vectorized: one merged source variable), or unrelated sources; every edge is
            # compared with the Spec of ITS kind (ring-buffer delay of round(d/dt) steps resp. gamma kernel)
            dde = 0
            for _ in range(rng.randint(1, 3)):
                mode = rng.choice(["same", "class", "any"])
                e = rng.choice([x for x in edges if x[3] != "nokey"] or [None])
                if e is None:
                    break
                s_ = e[0] if mode == "same" else rng.choice([i for i in S if nodes[i]["cls"] == nodes[e[0]]["cls"]]) if mode == "class" else rng.choice(S)
                t_ = rng.choice(T)
                if not vec and any(x[0] == s_ and x[1] == t_ for x in edges):
                    continue
                edges.append([s_, t_, str(Fr(rng.choice([-3, -2, -1, 1, 2, 3]), 2)), [str(rng.randint(2, 5) * dt)]])
            if not any(x[3] != "nokey" and len(x[3]) == 1 for x in edges):
                continue
        if kind == "subthreshold":
            # the add_delay decision is per partition (spread edges / spread-less edges): one partition at or below its threshold, the other
            # above, both ways, on one source node or on units of one class
            dde = 0
            s_ = rng.choice(S); same = [i for i in S if nodes[i]["cls"] == nodes[s_]["cls"]]
            edges = [e for e in edges if e[0] not in same]
            low_spread = rng.random() < 0.6
            n_sp = rng.randint(1, 2); n_pl = rng.randint(1, 2)
            for j_ in range(n_sp):
                # (a sub-step kernel edge keeps its kernel when a sibling kernel edge of the partition is above the step: in scope)
                d = rng.choice([dt / 2, dt]) if low_spread and not (j_ == 1 and rng.random() < 0.5) else rng.choice([Fr(1, 2), Fr(1)])
                edges.append([rng.choice(same) if vec else s_, rng.choice(T), str(Fr(rng.choice([-2, -1, 1, 2]), 2)), [str(d), str(d)]])
            for _ in range(n_pl):
                k = rng.randint(2, 5) if low_spread or rng.random() < 0.3 else 1
                edges.append([rng.choice(same) if vec else s_, rng.choice(T), str(Fr(rng.choice([-2, -1, 1, 2]), 2)), [str(k * dt)]])
            if not vec:
                seen, out = set(), []
                for e in edges:
                    if (e[0], e[1]) not in seen:
                        seen.add((e[0], e[1])); out.append(e)
                edges = out
        if kind == "mixkeys":
            # vectorized, dde_approx > 0, a plain-delay edge and a (delay, spread) edge in ONE edge group (same source class, target class)
            vec = True; dde = dde or rng.choice([1, 2])
            e = rng.choice([x for x in edges if x[3] != "nokey"] or [None])
            if e is None:
                continue
            edges.append([rng.choice([i for i in S if nodes[i]["cls"] == nodes[e[0]]["cls"]]),
                          rng.choice([j for j in T if nodes[j]["cls"] == nodes[e[1]]["cls"]]), "1", [str(rng.choice([Fr(1, 2), Fr(1)]))]])
        if kind == "intdelay":
            vec = vec and rng.random() < 0.0          # (non-vectorized: keeps this stream apart from the mixed-key class D103)
            # `delay: 1` written as an int, with a spread (or with dde_approx), alone on its source variable (D102)
            s_ = rng.choice(S)
            edges = [e for e in edges if e[0] != s_]
            sp = rng.choice([Fr(1, 2), Fr(5, 8), Fr(3, 4), Fr(1)])
            if rng.random() < 0.3:
                dde = rng.choice([1, 2]); edges.append([s_, rng.choice(T), "1", ["1"]])
            else:
                edges.append([s_, rng.choice(T), "1", ["1", str(sp)]])
        if kind == "valid" and dde == 0 and rng.random() < 0.25:
            # a source (class) whose edges are all plain discrete delays: the ring-buffer branch next to the kernels of other sources
            free = [i for i in S if not any(e[0] == i or (vec and nodes[e[0]]["cls"] == nodes[i]["cls"]) for e in edges if e[3] != "nokey" and len(e[3]) == 2)]
            if free:
                s_ = rng.choice(free)
                for t_ in rng.sample(T, rng.randint(1, min(2, len(T)))):
                    if not any(x[0] == s_ and x[1] == t_ for x in edges):
                        edges.append([s_, t_, str(Fr(rng.choice([-3, -2, -1, 1, 2, 3]), 2)), [str(rng.randint(2, 5) * dt)]])
        case = dict(dt=str(dt), steps=rng.randint(8, 12), vectorize=vec, dde=dde, nodes=nodes, edges=edges)
        if kind == "intdelay":
            case["int_edges"] = [len(edges) - 1]
        if kind in ("valid", "twin") and rng.random() < (1.0 if kind == "twin" else 0.2):
            # twins: one node whose operator has TWO state variables x' = 3k, u' = 4m, both with gamma-delayed out-edges; in the
            # model they are two source nodes of classes 2 and 3
            pp2 = pairs(dt); ix = len(nodes); iu = ix + 1
            nodes = nodes + [dict(kind="s", cls=2, x0=str(Fr(rng.randint(1, 4), 2)), k=str(rng.randint(1, 2))),
                             dict(kind="s", cls=3, x0=str(Fr(rng.randint(1, 4), 2)), k=str(rng.randint(1, 2)))]
            edges = edges + [[src, rng.choice(T), str(Fr(rng.choice([-2, -1, 1, 2]), 2)), [str(q[0]), str(q[1])]]
                             for src in (ix, iu) for q in [rng.choice(pp2)]]
            case = dict(case, nodes=nodes, edges=edges, twins=[[ix, iu]])
        if kind in ("valid", "chains", "tap", "kernel"):
            # taps: every source node of some structural classes carries a second operator w' = x; integral delays/spreads as ints
            tcls = [c_ for c_ in sorted({nodes[i]["cls"] for i in S}) if rng.random() < (1.0 if kind == "tap" else 0.3)]
            if tcls:
                case["taps"] = [[i, str(Fr(rng.randint(-4, 4), 2))] for i in S if nodes[i]["cls"] in tcls]
            ie = [i for i, e in enumerate(edges) if e[3] != "nokey" and Fr(e[3][0]).denominator == 1 and rng.random() < 0.4]
            if ie:
                case["int_edges"] = ie
        if kind in ("valid", "mixkinds") and rng.random() < 0.15:
            case["decorator"] = rng.choice([True, "kwargs"])
        if exact_ok(case):
            if kind == "scaled":
                return rescale(case, rng.choice([-6, -3, 3, 8, 10, 10, 11, 12, 13]))
            if kind in ("valid", "chains") and not case.get("int_edges") and rng.random() < 0.3:
                return rescale(case, rng.randint(-6, 9))
            return case
    raise RuntimeError("generator could not produce an exactly representable case")

def gen_conn(rng):
    """population circuit as its expansion: one source population projecting through 1-3 Connectivity(weights, delays, spread)
    objects, all leaving the SAME source variable, into different target populations. The (d, s) pairs of the connections share
    the delay and differ in the spread, share both, or differ in both (each connection must keep its own cascade: order
    round((d/s)^2), rate n/d); pairs include those where truncation and rounding of (d/s)^2 differ"""
    for _ in range(400):
        dt = Fr(1, rng.choice([4, 8]))
        ns = rng.randint(1, 3); ncon = rng.choice([1, 2, 2, 3])
        nts = [rng.randint(1, 3) if i < ncon else 0 for i in range(3)]       # incl. the 1 x 1 matrix (fixes D92/D93)
        nodes = [dict(kind="s", cls=0, k=str(rng.randint(1, 3)), x0=str(Fr(rng.randint(1, 6), 2))) for _ in range(ns)]
        nodes += [dict(kind="t", cls=0, k="0", x0=str(Fr(rng.randint(-4, 4), 2))) for _ in range(sum(nts))]
        pp = pairs(dt)
        first = rng.choice(pp); chosen = [first]
        for _ in range(ncon - 1):
            mode = rng.choice(["same_d", "same_d", "same", "other"])
            cand = [q for q in pp if q[0] == first[0] and q[1] != first[1]] if mode == "same_d" else [first] if mode == "same" else pp
            chosen.append(rng.choice(cand or pp))
        conns, edges, off = [], [], ns
        for i, (d, sp, n) in enumerate(chosen):
            W = [[str(Fr(rng.choice([-3, -2, -1, 0, 1, 2, 3]), 2)) for _ in range(ns)] for _ in range(nts[i])]
            if all(Fr(w) == 0 for row in W for w in row):
                W[0][0] = "1"
            conns.append(dict(tgt=i, W=W, d=str(d), s=str(sp)))
            edges += [[s_, off + t, W[t][s_], [str(d), str(sp)]] for t in range(nts[i]) for s_ in range(ns)]
            off += nts[i]
        case = dict(dt=str(dt), steps=rng.randint(8, 12), vectorize=True, dde=0, nodes=nodes, edges=edges, connectivity=True,
                    pops=[ns] + nts, conns=conns)
        if rng.random() < 0.4:
            case["taps"] = [[j, str(Fr(rng.randint(-4, 4), 2))] for j in range(ns)]
        if rng.random() < 0.4:
            case["int_conn"] = True          # integral delays / spreads of the Connectivity objects written as Python ints
        if exact_ok(case):
            return case
    raise RuntimeError("generator could not produce an exactly representable Connectivity case")

# ---------------------------------------------------------------------------------------------- adaptive solvers (support stream)
def impl_adaptive(case):
    """the circuit under solver='scipy', vectorized and not: {"vec": rows | raised, "non": rows | raised} (rows as exact rationals of the
    floats).  Under an adaptive step size a plain delay is a past() term (DDE branch), a (delay, spread) edge a gamma chain."""
    out = {}
    for key, vec in (("vec", True), ("non", False)):
        r = impl(dict(case, solver="scipy", vectorize=vec))
        out[key] = r
    return out

def adaptive_reference(case):
    """closed form for the targets whose inputs are all plain-delay / undelayed edges: sources are x(t) = x0 + f*k*t with the history
    x(t) = x0 for t <= 0 (DDEHistory), delays are NOT discretised under adaptive steps, so
    v(T) = v0 + f_t * sum_e w_e * (x0*T + f_s*k*max(0, T - d_e)^2 / 2).  -> {node index: [value per stored step]}"""
    dt = Fr(case["dt"]); nodes = case["nodes"]; ref = {}
    for j, n in enumerate(nodes):
        ins = [e for e in case["edges"] if e[1] == j]
        if n["kind"] != "t" or not ins or any(e[3] != "nokey" and len(e[3]) == 2 for e in ins):
            continue
        vals = []
        for k in range(case["steps"]):
            T = k * dt; acc = Fr(0)
            for s_, t_, w, ds in ins:
                d = Fr(0) if ds == "nokey" else Fr(ds[0])
                src = nodes[s_]; slope = (src["cls"] + 1) * Fr(src["k"])
                acc += Fr(w) * (Fr(src["x0"]) * T + slope * max(Fr(0), T - d) ** 2 / 2)
            vals.append(float(Fr(n["x0"]) + (n["cls"] + 1) * acc))
        ref[j] = vals
    return ref

def gen_adaptive(rng):
    """circuits of the mixkinds / valid streams (plain delays >= 2 dt, (delay, spread) edges, undelayed edges; dde_approx = 0) for the
    adaptive solvers"""
    while True:
        c = gen_case(rng, rng.choice(["mixkinds", "mixkinds", "valid"]))
        if c.get("taps") or c.get("twins") or c.get("int_edges") or c.get("dde"):
            continue
        if not any(e[3] != "nokey" for e in c["edges"]):
            continue
        # (without vectorization parallel edges are fine since D94; keep the circuit as generated, both compilations are run)
        return dict(c, adaptive=True)

# Support stream, never deciding on numbers that an adaptive integrator can get wrong by itself:
#  * the runs ask for rtol=1e-10, atol=1e-12 (honoured by solve_ivp; the DDE path uses dopri5 with its own defaults rtol=1e-6);
#  * DECIDING: an exception, a different number of rows, or vectorized vs non-vectorized differing by more than VEC_TOL relative — both
#    compilations integrate the same equations, their step-size control may differ (other state layout), so they agree to integration
#    accuracy only; a dropped / mis-assigned delay in one of them changes values by >= 1e-2 relative, integration error is <= ~1e-3;
#  * NOTE only (counted in the evidence, never a VIOLATION): deviation from the closed form of the delayed ramp above NOTE_TOL.  The
#    closed form is exact (x is linear, the history interpolation of a linear function is exact), the integrators are not: the
#    target's input has a kink at t = d, where RK steps have a genuine O(tol) error.
ADAPTIVE_TOL = 1e-3          # NOTE_TOL (closed form, relative)
VEC_TOL = 1e-2               # deciding tolerance vectorized vs non-vectorized (relative)

def adaptive_verdict(case, out, notes=None):
    """-> None when fine, else a description of a DECIDING failure.  Closed-form deviations are appended to `notes` (if given)."""
    for key in ("vec", "non"):
        if isinstance(out[key], dict):
            return f"{key}: raised {out[key].get('raised') or out[key].get('err')}: {out[key].get('msg', '')[:120]}"
    V = [[float(Fr(x)) for x in row] for row in out["vec"]]; N = [[float(Fr(x)) for x in row] for row in out["non"]]
    if len(V) != len(N):
        return f"row counts differ: vectorized {len(V)}, non-vectorized {len(N)}"
    for k, (rv, rn) in enumerate(zip(V, N)):
        for j, (a, b) in enumerate(zip(rv, rn)):
            if abs(a - b) > VEC_TOL * (1 + abs(b)):
                return f"vectorized != non-vectorized at row {k}, node {j}: {a} vs {b}"
    if notes is not None:
        worst = 0.0
        for j, vals in adaptive_reference(case).items():
            for k, want in enumerate(vals[:len(N)]):
                for rows in (V, N):
                    worst = max(worst, abs(rows[k][j] - want) / (1 + abs(want)))
        if worst > ADAPTIVE_TOL:
            notes.append(worst)
    return None

def adaptive_guards(ctx, cases, tag):
    """indices where g_dde_slots_aligned is false (vectorized form of the circuit)"""
    bad = []
    shard = 40
    for s in range(0, len(cases), shard):
        terms = [coq_circuit(dict(c, vectorize=True)) for c in cases[s:s + shard]]
        body = "Definition cs := " + clist(terms) + ".\nEval vm_compute in (mismatches g_dde_slots_aligned cs).\n"
        ls = parse_nat_lists(coq_eval(ctx, f"c11a_{tag}_{s}", HEADER, body))
        assert len(ls) == 1, ls
        bad += [s + i for i in ls[0]]
    return bad

def nontrivial(case):
    return len({tuple(e[3]) for e in case["edges"] if e[3] != "nokey" and len(e[3]) == 2}) >= 2

# ---------------------------------------------------------------------------------------------- model side
LIST_GUARDS = ["g_no_tap_on_buffered", "g_no_int_unit_delay", "g_no_twin_collision"]
SCOPE_GUARDS = ["g_plain_ge2", "g_above_step"]   # (g_above_step: a kernel partition at or below the step size is neglected; per partition since D114)          # neglected delays are outside the property: such cases are compared with the mechanism model only
GUARDS = ["g_no_plain_in_spread_group", "g_plain_ge2", "g_no_undelayed_kernel", "g_above_step", "g_rates_exact", "g_no_scalar_shared_chain", "g_uniform_keys"] + LIST_GUARDS
HEADER = """From Coq Require Import List ZArith QArith Qcanon Bool Arith.
From PV Require Import Ring Gamma Corr.
Import ListNotations.
Definition okI (p : gcircuit * nat * res) := let '(c, n, r) := p in res_eqb (gimpl_run c n) r.
Definition okS (p : gcircuit * nat * res) := let '(c, n, r) := p in res_eqb (Ok (gspec_run c n)) r.
Definition okC (p : gcircuit * nat * res) := let '(c, n, r) := p in res_eqb (Ok (gconn_run c n)) r.
Definition gd' (g : gcircuit -> bool) (p : gcircuit * nat * res) := let '(c, n, r) := p in g c.
"""

def expand(case):
    """a tap on source node s = an extra integrator node (appended) + an edge without delay of weight 1 from s to it (appended);
    -> (nodes, edges, positions of the tap edges)"""
    nodes = list(case["nodes"]); edges = list(case["edges"]); pos = []
    for s_, w0 in case.get("taps", []):
        nodes.append(dict(kind="t", cls=0, k="0", x0=w0))
        pos.append(len(edges)); edges.append([s_, len(nodes) - 1, "1", "nokey"])
    return nodes, edges, pos

def coq_circuit(case):
    case = dict(case, nodes=expand(case)[0], edges=expand(case)[1], taps=[])
    nodes = clist([f"mkNode {cbool(n['kind'] == 's')} {cnat(n['cls'])} {cq(n.get('k', '0'))} {cq(n['x0'])}" for n in case["nodes"]])
    def dsp(ds):
        if ds == "nokey":
            return "None"
        return f"(Some ({cq(ds[0])}, {'None' if len(ds) < 2 else '(Some ' + cq(ds[1]) + ')'}))"
    edges = clist([f"mkG {cnat(s)} {cnat(t)} {cq(w)} {dsp(ds)}" for s, t, w, ds in case["edges"]])
    return f"(mkGC {cq(case['dt'])} {cbool(case['vectorize'])} {cnat(case.get('dde', 0))} {nodes} {edges})"

def coq_case(case, out):
    if isinstance(out, dict):
        exp = "ErrIndex" if out.get("raised") == "IndexError" else "(Ok [])"
    else:
        exp = "(Ok " + clist([clist([cq(x) for x in row]) for row in out]) + ")"
    return f"({coq_circuit(case)}, {cnat(case['steps'])}, {exp})"

def model_compare(ctx, cases, outs, tag):
    badI, badS, nwf = [], [], []
    gfalse = {g: [] for g in GUARDS}
    shard = 30
    for s in range(0, len(cases), shard):
        terms = [coq_case(c, o) for c, o in zip(cases[s:s + shard], outs[s:s + shard])]
        taps = clist([clist([cnat(i) for i in expand(c)[2]]) for c in cases[s:s + shard]])
        ints = clist([clist([cnat(i) for i in c.get("int_edges", [])]) for c in cases[s:s + shard]])
        plain = [g for g in GUARDS if g not in LIST_GUARDS]
        body = ("Definition cases := " + clist(terms) + ".\nDefinition taps : list (list nat) := " + taps + ".\n"
                "Definition ints : list (list nat) := " + ints + ".\n"
                "Eval vm_compute in (mismatches okI cases).\nEval vm_compute in (mismatches okS cases).\n"
                "Eval vm_compute in (mismatches (gd' gwf) cases).\n" +
                "".join(f"Eval vm_compute in (mismatches (gd' {g}) cases).\n" for g in plain) +
                "Eval vm_compute in (mismatches (fun p => gd' (g_no_tap_on_buffered (snd p)) (fst p)) (combine cases taps)).\n"
                "Eval vm_compute in (mismatches (fun p => gd' (g_no_int_unit_delay (snd p)) (fst p)) (combine cases ints)).\n"
                "Definition twins : list (list (nat * nat)) := " + clist([clist([f"({cnat(a)}, {cnat(b)})" for a, b in c.get("twins", [])]) for c in cases[s:s + shard]]) + ".\n"
                "Eval vm_compute in (mismatches (fun p => gd' (g_no_twin_collision (snd p)) (fst p)) (combine cases twins)).\n")
        ls = parse_nat_lists(coq_eval(ctx, f"c11_{tag}_{s}", HEADER, body))
        assert len(ls) == 3 + len(GUARDS), ls
        badI += [s + i for i in ls[0]]; badS += [s + i for i in ls[1]]; nwf += [s + i for i in ls[2]]
        for g, l in zip(plain + LIST_GUARDS, ls[3:]):
            gfalse[g] += [s + i for i in l]
    return badI, badS, nwf, gfalse

def conn_compare(ctx, cases, outs, tag):
    """Connectivity cases: -> (bad vs the cascade model gconn_run, bad vs Spec, g_conn false)"""
    badC, badS, gf, gt = [], [], [], []
    shard = 30
    for s in range(0, len(cases), shard):
        terms = [coq_case(c, o) for c, o in zip(cases[s:s + shard], outs[s:s + shard])]
        taps = clist([clist([cnat(i) for i in expand(c)[2]]) for c in cases[s:s + shard]])
        body = ("Definition cases := " + clist(terms) + ".\nDefinition taps : list (list nat) := " + taps + ".\n"
                "Eval vm_compute in (mismatches okC cases).\nEval vm_compute in (mismatches okS cases).\n"
                "Eval vm_compute in (mismatches (gd' g_conn) cases).\n"
                "Eval vm_compute in (mismatches (fun p => gd' (g_no_tap_on_buffered (snd p)) (fst p)) (combine cases taps)).\n")
        ls = parse_nat_lists(coq_eval(ctx, f"c11c_{tag}_{s}", HEADER, body))
        assert len(ls) == 4, ls
        badC += [s + i for i in ls[0]]; badS += [s + i for i in ls[1]]; gf += [s + i for i in ls[2]]; gt += [s + i for i in ls[3]]
    return badC, badS, gf, gt

def model_outputs(ctx, case, tag):
    body = (f"Definition c := {coq_circuit(case)}.\nEval vm_compute in (impl_params c, spec_params c).\n"
            f"Eval vm_compute in (gimpl_run c {cnat(case['steps'])}).\nEval vm_compute in (gspec_run c {cnat(case['steps'])}).\n")
    try:
        return coq_eval(ctx, f"c11_show_{tag}", HEADER, body)[:5000]
    except Exception as e:
        return f"(model evaluation failed: {e})"

def fails(ctx, case, tag):
    if case.get("adaptive"):
        r = run_impl(ctx, "c11", "impl_adaptive", [case], nworkers=1, per_case_timeout=180)[0]
        return ("err" in r) or adaptive_verdict(case, r) is not None, r
    r = run_impl(ctx, "c11", "impl_conn" if case.get("connectivity") else "impl", [case], nworkers=1)[0]
    if isinstance(r, dict) and "err" in r:
        return True, r
    if case.get("connectivity"):
        return bool(conn_compare(ctx, [case], [r], tag)[1]), r
    _, badS, _, _ = model_compare(ctx, [case], [r], tag)
    return bool(badS), r

def shrink(ctx, case):
    best, budget, i = case, 10, 0
    while i < len(best["edges"]) and budget > 0 and len(best["edges"]) > 1:
        cand = dict(best, edges=best["edges"][:i] + best["edges"][i + 1:])
        budget -= 1
        if fails(ctx, cand, f"s{budget}")[0]:
            best = cand
        else:
            i += 1
    return best

# ---------------------------------------------------------------------------------------------- check
def check(ctx):
    pr = proof_gate(ctx, NEEDS)
    problem = proof_problem(pr)
    n_valid, n_viol = (100, 8) if ctx.tier == "quick" else (1500, 80)
    if problem:
        n_valid *= 4
    if ctx.replay:
        rp = json.load(open(ctx.replay))
        cases = [rp["case"]] if "case" in rp else []
    else:
        cases = [c["case"] if "case" in c else c for c in load_corpus("C11")]
        cases += [gen_case(ctx.rng, "valid") for _ in range(n_valid)]
        cases += [gen_case(ctx.rng, "chains") for _ in range(n_valid // 5)]
        cases += [gen_case(ctx.rng, "scaled") for _ in range(n_valid // 4)]
        for _ in range(1 if ctx.tier == "quick" else 8):          # gamma chains on backend='fortran'
            while True:
                c = gen_case(ctx.rng, "valid")
                if not (c.get("taps") or c.get("twins") or c.get("decorator") or c.get("int_edges")) and any(e[3] != "nokey" for e in c["edges"]):
                    break
            cases.append(dict(c, vectorize=False, backend="fortran"))
        for kind in ("plain", "dde", "kernel", "shared", "perm", "tap", "intdelay", "mixkeys", "twin", "mixkinds", "mixkinds", "subthreshold", "subthreshold"):
            cases += [gen_case(ctx.rng, kind) for _ in range(n_viol)]
        cases += [gen_conn(ctx.rng) for _ in range(n_valid * 2 // 5)]
    acases = [c for c in cases if c.get("adaptive")]; cases = [c for c in cases if not c.get("adaptive")]
    if not ctx.replay:
        acases += [gen_adaptive(ctx.rng) for _ in range(n_valid // 4)]
    if acases:
        aouts = run_impl(ctx, "c11", "impl_adaptive", acases, per_case_timeout=180)
        anotes = []
        verdicts = [("worker error: " + str(o.get("err"))) if "err" in o else adaptive_verdict(c, o, anotes) for c, o in zip(acases, aouts)]
        gfa = set(adaptive_guards(ctx, acases, "main"))
        listed = {f.get("guard") for f in known_findings("C11")}
        fresh = [i for i, v in enumerate(verdicts) if v and not (i in gfa and "g_dde_slots_aligned" in listed)]
        ctx.note(f"adaptive-solver stream, closed form of delayed ramps (note only, never deciding): {len(anotes)} circuits deviate by more than "
                 f"{ADAPTIVE_TOL} relative" + (f" (worst {max(anotes):.2e})" if anotes else ""))
        ctx.note(f"adaptive-solver stream (solver='scipy', vectorized and not; deciding: exceptions, vec vs non-vec beyond {VEC_TOL} relative): {len(acases)} circuits, "
                 f"{sum(1 for v in verdicts if v)} failing, {len(gfa)} outside g_dde_slots_aligned "
                 f"({sum(1 for i in gfa if verdicts[i])} of them failing), unexplained failures {len(fresh)}")
        for i in fresh[:2]:
            violation(ctx, write_replay(ctx, "counterexample", dict(case=acases[i], what=verdicts[i], implementation_output=aouts[i])))
    is_conn = [bool(c.get("connectivity")) for c in cases]
    ei = [i for i in range(len(cases)) if not is_conn[i]]; ci = [i for i in range(len(cases)) if is_conn[i]]
    outs = [None] * len(cases)
    for i, r in zip(ei, run_impl(ctx, "c11", "impl", [cases[i] for i in ei], per_case_timeout=120)):
        outs[i] = r
    for i, r in zip(ci, run_impl(ctx, "c11", "impl_conn", [cases[i] for i in ci], per_case_timeout=120)):
        outs[i] = r
    crashed = [i for i, r in enumerate(outs) if isinstance(r, dict) and "err" in r]
    good = [i for i in ei if i not in crashed]
    badI, badS, nwf, gfalse = model_compare(ctx, [cases[i] for i in good], [outs[i] for i in good], "main")
    badI = [good[i] for i in badI]; badS = [good[i] for i in badS]; nwf = [good[i] for i in nwf]
    assert not nwf, f"generator produced ill-formed circuits: {nwf[:5]}"
    guard_viol = {}
    for g in GUARDS:
        if g in SCOPE_GUARDS:
            continue
        for i in gfalse[g]:
            guard_viol.setdefault(good[i], []).append(g)
    out_of_scope = {good[i] for g in SCOPE_GUARDS for i in gfalse[g]}
    badS = [i for i in badS if i not in out_of_scope]
    cgood = [i for i in ci if i not in crashed]
    badC, badSc, gcf, gct = conn_compare(ctx, [cases[i] for i in cgood], [outs[i] for i in cgood], "conn")
    badI += [cgood[i] for i in badC]; badS += [cgood[i] for i in badSc]
    for i in gcf:
        guard_viol.setdefault(cgood[i], []).append("g_conn")
    for i in gct:
        guard_viol.setdefault(cgood[i], []).append("g_no_tap_on_buffered")
    good = good + cgood
    ctx.note(f"Connectivity(delays, spread) stream: {len(ci)} population circuits, mismatches vs the cascade model {len(badC)}, vs Spec {len(badSc)}")
    in_guard = [i for i in good if i not in guard_viol]
    ctx.note(f"E1: {len(cases)} circuits ({len(in_guard)} inside all guards, {len(guard_viol)} guard-violating on purpose); "
             f"impl-vs-Impl mismatches {len(badI)}, impl-vs-Spec mismatches {len(badS)} (inside the guards "
             f"{len([i for i in badS if i in in_guard])}), exceptions/worker errors {len(crashed)}")
    def witness_check(f):
        w = json.load(open(os.path.join(VERIF, f["witness"])))
        return fails(ctx, w["case"] if "case" in w else w, "w" + f["id"].replace("-", "_"))[0]
    res = conclude(ctx, cases=cases, impl_out=outs, bad_spec=badS, bad_impl=badI, crashed=crashed, problem=problem,
                   guard_viol=guard_viol, spec_name="Gamma.gspec_run (every (d,s) edge has its own chain of max(round((d/s)^2), dde_approx) stages of rate n/d)",
                   impl_name="Gamma.gimpl_run", shrink=lambda c: shrink(ctx, c), witness_check=witness_check,
                   show=lambda c: dict(implementation_output=fails(ctx, c, "show")[1], model_output=model_outputs(ctx, c, "show")))
    nt = {canon(c) for i, c in enumerate(cases) if nontrivial(c) and i in in_guard}
    orders = sorted({rhe((Fr(e[3][0]) / Fr(e[3][1])) ** 2) for c in cases for e in c["edges"] if e[3] != "nokey" and len(e[3]) == 2})
    hist = dict(fortran_backend=sum(1 for c in cases if c.get("backend") == "fortran"), with_decorator=sum(1 for c in cases if c.get("decorator")), time_scales=sorted({c.get("scale", 0) for c in cases}), adaptive_stream=len(acases), with_taps=sum(1 for c in cases if c.get("taps")), int_delays=sum(1 for c in cases if c.get("int_edges") or c.get("int_conn")),
                connectivity=len(ci), connectivity_multi=sum(1 for i in ci if len(cases[i]["conns"]) > 1),
                connectivity_same_delay_other_spread=sum(1 for i in ci if any(a["d"] == b["d"] and a["s"] != b["s"] for a in cases[i]["conns"] for b in cases[i]["conns"])), vectorized=sum(1 for c in cases if c["vectorize"]), dde_approx=sorted({c.get("dde", 0) for c in cases}),
                in_guard=len(in_guard), guard_violating={g: len(gfalse[g]) for g in GUARDS}, orders=orders,
                pairs=len({tuple(e[3]) for c in cases for e in c["edges"] if e[3] != "nokey" and len(e[3]) == 2}),
                same_order_different_pairs=sum(1 for c in cases if len({tuple(e[3]) for e in c["edges"] if e[3] != "nokey" and len(e[3]) == 2}) >
                                               len({rhe((Fr(e[3][0]) / Fr(e[3][1])) ** 2) for e in c["edges"] if e[3] != "nokey" and len(e[3]) == 2})),
                edges=sum(len(c["edges"]) for c in cases), attributed=res["attributed"])
    write_evidence(ctx, evaluations=len(cases), distinct_nontrivial=len(nt),
                   rule="random two-layer circuits (1-3 sources x' = k, 1-3 integrator targets, two structural classes, 1-5 edges with (delay, spread) "
                        "pairs: delay a power of two, (d/s)^2 rounding to orders 1..6 away from ties, dde_approx in {0,2,3}, vectorize on/off) run "
                        "with run(solver='euler'); trajectories of all user variables compared as exact rationals with the Euler trajectories of "
                        "Gamma.gimpl_run / gspec_run (explicit chain system) evaluated inside Coq; non-trivial = inside all guards with >= 2 "
                        "distinct (d,s) pairs; distinct = distinct canonical JSON",
                   samples=[cases[0], cases[len(cases) // 2]],
                   extra=dict(input_distribution=hist, impl_vs_model_mismatches=len(badI), impl_vs_spec_mismatches=len(badS)),
                   trusted_base=["numpy float64 arithmetic is exact on the generated dyadic data (the generator keeps every value of the explicit "
                                 "system below 2^46 significant bits; results are compared as exact rationals)"],
                   assumptions=["fixed-step Euler only (adaptive solvers are not compared: no exact arithmetic); the vector field at arbitrary "
                                "chain states is not compared; Connectivity(delays, spread) is compared through the expansion of the population "
                                "circuit into one edge per matrix entry (full matrices, one (delay, spread) per connection, no coupling functions)",
                                "guards: " + ", ".join(GUARDS)])
