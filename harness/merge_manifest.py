"""/venv/bin/python harness/merge_manifest.py [Cnn ...] : rebuild MANIFEST.json from harness/manifest_parts/*.json.
Only the listed properties (default: those that have a part file AND harness/cnn.py AND coq/properties/Cnn.v) are claimed; every other
property of properties.jsonl goes to not_applicable with the reason found in harness/manifest_parts/NA.json (or a default)."""
import json, os, sys
V = '/verif'
props = [json.loads(l)['id'] for l in open(f'{V}/properties.jsonl')]
parts = {}
for pid in props:
    f = f'{V}/harness/manifest_parts/{pid}.json'
    if os.path.exists(f) and os.path.exists(f'{V}/harness/{pid.lower()}.py') and os.path.exists(f'{V}/coq/properties/{pid}.v'):
        parts[pid] = json.load(open(f))
claim = sys.argv[1:] or sorted(parts)
na_reasons = {}
if os.path.exists(f'{V}/harness/manifest_parts/NA.json'):
    na_reasons = json.load(open(f'{V}/harness/manifest_parts/NA.json'))
old = json.load(open(f'{V}/MANIFEST.json'))
checks = []
for pid in claim:
    c = parts[pid]
    c['property_id'] = pid
    c.setdefault('quick_cmd', f'./check {pid} --tier quick'); c.setdefault('thorough_cmd', f'./check {pid} --tier thorough')
    c['evidence_file'] = f'evidence/{pid}.json'; c.setdefault('replay_cmd_template', f'./check {pid} --replay {{path}}')
    c['engine'] = 'coq-model+correspondence'
    c['level_claimed']['category'] = 'proof'
    checks.append(c)
old['checks'] = checks
old['engines'][0]['serves_properties'] = claim
old['not_applicable'] = [dict(property_id=p, reason=na_reasons.get(p, 'not yet claimed: model and check under construction (DESIGN.md section 9)')) for p in props if p not in claim]
json.dump(old, open(f'{V}/MANIFEST.json', 'w'), indent=1)
print('claimed:', claim)
