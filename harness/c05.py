"""C05 — the equation language means what its arithmetic says, independent of how it is written.
Model: coq/theories/Lang.v (tokenizer, precedence-climbing parser, eval over Qc = Spec; `classify` = model of
split_equation/_preprocess_expr_str, `process_func_call` = model of ComputeGraph._process_func_call = Impl);
theorems: coq/properties/C05.v.
Tie (E1): the *string* is handed to both sides.  Streams:
  expr    (deciding) random polynomial ASTs -> 3 spellings -> (a) parse_equations + ComputeGraph.eval_node,
          (b) two-node circuit with the one-equation operator `x' = <s>` / `d/dt * x = <s>` through get_run_func,
          4 dyadic points; compared exactly with Lang.eval_string on the same string
  lhs     (deciding) ExpressionParser._preprocess_expr_str on the documented derivative notations vs Lang.classify
  surg    (deciding) ComputeGraph._process_func_call on sympy-looking strings vs Lang.process_func_call
  call    (deciding) helper calls index(v, k) through the generated code: value, or the error class for compound arguments
  support (never deciding) sin/exp/sqrt/pi/E: PyRates vs float evaluation of the fully parenthesised text of the Coq reading, 1e-12"""
import json, os, re, math
from fractions import Fraction as Fr
from core import *

NEEDS = ["Lang", "LangProofs", "Corr"]

# repairs proposed by this module: the check expects the loud failure until a repair is listed in LANDED
# (or in VERIF_C05_FIXED=D151,D152,... for the validation of a patched tree), afterwards the value.
#   D151 functions on literal-only arguments   D152 round(...)   D153 index_range with an integer-variable bound
#   D154 the derivative notation dx/dt = ... on Python < 3.13
LANDED = {"D151", "D152", "D153", "D154"}          # in /repo since round 7 (8157ae4, 3e83e92, 0178e8e, 4854db7)
FIXED = LANDED | {x for x in os.environ.get("VERIF_C05_FIXED", "").split(",") if x}

# ====================================================================================================== impl side (worker)
def _vals(d):
    return {k: float(Fr(v)) for k, v in d.items()}


def _path_a(eq, lhs, vals):
    """direct evaluation of the parsed expression (the way tests/test_backend_parser.py does it)"""
    import numpy as np
    from pyrates.backend.parser import parse_equations
    from pyrates.backend.computegraph import ComputeGraph
    from pyr import frac
    cg = ComputeGraph(backend='default')
    args = {f'n/op/{k}': {'vtype': 'constant', 'value': np.float64(v), 'shape': (), 'dtype': 'float64'}
            for k, v in vals.items() if k != lhs}
    args[f'n/op/{lhs}'] = {'vtype': 'state_var', 'value': np.float64(vals[lhs]), 'shape': (), 'dtype': 'float64'}
    parse_equations(equations=[(eq, 'n/op')], equation_args=args, cg=cg, def_shape=())
    if list(cg.var_updates['DEs']) != [lhs] or cg.var_updates['non-DEs']:
        return {"err": "classification", "detail": str({k: list(v) for k, v in cg.var_updates.items()})}
    r = np.asarray(cg.eval_node(cg.var_updates['DEs'][lhs]), dtype=np.float64).reshape(-1)
    assert r.shape == (1,), r.shape
    return frac(r[0])


def _path_b(eq, lhs, pts, vecs=None):
    """the generated function of a circuit with two nodes that both carry the one-equation operator; points 0/1 are the
    declared values of node A/B, points 2/3 are passed through the returned argument tuple"""
    import numpy as np
    from pyrates import OperatorTemplate, NodeTemplate, CircuitTemplate
    import pyr
    pyr.reset_pyrates()
    try:
        A, B, C, D = [_vals(p) for p in pts]
        variables = {k: v for k, v in A.items() if k != lhs}
        variables[lhs] = f'output({A[lhs]})'
        for k, l in (vecs or {}).items():
            variables[k] = {'vtype': 'constant', 'dtype': 'float', 'shape': (len(l),),
                            'value': np.array([float(Fr(x)) for x in l], dtype=np.float64)}
        op = OperatorTemplate(name='op', equations=[eq], variables=variables)
        nA = NodeTemplate(name='nA', operators=[op])
        nB = NodeTemplate(name='nB', operators={op: dict(B)})
        c = CircuitTemplate(name='c', nodes={'A': nA, 'B': nB})
        func, args, names, smap = c.get_run_func('f', step_size=1e-3, file_name='m1', backend='default', solver='euler',
                                                 float_precision='float64', vectorize=False, clear=False, in_place=False,
                                                 verbose=False)
        iA, iB = smap[f'A/op/{lhs}'], smap[f'B/op/{lhs}']
        iA, iB = int(np.asarray(iA).reshape(-1)[0]), int(np.asarray(iB).reshape(-1)[0])
        r1 = np.array(func(*args), dtype=np.float64).reshape(-1)
        out = [pyr.frac(r1[iA]), pyr.frac(r1[iB])]
        args2 = list(args)
        y = np.array(args[1], dtype=np.float64).copy()
        y[iA], y[iB] = C[lhs], D[lhs]
        args2[1] = y
        args2[2] = np.zeros_like(args[2])
        for j, nm in enumerate(names):
            if j < 3:
                continue
            node, _, var = nm.split('/')
            if var in C and np.asarray(args[j]).ndim == 0:
                args2[j] = np.asarray((C if node == 'A' else D)[var], dtype=np.float64)
        r2 = np.array(func(*args2), dtype=np.float64).reshape(-1)
        out += [pyr.frac(r2[iA]), pyr.frac(r2[iB])]
        return out
    finally:
        pyr.reset_pyrates()


def _run_points(func, args, names, smap, slots, second):
    """value of the slots at the declared point and at a second point passed through the argument tuple
    (second = {frontend path: value} for state variables and parameters)"""
    import numpy as np
    import pyr
    idx = [int(np.asarray(smap[k]).reshape(-1)[0]) for k in slots]
    r1 = np.array(func(*args), dtype=np.float64).reshape(-1)
    out = [pyr.frac(r1[i]) for i in idx]
    args2 = list(args)
    y = np.array(args[1], dtype=np.float64).copy()
    for k, v in second.items():
        if k in smap:
            y[int(np.asarray(smap[k]).reshape(-1)[0])] = v
    args2[1] = y
    args2[2] = np.zeros_like(args[2])
    for j, nm in enumerate(names):
        if j >= 3 and nm in second and np.asarray(args[j]).ndim == 0:
            args2[j] = np.asarray(second[nm], dtype=np.float64)
    r2 = np.array(func(*args2), dtype=np.float64).reshape(-1)
    return out + [pyr.frac(r2[i]) for i in idx]


def _compile(c):
    return c.get_run_func('f', step_size=1e-3, file_name='m1', backend='default', solver='euler', float_precision='float64',
                          vectorize=False, clear=False, in_place=False, verbose=False)


def _path_pre(eq, lhs, pts):
    """node A owns only a state variable with the name of the left-hand side (declared first), node B carries the tested
    operator: B's variable is relabelled <lhs>_v1 *before* B's own constants are registered.  Points 0 and 2."""
    from pyrates import OperatorTemplate, NodeTemplate, CircuitTemplate
    import pyr
    pyr.reset_pyrates()
    try:
        P0, P1, P2 = _vals(pts[0]), _vals(pts[1]), _vals(pts[2])
        op0 = OperatorTemplate(name='op0', equations=[f"{lhs}' = -{lhs}"], variables={lhs: f'output({P1[lhs]})'})
        variables = {lhs: f'output({P0[lhs]})'}          # declared first: relabelled before the user constants are registered
        variables.update({k: v for k, v in P0.items() if k != lhs})
        op = OperatorTemplate(name='op', equations=[eq], variables=variables)
        c = CircuitTemplate(name='c', nodes={'A': NodeTemplate(name='nA', operators=[op0]), 'B': NodeTemplate(name='nB', operators=[op])})
        func, args, names, smap = _compile(c)
        return _run_points(func, args, names, smap, [f'B/op/{lhs}'], {f'B/op/{k}': v for k, v in P2.items()})
    finally:
        pyr.reset_pyrates()


def _path_multi(eq, lhs, pts, u, usrc):
    """one node, two source operators that both export `u`, the tested operator declares `u` as input: u = u_s1 + u_s2
    (the equation string is rewritten by parser.replace).  Points 0 and 2; usrc = [[u1, u2] at point 0, [u1, u2] at point 2]."""
    from pyrates import OperatorTemplate, NodeTemplate, CircuitTemplate
    import pyr
    pyr.reset_pyrates()
    try:
        P0, P2 = _vals(pts[0]), _vals(pts[2])
        (a0, b0), (a2, b2) = [[float(Fr(x)) for x in pr] for pr in usrc]
        s1 = OperatorTemplate(name='s1', equations=[f"{u}' = -{u}"], variables={u: f'output({a0})'})
        s2 = OperatorTemplate(name='s2', equations=[f"{u}' = -2*{u}"], variables={u: f'output({b0})'})
        variables = {k: v for k, v in P0.items() if k not in (lhs, u)}
        variables[lhs] = f'output({P0[lhs]})'
        variables[u] = 'input(0.0)'
        tg = OperatorTemplate(name='tg', equations=[eq], variables=variables)
        c = CircuitTemplate(name='c', nodes={'p': NodeTemplate(name='n', operators=[s1, s2, tg])})
        func, args, names, smap = _compile(c)
        second = {f'p/tg/{k}': v for k, v in P2.items() if k != u}
        second[f'p/s1/{u}'] = a2; second[f'p/s2/{u}'] = b2
        return _run_points(func, args, names, smap, [f'p/tg/{lhs}'], second)
    finally:
        pyr.reset_pyrates()


def _vec_vars(case):
    import numpy as np
    arr = lambda l: np.array([[float(Fr(x)) for x in r] for r in l] if isinstance(l[0], list) else [float(Fr(x)) for x in l], dtype=np.float64)
    d = {k: arr(v) for k, v in case["vecs"].items()}
    d.update({k: arr(v) for k, v in case["mats"].items()})
    return d


def _vec_a(case):
    import numpy as np
    from pyrates.backend.parser import parse_equations
    from pyrates.backend.computegraph import ComputeGraph
    from pyr import fracs
    cg = ComputeGraph(backend='default')
    mk = lambda a: {'vtype': 'constant', 'value': np.asarray(a, dtype=np.float64), 'shape': np.asarray(a).shape, 'dtype': 'float64'}
    args = {f'n/op/{k}': mk(v) for k, v in _vals(case["scal"]).items()}
    args.update({f'n/op/{k}': mk(v) for k, v in _vec_vars(case).items() if k != 'x'})
    args.update({f'n/op/{k}': {'vtype': 'constant', 'value': np.int32(v), 'shape': (), 'dtype': 'int32'} for k, v in case.get("ints", {}).items()})
    x0 = np.array([float(Fr(v)) for v in case["x0"]], dtype=np.float64)
    n = case["n"]
    args['n/op/x'] = {'vtype': 'state_var', 'value': x0 if n else np.float64(x0[0]), 'shape': (n,) if n else (), 'dtype': 'float64'}
    parse_equations(equations=[(case["eq"], 'n/op')], equation_args=args, cg=cg, def_shape=())
    r = np.asarray(cg.eval_node(cg.var_updates['DEs']['x']), dtype=np.float64).reshape(-1)
    assert r.shape == (max(n, 1),), r.shape
    return fracs(r)


def _vec_b(case):
    import numpy as np
    from pyrates import OperatorTemplate, NodeTemplate, CircuitTemplate
    import pyr
    pyr.reset_pyrates()
    try:
        n = case["n"]
        x0 = np.array([float(Fr(v)) for v in case["x0"]], dtype=np.float64)
        variables = {'x': {'vtype': 'state_var', 'dtype': 'float', 'shape': (n,), 'value': x0} if n else f'output({x0[0]})'}
        variables.update(_vals(case["scal"]))
        variables.update({k: int(v) for k, v in case.get("ints", {}).items()})      # declared by a bare integer
        variables.update({k: {'vtype': 'constant', 'dtype': 'float', 'shape': v.shape, 'value': v} for k, v in _vec_vars(case).items()})
        op = OperatorTemplate(name='op', equations=[case["eq"]], variables=variables)
        c = CircuitTemplate(name='c', nodes={'A': NodeTemplate(name='nA', operators=[op])})
        func, args, names, smap = _compile(c)
        r = np.array(func(*args), dtype=np.float64).reshape(-1)
        pos = smap['A/op/x']
        sel = r[pos[0]:pos[1]] if isinstance(pos, (tuple, list)) else r[int(np.asarray(pos).reshape(-1)[0])]
        sel = np.asarray(sel).reshape(-1)
        assert sel.shape == (max(n, 1),), sel.shape
        return pyr.fracs(sel)
    finally:
        pyr.reset_pyrates()


def _fort(case):
    """the generated Fortran routine of a one-equation operator (float64), value at the declared point"""
    import numpy as np
    from pyrates import OperatorTemplate, NodeTemplate, CircuitTemplate
    import pyr
    pyr.reset_pyrates()
    try:
        P = _vals(case["pt"])
        variables = {k: v for k, v in P.items() if k != "x"}; variables["x"] = f"output({P['x']})"
        op = OperatorTemplate(name='op', equations=[case["eq"]], variables=variables)
        c = CircuitTemplate(name='c', nodes={'A': NodeTemplate(name='nA', operators=[op])})
        func, args, names, smap = c.get_run_func("vf_" + case["fname"], step_size=1e-3, file_name=case["fname"], backend='fortran', solver='euler',
                                                 float_precision='float64', vectorize=False, clear=False, in_place=False, verbose=False)
        r = func(*args)
        r = np.array(args[2] if r is None else r, dtype=np.float64).reshape(-1)
        return [pyr.frac(r[int(np.asarray(smap['A/op/x']).reshape(-1)[0])])]
    finally:
        pyr.reset_pyrates()


def _fl(v):
    """a float result as JSON: exact hex for finite values, 'nan' / 'inf' / '-inf' otherwise"""
    import numpy as np
    v = float(np.asarray(v, dtype=np.float64).reshape(-1)[0])
    return "nan" if v != v else ("inf" if v == float("inf") else "-inf" if v == float("-inf") else v.hex())


def _extreme_a(case):
    """a backend function at extreme arguments, direct evaluation of the parsed equation"""
    import numpy as np
    from pyrates.backend.parser import parse_equations
    from pyrates.backend.computegraph import ComputeGraph
    dt = np.float32 if case["prec"] == "float32" else np.float64
    out = []
    for v in case["args"]:
        cg = ComputeGraph(backend='default')
        args = {'n/op/x': {'vtype': 'state_var', 'value': dt(0.5), 'shape': (), 'dtype': case["prec"]},
                'n/op/r': {'vtype': 'constant', 'value': dt(float(v)), 'shape': (), 'dtype': case["prec"]}}
        parse_equations(equations=[(f"x' = {case['f']}(r)", 'n/op')], equation_args=args, cg=cg, def_shape=())
        with np.errstate(all='ignore'):
            out.append(_fl(cg.eval_node(cg.var_updates['DEs']['x'])))
    return out


def _extreme_b(case):
    """... and the generated function, compiled once per function and precision"""
    import numpy as np
    from pyrates import OperatorTemplate, NodeTemplate, CircuitTemplate
    import pyr
    pyr.reset_pyrates()
    try:
        dt = np.float32 if case["prec"] == "float32" else np.float64
        op = OperatorTemplate(name='op', equations=[f"x' = {case['f']}(r)"], variables={'x': 'output(0.5)', 'r': 1.0})
        c = CircuitTemplate(name='c', nodes={'A': NodeTemplate(name='nA', operators=[op])})
        func, args, names, smap = c.get_run_func('f', step_size=1e-3, file_name='m1', backend='default', solver='euler',
                                                 float_precision=case["prec"], vectorize=False, clear=False, in_place=False, verbose=False)
        j = list(names).index('A/op/r')
        assert np.asarray(args[j]).dtype == dt and np.asarray(args[1]).dtype == dt, (np.asarray(args[j]).dtype, np.asarray(args[1]).dtype)
        out = []
        for v in case["args"]:
            a2 = list(args); a2[j] = np.asarray(float(v), dtype=dt); a2[2] = np.zeros_like(args[2])
            with np.errstate(all='ignore'):
                out.append(_fl(np.array(func(*a2)).reshape(-1)[0]))
        return out
    finally:
        pyr.reset_pyrates()


def _const_eqs(it):
    s, form = it["s"], it["form"]
    if form == "alg":
        return [f"z = {s}", "x' = z + r"]
    return [f"x' = {s}" if form == "prime" else f"d/dt * x = {s}"]


def _const_a(it):
    """right-hand side that is (or folds to) a pure number: direct evaluation of the parsed equation"""
    import numpy as np
    from pyrates.backend.parser import parse_equations
    from pyrates.backend.computegraph import ComputeGraph
    from pyr import frac
    cg = ComputeGraph(backend='default')
    mk = lambda v, vt: {'vtype': vt, 'value': np.float64(v), 'shape': (), 'dtype': 'float64'}
    args = {'n/op/x': mk(0.5, 'state_var'), 'n/op/r': mk(float(Fr(it["r"])), 'constant')}
    if it["form"] == "alg":
        args['n/op/z'] = mk(0.0, 'state_var')
    parse_equations(equations=[(e, 'n/op') for e in _const_eqs(it)], equation_args=args, cg=cg, def_shape=())
    node = cg.var_updates['non-DEs']['z'] if it["form"] == "alg" else cg.var_updates['DEs']['x']
    r = np.asarray(cg.eval_node(node), dtype=np.float64).reshape(-1)
    assert r.shape == (1,), r.shape
    return frac(r[0])


def _const_b(it):
    import numpy as np
    from pyrates import OperatorTemplate, NodeTemplate, CircuitTemplate
    import pyr
    pyr.reset_pyrates()
    try:
        variables = {'x': 'output(0.5)', 'r': float(Fr(it["r"]))}
        if it["form"] == "alg":
            variables['z'] = 'variable(0.0)'
        op = OperatorTemplate(name='op', equations=_const_eqs(it), variables=variables)
        c = CircuitTemplate(name='c', nodes={'A': NodeTemplate(name='nA', operators=[op])})
        func, args, names, smap = _compile(c)
        r = np.array(func(*args), dtype=np.float64).reshape(-1)
        return pyr.frac(r[int(np.asarray(smap['A/op/x']).reshape(-1)[0])])
    finally:
        pyr.reset_pyrates()


def _sibling_containment(s, u=None):
    """sympy as oracle for the class that D80 repaired (kept as a coverage statistic only, it excuses nothing): some node of the sympified expression has two non-atomic
    arguments a, b such that subs(b -> symbol) changes a (b is found algebraically inside a: c*x**2 in c*x**3, s in s + k,
    1/t in t + v).  sympy is not modelled in Coq; Lang.no_shared_cofactor_powers is the syntactic sub-class."""
    from sympy import sympify, Symbol, Dummy, preorder_traversal
    e = sympify(s)
    if u:
        e = e.subs(Symbol(u), Symbol(u) + Symbol(u + "__src2"))
    for node in preorder_traversal(e):
        args = [a for a in node.args if a.args]
        for i, a in enumerate(args):
            for j, b in enumerate(args):
                if i != j and a.subs(b, Dummy()) != a:
                    return True
    return False


def _guard(f, *a, **k):
    import pyr
    try:
        return f(*a, **k)
    except BaseException as e:
        if type(e).__name__ in ("Timeout",):
            raise
        return pyr.errclass(e)


def impl(case):
    kind = case["kind"]
    if kind == "expr":
        outs = []
        for sp in case["spellings"]:
            eq = (f"{case['lhs']}' = {sp['s']}" if sp["form"] == "prime" else f"d/dt * {case['lhs']} = {sp['s']}")
            a = [_guard(_path_a, eq, case["lhs"], _vals(case["pts"][i])) for i in (0, 1)]
            lay = sp.get("layout", "pair")
            if lay == "pre":
                b = _guard(_path_pre, eq, case["lhs"], case["pts"])
            elif lay == "multi":
                b = _guard(_path_multi, eq, case["lhs"], case["pts"], case["u"], case["usrc"])
            else:
                b = _guard(_path_b, eq, case["lhs"], case["pts"])
            sib = _guard(_sibling_containment, sp["s"], case.get("u") if lay == "multi" else None)
            outs.append({"eq": eq, "a": a, "b": b, "sib": sib is True})
        return outs
    if kind == "lhs":
        from pyrates.backend.parser import ExpressionParser
        from pyrates.backend.computegraph import ComputeGraph
        outs = []
        for eq in case["eqs"]:
            def one(eq=eq):
                p = ExpressionParser(expr_str=eq, args={}, cg=ComputeGraph(backend='default'))
                return [p.lhs, p.lhs_key, bool(p._diff_eq), p.rhs, p._assign_type]
            outs.append(_guard(one))
        return outs
    if kind == "fort":
        return _guard(_fort, case)
    if kind == "extreme":
        return {"a": _guard(_extreme_a, case), "b": _guard(_extreme_b, case)}
    if kind == "const":
        return [{"a": _guard(_const_a, it), "b": _guard(_const_b, it)} for it in case["items"]]
    if kind == "names":
        from pyrates import OperatorTemplate, NodeTemplate, CircuitTemplate
        import pyr
        outs = []
        for v in case["names"]:
            def one(v=v):
                pyr.reset_pyrates()
                try:
                    op = OperatorTemplate(name='op', equations=["x' = -x"], variables={'x': 'output(0.5)', v: 1.5})
                    CircuitTemplate(name='c', nodes={'A': NodeTemplate(name='nA', operators=[op])}).get_run_func(
                        'f', step_size=1e-3, file_name='m1', backend='default', solver='euler', float_precision='float64',
                        vectorize=False, clear=False, in_place=False, verbose=False)
                    return "accepted"
                finally:
                    pyr.reset_pyrates()
            outs.append(_guard(one))
        return outs
    if kind == "surg":
        from pyrates.backend.computegraph import ComputeGraph
        return [_guard(lambda it=it: ComputeGraph._process_func_call(expr=it[0], func=it[1], replacement=it[2])) for it in case["items"]]
    if kind == "call":
        return _guard(_path_b, case["eq"], case["lhs"], case["pts"], case["vecs"])
    if kind == "vec":
        return {"a": _guard(_vec_a, case), "b": _guard(_vec_b, case)}
    if kind == "support":
        import numpy as np
        r = _guard(_path_b, case["eq"], case["lhs"], case["pts"])
        return r if isinstance(r, dict) else [float(Fr(x)) for x in r]
    raise ValueError(kind)


# ====================================================================================================== generators
POOL = ["r", "rr", "r_in", "r_in0", "m_in2", "weight", "x_v1", "a_in0", "source", "r_v1", "k", "tau", "v_th", "x_v2", "rate",
        "rr_v1", "in0", "w_in"]
LHS = ["x", "x", "x", "x", "v", "u", "r", "rr", "x_v1", "z", "r_in"]
NUMS = {"2": ["2", "2.0", "2.", "2.00", "2e0", "20e-1", "0.2e1"], "3": ["3", "3.0", "30E-1"], "0.5": ["0.5", "0.50", ".5", "5e-1", "0.05e+1"],
        "0.25": ["0.25", "0.250", ".25", "2.5e-1", "25e-2"], "1.5": ["1.5", "1.50", "15e-1", "0.15E1"],
        "4": ["4", "4.", "4.0", "0.4e1"], "10": ["10", "10.0", "1e1", "1E+1", "0.1e2"], "0.125": ["0.125", "125e-3", ".125", "1.25e-1"],
        "1": ["1", "1.0", "1e0"], "8": ["8", "8.0", "80e-1"], "0.75": ["0.75", "7.5e-1", ".75"]}
DIVS = ["2", "4", "8", "0.5", "0.25"]
LVL = {"add": 0, "sub": 0, "mul": 1, "div": 1, "neg": 2, "pow": 3, "num": 4, "var": 4, "call": 4}


def gen_ast(rng, names, p2, depth, made):
    if made and depth >= 1 and rng.random() < 0.12:
        return rng.choice(made)                      # repeated sub-expression
    if depth == 0 or rng.random() < 0.12:
        if rng.random() < 0.72:
            return ("var", rng.choice(names))
        return ("num", rng.choice(list(NUMS)))
    if depth >= 2 and rng.random() < 0.05:
        e = shared_terms(rng, names)                 # q*B^2 + q*B^3: repeated sub-product with a shared cofactor
        made.append(e)
        return e
    op = rng.choice(["add", "add", "sub", "sub", "mul", "mul", "mul", "neg", "pow", "div"])
    if op == "neg":
        e = ("neg", gen_ast(rng, names, p2, depth - 1, made))
    elif op == "pow":
        e = ("pow", gen_ast(rng, names, p2, depth - 1, made), ("num", rng.choice(["2", "2", "3"])))
    elif op == "div":
        d = ("var", p2) if rng.random() < 0.3 else ("num", rng.choice(DIVS))
        e = ("div", gen_ast(rng, names, p2, depth - 1, made), d)
    else:
        e = (op, gen_ast(rng, names, p2, depth - 1, made), gen_ast(rng, names, p2, depth - 1, made))
    made.append(e)
    return e


def shared_terms(rng, names):
    q = rng.choice([("num", rng.choice(["2", "0.75", "3", "0.5"])), ("var", rng.choice(names)),
                    ("mul", ("num", rng.choice(["2", "1.5"])), ("var", rng.choice(names)))])
    B = ("var", rng.choice(names)) if rng.random() < 0.75 else ("add", ("var", rng.choice(names)), ("var", rng.choice(names)))
    t2, t3 = ("mul", q, ("pow", B, ("num", "2"))), ("mul", q, ("pow", B, ("num", "3")))
    return ("add", t3, t2) if rng.random() < 0.5 else ("add", t2, t3)


CANON = dict(blanks=[0], pow=["^"], extra=0.0, reorder=False, numvar=False)


def depth_of(e):
    return 0 if e[0] in ("num", "var") else 1 + max(depth_of(x) for x in e[1:] if isinstance(x, tuple))


def idents(e):
    if e[0] == "var":
        return {e[1]}
    if e[0] == "num":
        return set()
    return set().union(*[idents(x) for x in e[1:] if isinstance(x, (tuple, list))])


def bits(e):
    """(b, f): for every admissible point the value is n / 2^f with |n| < 2^b, and so is every partial result of any
    re-association / distribution of numeric coefficients: exactness of float64 needs b <= 53 (we demand <= 44)"""
    k = e[0]
    if k == "var":
        return (6, 3)
    if k == "num":
        v = Fr(e[1]); f = v.denominator.bit_length() - 1
        return (max(1, abs(v.numerator).bit_length()), f)
    if k == "neg":
        return bits(e[1])
    if k in ("add", "sub"):
        (b1, f1), (b2, f2) = bits(e[1]), bits(e[2]); f = max(f1, f2)
        return (max(b1 + f - f1, b2 + f - f2) + 1, f)
    if k == "mul":
        (b1, f1), (b2, f2) = bits(e[1]), bits(e[2])
        return (b1 + b2, f1 + f2)
    if k == "div":
        (b1, f1) = bits(e[1])
        if e[2][0] == "var":
            return (b1 + 6, f1 + 3)
        v = 1 / Fr(e[2][1]); f = v.denominator.bit_length() - 1
        return (b1 + abs(v.numerator).bit_length(), f1 + f)
    if k == "pow":
        (b1, f1) = bits(e[1]); n = int(e[2][1]) if e[2][0] == "num" else 3      # a variable exponent takes the values 0..3
        return (b1 * n, f1 * n)
    if k == "call":
        (b1, f1), (b2, f2) = bits(e[2]), bits(e[3]); f = max(f1, f2)
        return (max(b1 + f - f1, b2 + f - f2), f)
    raise ValueError(k)


def spell(e, rng, st, lvl=0):
    """one concrete spelling; the precedence levels are those of Lang.pr (what a string means is decided by Lang.parse anyway)"""
    k = e[0]
    sp = lambda: " " * rng.choice(st["blanks"])
    if k == "num":
        body = rng.choice(NUMS.get(e[1], [e[1]])) if st["numvar"] else e[1]
    elif k == "var":
        body = e[1]
        if st.get("uplus") and lvl <= 2 and rng.random() < 0.12:
            body = "+" + sp() + body              # unary plus
    elif k == "neg":
        body = "-" + sp() + spell(e[1], rng, st, 2)
    elif k == "pow":
        body = spell(e[1], rng, st, 4) + sp() + rng.choice(st["pow"]) + sp() + (e[2][1] if e[2][0] == "num" else spell(e[2], rng, st, 4))
    elif k == "call":
        body = e[1] + sp() + "(" + sp() + spell(e[2], rng, st, 0) + sp() + "," + sp() + spell(e[3], rng, st, 0) + sp() + ")"
    else:
        a, b = e[1], e[2]
        sym = {"add": "+", "sub": "-", "mul": "*", "div": "/"}[k]
        l0 = LVL[k]
        if st["reorder"] and k in ("add", "mul") and rng.random() < 0.6:
            a, b = b, a                               # commuted operands: another AST with the same value
            body = spell(a, rng, st, l0) + sp() + sym + sp() + spell(b, rng, st, l0 + 1)
        elif st["reorder"] and k == "sub" and rng.random() < 0.4:
            body = "-" + sp() + spell(b, rng, st, 2) + sp() + "+" + sp() + spell(a, rng, st, 1)
        else:
            body = spell(a, rng, st, l0) + sp() + sym + sp() + spell(b, rng, st, l0 + 1)
        if st["reorder"] and k == "sub" and body.startswith("-") and lvl > 0:
            return "(" + body + ")"
    need = LVL[k] < lvl or (k == "sub" and body.startswith("-") and lvl > 0)
    n = (1 if need else 0) + (rng.choice([0, 0, 1, 1, 2]) if rng.random() < st["extra"] else 0)
    for _ in range(n):
        body = "(" + sp() + body + sp() + ")"
    return body


STYLES = [dict(blanks=[0, 0, 1], pow=["^"], extra=0.0, reorder=False, numvar=False),
          dict(blanks=[0, 0, 1, 2, 3], pow=["**"], extra=0.5, reorder=False, numvar=True),
          dict(blanks=[0, 1, 1], pow=["^", "**"], extra=0.2, reorder=True, numvar=True, uplus=True)]


def dy_val(rng, p2=False):
    if p2:
        return str(rng.choice([-1, 1]) * Fr(2) ** rng.randint(-2, 2))
    return str(Fr(rng.randint(-24, 24), 8))


def gen_expr_case(rng):
    while True:
        lhs = rng.choice(LHS)
        n = rng.randint(2, 4)
        names = rng.sample([p for p in POOL if p != lhs], n)
        if rng.random() < 0.3:                       # a user variable that looks like a generated label of another one
            base = rng.choice([lhs] + names)
            for cand in (base + "_v1", base + "_v2"):
                if cand not in names and cand != lhs and len(names) < 5 and rng.random() < 0.7:
                    names.append(cand)
        p2 = names[-1]
        pool = names + ([lhs] if rng.random() < 0.6 else [])
        made = []
        e = gen_ast(rng, pool, p2, rng.randint(2, 4), made)
        if depth_of(e) < 1 or depth_of(e) > 4 or bits(e)[0] > 44 or not idents(e):
            continue
        pts = []
        for _ in range(4):
            p = {nm: dy_val(rng, nm == p2) for nm in names}
            p[lhs] = dy_val(rng)
            pts.append(p)
        forms = ["prime", "ddt", rng.choice(["prime", "ddt"])]
        rng.shuffle(forms)
        # three circuit layouts, one per spelling: multi-source input (spelling 0), pair of nodes (1), preceded (2)
        cand = sorted(idents(e) - {lhs, p2})
        bases = sorted(pow_bases(e) - {lhs, p2})
        u = rng.choice(bases) if bases and rng.random() < 0.8 else (rng.choice(cand) if cand else None)
        layouts = ["multi" if u else "pair", "pair", "pre"]
        usrc = None
        if u and rng.random() < 0.4:
            # the doubly fed input as an exponent (natural values 0..3) and as the second argument of maxi / mini:
            # occurrences directly after `^` and `,` (parser.replace decides by the neighbouring characters)
            others = [("var", nm) for nm in names if nm not in (u, p2)] + [("num", "1.5")]
            T = rng.choice([("pow", ("num", rng.choice(["2", "0.5"])), ("var", u)),
                            ("pow", ("add", rng.choice(others), rng.choice(others)), ("var", u)),
                            ("call", rng.choice(["maxi", "mini"]), rng.choice(others), ("var", u)),
                            ("call", rng.choice(["maxi", "mini"]), ("var", u), rng.choice(others)),
                            ("add", ("pow", rng.choice(others), ("var", u)), ("call", "maxi", rng.choice(others), ("var", u)))])
            e2 = (rng.choice(["add", "sub"]), e, T)
            if bits(e2)[0] <= 44:
                e = e2
                for p in pts:
                    p[u] = str(rng.randint(0, 3))
        if u:
            usrc = []
            for p in (0, 2):
                a = Fr(rng.randint(-12, 12), 8) if Fr(pts[p][u]).denominator != 1 or rng.random() < 0.3 else Fr(rng.randint(-1, 2))
                usrc.append([str(a), str(Fr(pts[p][u]) - a)])
        spellings = [dict(s=spell(e, rng, STYLES[i]), form=forms[i], layout=layouts[i]) for i in range(3)]
        return dict(kind="expr", lhs=lhs, names=names, ast=e, pts=pts, spellings=spellings, u=u, usrc=usrc, canon=spell(e, rng, CANON))


def pow_bases(e):
    if e[0] in ("num", "var"):
        return set()
    r = set().union(*[pow_bases(x) for x in e[1:] if isinstance(x, tuple)])
    if e[0] == "pow" and e[1][0] == "var":
        r.add(e[1][1])
    return r


IDS = ["x", "r", "d", "dd", "delta", "rd_t", "x_v1", "dt", "d_dt", "V", "r_in0", "weight", "u1", "ddt", "tdd"]
RHS = ["r + 1", "-x/tau + r", "2*r", "r^2 - (x + 1)*k", "k", "0.5", "a*(b + c) - d", "x", "r <= 2"]


def gen_lhs_case(rng):
    eqs, meta = [], []
    for _ in range(14):
        x = rng.choice(IDS + POOL); rhs = rng.choice(RHS); f = rng.random()
        if f < 0.25:
            eqs.append(f"d/dt * {x} = {rhs}"); meta.append(["doc", x, rhs])
        elif f < 0.5:
            eqs.append(f"{x}' = {rhs}"); meta.append(["doc", x, rhs])
        elif f < 0.58:
            eqs.append(f"d/dt{' ' * rng.randint(0, 2)}*{' ' * rng.randint(0, 2)}{x}{rng.choice([' = ', '= ', ' =', '='])}{rhs}"); meta.append(["var", x, rhs])
        elif f < 0.66:
            eqs.append(f"{x}'{rng.choice([' = ', '= ', ' =', '='])}{rhs}"); meta.append(["var", x, rhs])
        elif f < 0.72:
            eqs.append(f"{x} = {rhs}"); meta.append(["alg", x, rhs])
        elif f < 0.82:
            # the third notation: TypeError on Python 3.12 until D154; afterwards (x, DE, r) unless x ends in d
            eqs.append(f"d{x}/dt = {rhs}"); meta.append(["doc" if "D154" in FIXED and not x.endswith("d") and "=" not in rhs else "leibniz", x, rhs])
        elif f < 0.9:
            a = rng.choice(["+=", "+=", "+=", "-=", "*=", "/="])
            eqs.append(f"{x}{rng.choice([' ', ''])}{a}{rng.choice([' ', ''])}{rhs}"); meta.append(["aug", x, rhs])
        elif f < 0.94:
            eqs.append(rng.choice(["r + 1", "2*r", "-x/tau + r", "x <= 3", "r == 2", "a*(b + c) - d", "r >= k"])); meta.append(["noassign", "", ""])
        else:
            eqs.append(rng.choice([f"d/dt * {x} += {rhs}", f"{x}' += {rhs}", f"{x}' -= {rhs}", f"d/dt*{x} *= 2"])); meta.append(["de_aug", x, rhs])
    return dict(kind="lhs", eqs=eqs, meta=meta)


RESERVED = ["y", "dy", "source_idx", "target_idx", "pi", "I", "E", "S", "Q", "O", "N", "oo", "zoo", "nan", "beta", "gamma", "Beta", "Gamma",
            "exp", "log", "sin", "cos", "tan", "cot", "sec", "csc", "sinh", "cosh", "tanh", "sqrt", "abs"]


def gen_names_case(rng):
    """check_vname: names a variable may not have (reserved names, reserved parts) next to names that only look like them"""
    parts = ["_buffer", "_delays", "_maxdelay", "_idx", "_hist"]
    names = []
    for _ in range(6):
        f = rng.random()
        if f < 0.3:
            names.append(rng.choice(RESERVED))
        elif f < 0.55:
            names.append(rng.choice(["r", "v", "k", "x1"]) + rng.choice(parts) + rng.choice(["", "0", "_a"]))
        elif f < 0.75:
            names.append(rng.choice(["yy", "dy2", "pi2", "e", "s", "n", "Exp", "expo", "sine", "r_id", "hist", "r_buf", "idx", "delays", "x_v1", "weight", "t"]))
        else:
            names.append(rng.choice(POOL))
    return dict(kind="names", names=[n for n in names if n != "x"])


FUNCS = ["index_1d", "index_2d", "index_range", "index_axis", "identity", "past"]


def gen_surg_case(rng):
    items = []
    atoms = ["r", "rr", "v", "x_v1", "1", "2", "weight", "0.5", "a_in0"]
    for _ in range(12):
        f = rng.choice(FUNCS)
        nargs = rng.randint(1, 3)
        cls = rng.random()
        if cls < 0.6:
            args = ", ".join(rng.choice(atoms) for _ in range(nargs)); atomic = True
        elif cls < 0.85:
            args = rng.choice(["a*(b + k)", "r + rr", "(r + rr)*2, 1", "sin(r), 1", "v, (k + 1)"]); atomic = False
        else:
            args = None; atomic = False
        pre = rng.choice(["", "r*", "(r + rr)*", "2*re" if rng.random() < 0.3 else "k + ", "-", "sin(r) + "])
        post = rng.choice(["", "*(a + b)", " + (r + 1)", "*" + f + "(" + (args or "v") + ")", " - other(" + rng.choice(atoms) + ")", ")*2"])
        repl = rng.choice(["v[1]", "v[1:3]", "r", "v_hist0", "(r + rr)", "A[:, 2]"])
        if args is None:
            expr = (pre + f + "(" + rng.choice(atoms)).replace(")", "")   # no closing parenthesis anywhere
            items.append([expr, f, repl, None])
        else:
            expr = pre + f + "(" + args + ")" + post
            items.append([expr, f, repl, [pre, args, post] if atomic and (f + "(") not in pre else None])
    return dict(kind="surg", items=items)


def gen_call_case(rng):
    lhs = "x"
    names = rng.sample(["r", "rr", "k", "weight", "x_v1"], 3)
    vecs = {"v": [dy_val(rng) for _ in range(4)], "w": [dy_val(rng) for _ in range(4)]}
    a, b, c = names
    i, j = rng.randint(0, 3), rng.randint(0, 3)
    cls = rng.random()
    if cls < 0.7:
        s = rng.choice([f"index(v, {i})*{a} - x", f"({a} + {b})*index(v, {i}) + index(w,{j})*({c}+1)", f"index(v, {i})*({a} + {b})^2",
                        f"{a}*({b}+index(v,{i}))", f"index(v,{i}) + index(v,{i})*{a}", f"index(v, {i})*index(w, {j})",
                        f"index( w , {j} ) / 4 + ({a} + 2*index(v,{i}))*{b}", f"-index(v,{i})^2*{c}", f"no_op({a})*({b} + {c})",
                        f"index(v,{i}) + {a}*index(w, {j})^2", f"{a} - index(v,{i})", f"{a} - 2*index(v,{i})*{b}",
                        f"index( w , {j} ) / 4 - ({a} - index(v,{i}))*{b}", f"({a}-index(v,{i}))*{c} - index(w,{j})^2",
                        f"no_op({a} + {b})*2", f"{c} - no_op({a} - {b})*{a}", f"-index(v,{i}) - index(w,{j})/2",
                        f"absv({a} - {b})*{c}", f"maxi({a}, {b}) - mini({c}, 0.5)", f"absv(-{a}) + maxi(index(v,{i}),{b})"])
        expect = "value"
    elif cls < 0.74:
        # functions applied to numeric literals only: NameError until D151
        s = rng.choice([f"maxi(2, 3)*{a}", f"absv(-2.5) + {a}", f"mini(0.5, 2)*{a} - maxi(1,{b})", f"{a}*absv( -0.75 ) - maxi(1.5,0.25)^2"])
        expect = "value" if "D151" in FIXED else "NameError"
    elif cls < 0.78:
        # round = numpy.round (half to even): TypeError at sympify until D152
        s = rng.choice([f"round({a}*2.5)", f"round({a}) + round(-{b}*0.5)", f"round({a}/4)*{c}", f"{c} - round( {a} + {b} )"])
        expect = "value" if "D152" in FIXED else "TypeError"
    elif cls < 0.84:
        # helper call inside a divisor (repaired by D63; w holds powers of two so that the values are exact)
        vecs["w"] = [dy_val(rng, True) for _ in range(4)]
        s = rng.choice([f"{a}/index(w,{j})", f"({a} + {b})/index(w, {j})*{c}", f"x - {a}/index(w,{j})", f"{a}/index(w,{j})^2 + {b}",
                        f"{a}/(index(w,{j})*index(w,{i}))", f"{a}/index(w,{j}) + {b}/index(w,{j})"])
        pts = []
        for _ in range(4):
            p = {nm: dy_val(rng) for nm in names}; p[lhs] = dy_val(rng); pts.append(p)
        return dict(kind="call", lhs=lhs, eq=f"{lhs}' = {s}", s=s, pts=pts, vecs=vecs, expect="value")
    elif cls < 0.93:
        s = rng.choice([f"index(v + w, {i})", f"index(v*{a}, {i}) + {b}", f"{a}*index(w - v, {j})"]); expect = "KeyError"
    else:
        s = rng.choice([f"no_op({a}*({b} + {c}))", f"{a} + no_op(({b} + {c})*{a})"]); expect = "SyntaxError"
    pts = []
    for _ in range(4):
        p = {nm: dy_val(rng) for nm in names}; p[lhs] = dy_val(rng); pts.append(p)
    return dict(kind="call", lhs=lhs, eq=f"{lhs}' = {s}", s=s, pts=pts, vecs=vecs, expect=expect)


def gen_vec_case(rng, k=None):
    """index helpers on small vectors and matrices, vector-valued right-hand sides (component-wise meaning in Lang.eval)"""
    p, q = rng.sample(["r", "k", "weight", "x_v1"], 2)
    a, b, i, j, i2 = rng.randint(0, 1), rng.randint(0, 2), rng.randint(0, 2), rng.randint(0, 2), rng.randint(0, 2)
    c1 = rng.choice(["2.5e-1", ".5", "2", "+1.5", "1e0"])
    pick = (lambda l: l[k % len(l)]) if k is not None else rng.choice     # the first cases walk through every template
    s, n = pick([
        (f"index_range(v, {a}, {a + 2})*{p} - x", 2), (f"index_range( v,{a},{a + 3} ) ** 2 * {c1} - x*{q}", 3),
        (f"index_axis(v)*{p} + w", 4), (f"index_2d(A, {i}, {j})*{p} - x", 0), (f"index_axis(A, {j}, 1)*{q} - x", 3),
        (f"index(A, {i}) + x*{p}", 3), (f"index_range(v,{a},{a + 2}) + index_range(w, {b}, {b + 2})*index(v,{i})", 2),
        (f"v*{p} - w^2", 4), (f"index_2d(A,{i},{j})*index_range(v,1,4) - index(A,{i2})", 3),
        (f"{c1}*index_2d( A , {i} , {j} )^2 - ({p} - index_2d(A,{j},{i}))*{q}", 0), (f"+index(A,{i})*{c1} - index_axis(A, {j}, 1)", 3)])
    ints, b_err = {}, None
    if rng.random() < 0.25 and not (k is not None and k < 11):
        # a slice bound given by an integer constant: TypeError at compile time until D153 (direct evaluation works)
        nv = rng.randint(2, 3)
        tpl = rng.randrange(3)
        if tpl == 0:
            s, n, nv = f"index_range(v, {a}, n)*{p} - x", 2, a + 2
        elif tpl == 1:
            s, n = f"index_range(w, 1, n+1) + x*{q}", nv
        else:
            s, n = f"index_range(v, n - 2, n)*{c1} - index_range(w,{b},{b + 2})", 2
        ints = {"n": nv}
        b_err = None if "D153" in FIXED else "TypeError"
    fg = None
    if not ints and not (k is not None and k < 11) and rng.random() < 0.08:
        # recorded finding F6: a slice of exactly one element written into a one-element state variable (ValueError, loud)
        s, n, fg = f"index_range(v, {a}, {a + 1})*{p} - x", 1, "no_unit_slice"
    scal = {p: dy_val(rng), q: dy_val(rng)}
    vecs = {"v": [dy_val(rng) for _ in range(4)], "w": [dy_val(rng) for _ in range(4)]}
    mats = {"A": [[dy_val(rng) for _ in range(3)] for _ in range(3)]}
    x0 = [dy_val(rng) for _ in range(max(n, 1))]
    return dict(kind="vec", eq=f"x' = {s}", s=s, n=n, scal=scal, vecs=vecs, mats=mats, x0=x0, ints=ints, b_err=b_err, finding_guard=fg)


CONSTS = ["3/8", "1/(2*4)", "2^-3", "2**-2*3", "0.75*0.5", "(1+2)/4", "3/8 - 1/4", "-5/16", "1/4 + 1/8", "(3/2)^2/2", "7/2^3", "10/4",
          "1e1/16", ".5/4", "3/4*1/2", "-(1/2)^3", "1/2 - 1/8 + 1/32", "5/(2*2*2)", "2", "0.5", "6/3", "3/2", "0.375", "-7/4"]
CONST_FOLD = ["(1/4 + 1/8)*r", "r*(3/8) - 1/2^2", "r/4 + 3/8", "(3/2)^2*r - 5/16"]


def gen_const_case(rng):
    """equations whose whole right-hand side is a number (or folds to one next to a variable): rationals, products and powers of
    literals, in both derivative notations and as an algebraic assignment; exact dyadic values"""
    items = []
    for _ in range(6):
        fold = rng.random() < 0.2
        s = rng.choice(CONST_FOLD if fold else CONSTS)
        if rng.random() < 0.3:
            s = s.replace("^", "**").replace("/", " / ")
        items.append(dict(s=s, form=rng.choice(["prime", "ddt", "alg"]), r=dy_val(rng)))
    return dict(kind="const", items=items)


FORT = ["{a} + 1/8", "x^2*3/4 + 7/2 - {a}*(1/8 + x)", "2^-3 + {a}", "({a} + 1/4)^2 - 5/16", "x*(3/2) - 1/2^2", "{a}*3/8 + x/4 - 0.75",
        "{a}*(1 - 3/4) + x", "7/2 - x", "{a}^2/8 + 0.5*x"]


def gen_fort_case(rng, k):
    """rational constants in an equation compiled by the Fortran backend (C05 and C02; repaired by D117): exact dyadic values"""
    a = rng.choice(["r", "k", "weight"])
    s = FORT[k % len(FORT)].format(a=a)
    return dict(kind="fort", eq=f"x' = {s}", s=s, pt={a: dy_val(rng), "x": dy_val(rng)}, fname=f"c05ft_{k}_{rng.randrange(10**6)}")


def compare_fort(ctx, cases, outs, tag):
    bad, terms, idx, raised = [], [], [], []
    for i, (c, o) in enumerate(zip(cases, outs)):
        if isinstance(o, dict):
            raised.append(i); continue           # an exception is never the silent finding F7
        terms.append(clist([f"({cqs(c['pt'])}, [], {cstr(c['s'])}, [{cq(o[0])}])"])); idx.append(i)
    if terms:
        l = coq_lists(ctx, f"c05_fort_{tag}", f"Definition cases : list (list item) := {clist(terms)}.\n", ["mismatches ok_items cases"])
        bad += [idx[j] for j in l[0]]
    g = coq_lists(ctx, f"c05_fortg_{tag}", f"Definition ss : list string := {clist([cstr(c['s']) for c in cases])}.\n",
                  ["mismatches (fun s => guard_const_fraction (s2l s)) ss"])[0]
    return sorted(bad), g, raised


EXTREME_ARGS = ["1e-30", "1e-8", "1", "30", "88", "89", "100", "700", "710", "1e4", "1e30"]
EXTREME_FUNCS = ["sigmoid", "tanh", "exp", "log", "sqrt", "absv", "sin", "cos", "sinh", "cosh"]
BOUNDED = {"sigmoid", "tanh", "sin", "cos"}


def gen_extreme_cases():
    """every transcendental / saturating backend function at +-{1e-30 .. 1e30}, float32 and float64 (deterministic)"""
    cases = []
    for f in EXTREME_FUNCS:
        for prec in ("float32", "float64"):
            args = EXTREME_ARGS + ([] if f in ("log", "sqrt") else ["-" + a for a in EXTREME_ARGS])
            cases.append(dict(kind="extreme", f=f, prec=prec, args=args))
    return cases


def compare_extreme(cases, outs):
    """-> (broken, off): broken = non-finite value where the reference is finite and representable, a wrong infinity, or an
    exception (exact facts: they decide); off = finite values outside the tolerance (notes only)"""
    import mpmath, numpy as np
    mpmath.mp.dps = 60
    ref = dict(sigmoid=lambda x: 1 / (1 + mpmath.exp(-x)), tanh=mpmath.tanh, exp=mpmath.exp, log=mpmath.log, sqrt=mpmath.sqrt,
               absv=abs, sin=mpmath.sin, cos=mpmath.cos, sinh=mpmath.sinh, cosh=mpmath.cosh)
    broken, off = [], []
    for i, (c, o) in enumerate(zip(cases, outs)):
        dt = np.float32 if c["prec"] == "float32" else np.float64
        fi = np.finfo(dt)
        rtol = 4e-6 if dt is np.float32 else 1e-12
        bad = None
        for path in ("a", "b"):
            if isinstance(o, dict) and isinstance(o.get(path), list):
                for v, got in zip(c["args"], o[path]):
                    x = float(dt(float(v)))                       # the argument the code actually sees
                    r = ref[c["f"]](mpmath.mpf(x))
                    rep = abs(r) <= mpmath.mpf(float(fi.max))
                    if got in ("nan", "inf", "-inf"):
                        if got == "nan" or rep or c["f"] in BOUNDED or (got == "inf") != (r > 0):
                            bad = bad or f"{c['f']}({v}) [{c['prec']}, path {path}] = {got}, reference {mpmath.nstr(r, 8)}"
                    elif not rep:
                        bad = bad or f"{c['f']}({v}) [{c['prec']}, path {path}] = {float.fromhex(got)}, reference overflows"
                    else:
                        g = float.fromhex(got)
                        if abs(mpmath.mpf(g) - r) > rtol * abs(r) + float(fi.tiny):
                            off.append(f"{c['f']}({v}) [{c['prec']}, {path}] = {g} vs {mpmath.nstr(r, 12)}")
            else:
                bad = bad or f"{c['f']} [{c['prec']}, path {path}]: {str(o.get(path) if isinstance(o, dict) else o)[:160]}"
        if bad:
            broken.append((i, bad))
    return broken, off


TIME_ARG_FUNCS = ["sin", "cos", "tan", "tanh", "sinh", "cosh", "exp", "arctan", "sigmoid"]


def gen_support_case(rng):
    names = rng.sample(["r", "rr", "k", "weight", "x_v1", "tau"], 3)
    a, b, c = names
    s = rng.choice([f"sin({a})*{b} - exp(-{c}^2)", f"pi*{a} + E^2*{b}", f"exp({a}*{b}) / (1 + {c}^2)", f"sqrt({a}^2 + 1)*cos(pi*{b})",
                    f"tanh({a} + {b})**2 - {c}/pi", f"sin(cos({a}))*E - {b}", f"exp(1)*{a} - E*{b} + {c}", f"exp(-({a}-{b})^2/2)/sqrt(2*pi)",
                    f"sigmoid({a} - {b})*{c}", f"sigmoid(0.5)*{a} - {b}",
                    # a hyperbolic function next to its circular counterpart (one import list per model)
                    f"sinh({a}*{b}) - sin({c})", f"tanh({a}*{b})*tan({c}/4)", f"cos({a})/cosh({b}*{c})", f"cos(2*cosh({a})) + sin({b}) - sinh({b})",
                    # a right-hand side that is a pure number but not a float literal
                    "1/(2*pi)", "E^2/4 - 0.5", "pi/4 - 1/3", "sqrt(2)/2", "exp(1)/3 + 1/7", "2/3"])
    timearg = False
    if rng.random() < 0.3:
        # a function of the language applied to `t - c` (t is a declared constant of the operator, 0 at every point): textually the delay
        # notation x(t-d), which the parser must leave alone for function names (seed C05-m8)
        f = rng.choice(TIME_ARG_FUNCS)
        cst = rng.choice(["0.5", "0.25", "2", a])
        s = rng.choice([f"{f}(t - {cst})*{b} + {c}", f"{f}(t-{cst}) - {b}", f"{c}*{f}( t - {cst} )", f"{f}(t - {cst}) + {f}(t - {b})"])
        timearg = True
    if not any(n in s for n in names):
        return dict(kind="support", lhs="x", eq=rng.choice([f"x' = {s}", f"d/dt * x = {s}"]), s=s, pts=[{"x": "0"}] * 4, expect_err=None)
    expect_err = "NameError" if "sigmoid(0.5)" in s and "D151" not in FIXED else None
    pts = []
    for _ in range(4):
        p = {nm: str(Fr(rng.randint(-12, 12), 8)) for nm in names}; p["x"] = "0"
        if timearg:
            p["t"] = "0"
        pts.append(p)
    return dict(kind="support", lhs="x", eq=f"x' = {s}", s=s, pts=pts, expect_err=expect_err)


def nontrivial(case):
    return case["kind"] == "expr" and depth_of(tuple_ast(case["ast"])) >= 2 and len(idents(tuple_ast(case["ast"]))) >= 2


def tuple_ast(e):
    return tuple(tuple_ast(x) if isinstance(x, (list, tuple)) else x for x in e)


# ====================================================================================================== model side
HEADER = """From Coq Require Import List ZArith QArith Qcanon Bool Ascii String.
From PV Require Import Lang Corr.
Import ListNotations.
Open Scope string_scope.
Definition envq (l : list (string * Qc)) : list (str * Qc) := map (fun p => (s2l (fst p), snd p)) l.
Definition venvq (l : list (string * list Qc)) : list (str * list Qc) := map (fun p => (s2l (fst p), snd p)) l.
(* item: environment, vectors, string, values the real code returned (all must equal the Coq value of the string) *)
Definition item := (list (string * Qc) * list (string * list Qc) * string * list Qc)%type.
Definition ok_item (it : item) : bool :=
  let '(env, venv, s, exp) := it in
  let v := eval_string (envq env) (venvq venv) (s2l s) in
  match v with None => false | Some _ => forallb (fun x => oq_eqb v (Some x)) exp end.
Definition ok_items (l : list item) : bool := forallb ok_item l.
Definition value_of (it : item) : option Qc := let '(env, venv, s, _) := it in eval_string (envq env) (venvq venv) (s2l s).
Definition same_value (l : list item) : bool :=
  match l with [] => true | it :: r => forallb (fun j => oq_eqb (value_of it) (value_of j)) r end.
(* vec item: scalars, vectors, matrices, string, per component the values the real code returned *)
Definition vitem := (list (string * Qc) * list (string * list Qc) * list (string * list (list Qc)) * string * list (list Qc))%type.
Fixpoint ok_comps (env : list (str * Qc)) (venv : list (str * list Qc)) (menv : list (str * list (list Qc))) (s : str) (k : nat)
  (l : list (list Qc)) : bool :=
  match l with
  | [] => true
  | exp :: r => let v := eval_ctx (mkctx env venv menv k) s in
                match v with None => false | Some _ => forallb (fun x => oq_eqb v (Some x)) exp end && ok_comps env venv menv s (S k) r
  end.
Definition ok_vitem (it : vitem) : bool :=
  let '(env, venv, menv, s, exp) := it in
  ok_comps (envq env) (venvq venv) (map (fun p => (s2l (fst p), snd p)) menv) (s2l s) 0 exp.
Definition LEIB : bool := @LEIB@.
Definition ok_lhs (p : string * (string * string * bool * string * string)) : bool :=
  let '(s, (lhs, key, de, rhs, asg)) := p in eqn_eqb (classify_gen LEIB (s2l s)) (s2l lhs) (s2l key) de (s2l rhs) (s2l asg).
(* an exception: TypeError (false) must be predicted as CRaises, ValueError (true) as CValueError *)
Definition raises_lhs (p : string * bool) : bool :=
  match classify_gen LEIB (s2l (fst p)), snd p with CRaises, false => true | CValueError, true => true | _, _ => false end.
Definition spec_lhs (p : string * (string * string * bool * string * string)) : bool :=
  let '(x, (lhs, key, de, rhs, asg)) := p in str_eqb (s2l lhs) (s2l x) && str_eqb (s2l key) (s2l x) && de && str_eqb (s2l asg) (s2l "=").
Definition ok_name (p : string * bool) : bool := Bool.eqb (vname_ok (s2l (fst p))) (snd p).
Definition ok_surg (p : string * string * string * string) : bool :=
  let '(e, f, r, out) := p in ostr_eqb (process_func_call (s2l e) (s2l f) (s2l r)) (Some (s2l out)).
Definition spec_surg (p : string * string * string * string * string * string) : bool :=
  let '(pre, f, args, post, r, out) := p in
  str_eqb (s2l out) ((s2l pre ++ s2l r ++ py_replace (s2l f ++ ["("%char] ++ s2l args ++ [")"%char]) (s2l r) (s2l post))%list).
"""


HEADER = HEADER.replace("@LEIB@", "true" if "D154" in FIXED else "false")


def cqs(d):
    return clist([f"({cstr(k)}, {cq(v)})" for k, v in sorted(d.items())])


def cvecs(d):
    return clist([f"({cstr(k)}, {clist([cq(x) for x in v])})" for k, v in sorted((d or {}).items())])


B_POINTS = {"pair": [0, 1, 2, 3], "pre": [0, 2], "multi": [0, 2]}


def spelling_items(case, sp, o):
    """Coq items of one spelling: per point the values of path a (points 0,1) and of the generated code (layout points)"""
    bp = B_POINTS[sp.get("layout", "pair")]
    items = {}
    for p in range(4):
        exp = ([o["b"][bp.index(p)]] if p in bp else []) + ([o["a"][p]] if p < 2 else [])
        if exp:
            items[p] = f"({cqs(case['pts'][p])}, [], {cstr(sp['s'])}, {clist([cq(x) for x in exp])})"
    return items


def coq_lists(ctx, tag, defs, evals, shard_note=""):
    out = coq_eval(ctx, tag, HEADER, defs + "\n" + "\n".join(f"Eval vm_compute in ({e})." for e in evals))
    ls = parse_nat_lists(out)
    assert len(ls) == len(evals), out[:600]
    return ls


def compare_expr(ctx, cases, outs, tag):
    """-> (bad, notsame, chain): bad = {case index: [spelling indices whose real values differ from the Coq value of the string]};
    notsame = cases whose spellings do not all have the same Coq value at some point (a harness printer error, never a verdict);
    chain = (case index, spelling index) in the multi-source layout whose doubly fed input `a` meets a user variable a_v1 in the
    same operator: violates the guard no_label_chain (C01-D22b)"""
    bad, notsame, chain = {}, [], []
    shard = 40
    for s in range(0, len(cases), shard):
        cs, os_ = cases[s:s + shard], outs[s:s + shard]
        units, owner, same, gch = [], [], [], []
        for ci, (c, o) in enumerate(zip(cs, os_)):
            per_point = {}
            for si, (sp, oo) in enumerate(zip(c["spellings"], o)):
                its = spelling_items(c, sp, oo)
                units.append(clist(list(its.values()))); owner.append((ci, si))
                for p, it in its.items():
                    per_point.setdefault(p, []).append(it)
            same.append(clist([clist(v) for v in per_point.values()]))
            for sp in c["spellings"]:
                dup = {"multi": c.get("u")}.get(sp.get("layout", "pair"))
                gch.append(f"({cstr(dup or 'x')}, {cstr(sp['s'] if dup else '0')})")
        defs = (f"Definition cases : list (list item) := {clist(units)}.\n"
                f"Definition same : list (list (list item)) := {clist(same)}.\n"
                f"Definition gch : list (string * string) := {clist(gch)}.\n")
        l = coq_lists(ctx, f"c05_expr_{tag}_{s}", defs, ["mismatches ok_items cases", "mismatches (forallb same_value) same",
                                                          "mismatches (fun p => guard_chain (s2l (fst p)) (s2l (snd p))) gch"])
        for j in l[0]:
            ci, si = owner[j]
            bad.setdefault(s + ci, []).append(si)
        notsame += [s + i for i in l[1]]
        chain += [(s + owner[j][0], owner[j][1]) for j in l[2]]
    return bad, notsame, chain


def lhs_terms(case, out):
    ok, raises, spec = [], [], []
    for eq, m, o in zip(case["eqs"], case["meta"], out):
        if isinstance(o, dict):
            raises.append((eq, o.get("type")))
        else:
            t = f"({cstr(o[0])}, {cstr(o[1])}, {cbool(o[2])}, {cstr(o[3])}, {cstr(o[4] if o[4] else '')})"
            ok.append(f"({cstr(eq)}, {t})")
            if m[0] == "doc":
                spec.append(f"({cstr(m[1])}, {t})")
    return ok, raises, spec


def compare_lhs(ctx, cases, outs, tag):
    """-> (bad_impl, bad_spec) case indices"""
    terms_ok, terms_spec, terms_r, unexpected = [], [], [], []
    for i, (c, o) in enumerate(zip(cases, outs)):
        ok, raises, spec = lhs_terms(c, o)
        terms_ok.append(clist(ok)); terms_spec.append(clist(spec))
        terms_r.append(clist([f"({cstr(eq)}, {cbool(ty == 'ValueError')})" for eq, ty in raises]))
        if any(ty not in ("TypeError", "ValueError") for eq, ty in raises) or any(m[0] == "doc" and isinstance(r, dict) for m, r in zip(c["meta"], o)):
            unexpected.append(i)
    T = "(string * (string * string * bool * string * string))"
    defs = (f"Definition oks : list (list {T}) := {clist(terms_ok)}.\n"
            f"Definition specs : list (list {T}) := {clist(terms_spec)}.\n"
            f"Definition rs : list (list (string * bool)) := {clist(terms_r)}.\n")
    l = coq_lists(ctx, f"c05_lhs_{tag}", defs, ["mismatches (forallb ok_lhs) oks", "mismatches (forallb spec_lhs) specs",
                                                  "mismatches (forallb raises_lhs) rs"])
    return sorted(set(l[0]) | set(l[2])), sorted(set(l[1]) | set(unexpected))


def compare_const(ctx, cases, outs, tag):
    terms, bad = [], []
    for i, (c, o) in enumerate(zip(cases, outs)):
        its = []
        for it, r in zip(c["items"], o):
            if isinstance(r, dict) and "a" not in r or isinstance(r["a"], dict) or isinstance(r["b"], dict):
                bad.append(i); continue
            env = f"[({cstr('r')}, {cq(it['r'])})]"
            if it["form"] == "alg":
                its.append(f"({env}, [], {cstr(it['s'])}, [{cq(r['a'])}])")
                its.append(f"({env}, [], {cstr('(' + it['s'] + ')+r')}, [{cq(r['b'])}])")
            else:
                its.append(f"({env}, [], {cstr(it['s'])}, [{cq(r['a'])}; {cq(r['b'])}])")
        terms.append(clist(its))
    l = coq_lists(ctx, f"c05_const_{tag}", f"Definition cases : list (list item) := {clist(terms)}.\n", ["mismatches ok_items cases"])
    return sorted(set(bad) | set(l[0]))


def compare_names(ctx, cases, outs, tag):
    terms, bad = [], []
    for i, (c, o) in enumerate(zip(cases, outs)):
        ts = []
        for v, r in zip(c["names"], o):
            if r == "accepted":
                ts.append(f"({cstr(v)}, true)")
            elif isinstance(r, dict) and r.get("type") == "PyRatesException":
                ts.append(f"({cstr(v)}, false)")
            else:
                bad.append(i)
        terms.append(clist(ts))
    l = coq_lists(ctx, f"c05_names_{tag}", f"Definition cases : list (list (string * bool)) := {clist(terms)}.\n", ["mismatches (forallb ok_name) cases"])
    return sorted(set(bad) | set(l[0]))


def compare_surg(ctx, cases, outs, tag):
    t_ok, t_spec, crashed = [], [], []
    for i, (c, o) in enumerate(zip(cases, outs)):
        ok, spec = [], []
        for it, r in zip(c["items"], o):
            if isinstance(r, dict):
                crashed.append(i); continue
            ok.append(f"({cstr(it[0])}, {cstr(it[1])}, {cstr(it[2])}, {cstr(r)})")
            if it[3] is not None:
                pre, args, post = it[3]
                spec.append(f"({cstr(pre)}, {cstr(it[1])}, {cstr(args)}, {cstr(post)}, {cstr(it[2])}, {cstr(r)})")
        t_ok.append(clist(ok)); t_spec.append(clist(spec))
    defs = (f"Definition oks : list (list (string * string * string * string)) := {clist(t_ok)}.\n"
            f"Definition specs : list (list (string * string * string * string * string * string)) := {clist(t_spec)}.\n")
    l = coq_lists(ctx, f"c05_surg_{tag}", defs, ["mismatches (forallb ok_surg) oks", "mismatches (forallb spec_surg) specs"])
    return l[0], l[1], sorted(set(crashed))


def compare_call(ctx, cases, outs, tag):
    """value cases: exact comparison with Lang.eval (index on vectors); error cases: the error class must be the predicted one"""
    bad, terms, idx = [], [], []
    for i, (c, o) in enumerate(zip(cases, outs)):
        if c["expect"] == "value":
            if isinstance(o, dict):
                bad.append(i); continue
            its = [f"({cqs(c['pts'][p])}, {cvecs(c['vecs'])}, {cstr(c['s'])}, [{cq(o[p])}])" for p in range(4)]
            terms.append(clist(its)); idx.append(i)
        elif not (isinstance(o, dict) and o.get("type") == c["expect"]):
            bad.append(i)
    if terms:
        l = coq_lists(ctx, f"c05_call_{tag}", f"Definition cases : list (list item) := {clist(terms)}.\n", ["mismatches ok_items cases"])
        bad += [idx[j] for j in l[0]]
    g = coq_lists(ctx, f"c05_callg_{tag}", f"Definition ss : list string := {clist([cstr(c['s']) for c in cases])}.\n",
                  ["mismatches (fun s => guard_divisor (s2l s)) ss"])[0]
    return sorted(bad), g


def compare_vec(ctx, cases, outs, tag):
    bad, terms, idx = [], [], []
    for i, (c, o) in enumerate(zip(cases, outs)):
        if isinstance(o, dict) and ("a" not in o):
            bad.append(i); continue
        if c.get("b_err"):
            if not (isinstance(o["b"], dict) and o["b"].get("type") == c["b_err"]) or isinstance(o["a"], dict):
                bad.append(i); continue
        elif isinstance(o["a"], dict) or isinstance(o["b"], dict):
            bad.append(i); continue
        n = max(c["n"], 1)
        venv = dict(c["vecs"])
        env = dict(c["scal"]); env.update({k: str(v) for k, v in c.get("ints", {}).items()})
        if c["n"]:
            venv["x"] = c["x0"]
        else:
            env["x"] = c["x0"][0]
        menv = clist([f"({cstr(k)}, {clist([clist([cq(x) for x in r]) for r in m])})" for k, m in sorted(c["mats"].items())])
        exp = clist([clist([cq(o["a"][k])] + ([] if c.get("b_err") else [cq(o["b"][k])])) for k in range(n)])
        terms.append(f"({cqs(env)}, {cvecs(venv)}, {menv}, {cstr(c['s'])}, {exp})"); idx.append(i)
    if terms:
        l = coq_lists(ctx, f"c05_vec_{tag}", f"Definition cases : list vitem := {clist(terms)}.\n", ["mismatches ok_vitem cases"])
        bad += [idx[j] for j in l[0]]
    g = coq_lists(ctx, f"c05_vecg_{tag}", f"Definition ss : list string := {clist([cstr(c['s']) for c in cases])}.\n",
                  ["mismatches (fun s => guard_unit_slice (s2l s)) ss"])[0]
    return sorted(bad), g


def coq_reading(ctx, strings, tag):
    """fully parenthesised text of the Coq reading of each string (None when outside the language)"""
    body = "\n".join(f"Eval vm_compute in (match parse (s2l {cstr(s)}) with Some e => string_of_list_ascii (print full e) | None => \"?\" end)."
                     for s in strings)
    out = coq_eval(ctx, f"c05_read_{tag}", HEADER, body)
    res = re.findall(r'=\s*"([^"]*)"\s*:\s*string', out.replace("\n", " "))
    assert len(res) == len(strings), out[:500]
    return [None if r == "?" else re.sub(r"\s+", "", r) for r in res]


def compare_support(ctx, cases, outs, tag):
    reads = coq_reading(ctx, [c["s"] for c in cases], tag)
    ns = dict(sin=math.sin, cos=math.cos, exp=math.exp, sqrt=math.sqrt, tanh=math.tanh, pi=math.pi, E=math.e,
              sigmoid=lambda x: 1. / (1. + math.exp(-x)), sinh=math.sinh, cosh=math.cosh, tan=math.tan, arctan=math.atan, t=0.0)
    off = []
    for i, (c, o, rd) in enumerate(zip(cases, outs, reads)):
        if rd is None or isinstance(o, dict):
            off.append(i); continue
        for p in range(4):
            try:
                ref = eval(rd, {"__builtins__": {}}, dict(ns, **_vals(c["pts"][p])))
            except Exception:
                off.append(i); break
            if abs(ref - o[p]) > 1e-12 * max(1.0, abs(ref)):
                off.append(i); break
    return off


def show_case(ctx, case, out):
    d = dict(implementation_output=out)
    try:
        if case["kind"] == "expr" and not isinstance(out, dict):
            its = [f"({cqs(case['pts'][p])}, [], {cstr(sp['s'])}, [])" for sp in case["spellings"] for p in range(4)]
            d["model_values(spelling x point)"] = coq_eval(ctx, "c05_show", HEADER, f"Eval vm_compute in (map value_of {clist(its)}).")[:3000]
        elif case["kind"] == "call":
            its = [f"({cqs(case['pts'][p])}, {cvecs(case['vecs'])}, {cstr(case['s'])}, [])" for p in range(4)]
            d["model_values"] = coq_eval(ctx, "c05_show", HEADER, f"Eval vm_compute in (map value_of {clist(its)}).")[:3000]
    except Exception as e:
        d["model_values"] = f"(failed: {e})"
    return d


# ====================================================================================================== check
def crashed_expr(o):
    return isinstance(o, dict) or any(isinstance(x["b"], dict) or any(isinstance(a, dict) for a in x["a"]) for x in o)


def shrink_expr(ctx, case):
    """keep only the spellings that fail (one is enough to replay)"""
    best = case
    for sp in case["spellings"]:
        cand = dict(case, spellings=[sp])
        o = run_impl(ctx, "c05", "impl", [cand], nworkers=1)[0]
        if crashed_expr([o] if isinstance(o, dict) else o) or compare_expr(ctx, [cand], [o], "shr")[0]:
            return cand
    return best


def witness_fails(ctx, f):
    """re-run the committed witness of a known finding on the real code: True if it still disagrees"""
    c = json.load(open(os.path.join(VERIF, f["witness"])))
    o = run_impl(ctx, "c05", "impl", [c], nworkers=1)[0]
    if c["kind"] == "expr":
        return crashed_expr(o) or bool(compare_expr(ctx, [c], [o], "wit")[0])
    if c["kind"] == "call":
        return bool(compare_call(ctx, [c], [o], "wit")[0])
    if c["kind"] == "vec":
        return bool(compare_vec(ctx, [c], [o], "wit")[0])
    if c["kind"] == "fort":
        return bool(compare_fort(ctx, [c], [o], "wit")[0])
    return isinstance(o, dict)


def check(ctx):
    pr = proof_gate(ctx, NEEDS)
    problem = proof_problem(pr)
    quick = ctx.tier == "quick"
    n_expr, n_lhs, n_surg, n_call, n_sup, n_vec, n_nm, n_const = (130, 12, 12, 48, 24, 40, 6, 8) if quick else (3000, 150, 150, 700, 300, 600, 80, 100)
    n_fort = 5 if quick else 36
    if problem:
        n_expr *= 3
    if ctx.replay:
        rp = json.load(open(ctx.replay))
        cases = [rp["case"]] if "case" in rp else []
    else:
        cases = (load_corpus("C05") + [gen_expr_case(ctx.rng) for _ in range(n_expr)] + [gen_lhs_case(ctx.rng) for _ in range(n_lhs)]
                 + [gen_surg_case(ctx.rng) for _ in range(n_surg)] + [gen_call_case(ctx.rng) for _ in range(n_call)]
                 + [gen_support_case(ctx.rng) for _ in range(n_sup)] + [gen_vec_case(ctx.rng, k) for k in range(n_vec)]
                 + [gen_names_case(ctx.rng) for _ in range(n_nm)] + [gen_const_case(ctx.rng) for _ in range(n_const)] + gen_extreme_cases()
                 + [gen_fort_case(ctx.rng, k + (ctx.seed % len(FORT))) for k in range(n_fort)])
    outs = run_impl(ctx, "c05", "impl", cases, per_case_timeout=120)
    K = lambda k: [i for i, c in enumerate(cases) if c["kind"] == k]
    bad_spec, bad_impl, crashed, guard_viol = [], [], [], {}
    crashed += [i for i, o in enumerate(outs) if isinstance(o, dict) and o.get("err") in ("worker-died", "timeout", "exception")]
    # --- expr
    def chain_py(c, k):
        sp = c["spellings"][k]
        dup = {"multi": c.get("u")}.get(sp.get("layout", "pair"))
        ids = idents(tuple_ast(c["ast"]))
        return bool(dup) and dup in ids and (dup + "_v1") in ids
    def failed_spellings(o):
        return [k for k, x in enumerate(o) if isinstance(x["b"], dict) or any(isinstance(a, dict) for a in x["a"])] if not isinstance(o, dict) else []
    ie = [i for i in K("expr") if i not in crashed]
    gsh = set()
    if ie:
        canon_s = [cases[i].get("canon") or cases[i]["spellings"][0]["s"] for i in ie]
        for s0 in range(0, len(ie), 400):
            l = coq_lists(ctx, f"c05_gsh_{s0}", f"Definition ss : list string := {clist([cstr(x) for x in canon_s[s0:s0 + 400]])}.\n",
                          ["mismatches (fun s => guard_shared (s2l s)) ss"])[0]
            gsh |= {ie[s0 + j] for j in l}
    cr = [i for i in ie if crashed_expr(outs[i])]
    crashed += cr
    for i in cr:
        fs = failed_spellings(outs[i])
        gl = []          # no guard is left: every class is decided (the name-collision class was repaired by D84)
        if gl:
            guard_viol[i] = gl
    ie = [i for i in ie if i not in cr]
    b, notsame, chain = compare_expr(ctx, [cases[i] for i in ie], [outs[i] for i in ie], "main") if ie else ({}, [], [])
    assert not notsame, f"harness printer produced spellings with different Coq values: {[cases[ie[j]]['spellings'] for j in notsame[:2]]}"
    assert sorted(chain) == sorted((j, k) for j, i in enumerate(ie) for k in range(len(cases[i]["spellings"])) if chain_py(cases[i], k)), \
        "guard no_label_chain: Coq and harness disagree"
    for j, bad_sp in b.items():
        i = ie[j]
        bad_spec.append(i); bad_impl.append(i)
        gl = []          # no guard is left (D84)
        if gl:
            guard_viol[i] = gl
    n_eval = sum(len(B_POINTS[sp.get("layout", "pair")]) + 2 for i in ie for sp in cases[i]["spellings"])
    lay = {l: sum(1 for i in ie for sp in cases[i]["spellings"] if sp.get("layout", "pair") == l) for l in B_POINTS}
    ctx.note(f"expr: {len(ie)} expressions x 3 spellings, layouts {lay}, {n_eval} evaluations (2 direct + 2..4 generated-code per spelling); "
             f"mismatching cases {len(b)}, raised {len(cr)}; multi-source name collisions (a doubly fed input a next to a user a_v1, decided since D84): {len(chain)} spellings "
             f"(repeated/contained sub-expressions, repaired by D80 and deciding: q*B^a + q*B^b in {len(gsh)} expressions, sibling containment per sympy in "
             f"{sum(1 for i in ie + cr if not isinstance(outs[i], dict) and any(x.get('sib') for x in outs[i]))})")
    # --- lhs
    il = [i for i in K("lhs") if i not in crashed]
    if il:
        bi, bs = compare_lhs(ctx, [cases[i] for i in il], [outs[i] for i in il], "main")
        bad_impl += [il[j] for j in bi]; bad_spec += [il[j] for j in bs]
        ctx.note(f"lhs: {sum(len(cases[i]['eqs']) for i in il)} equations; model mismatches {len(bi)}, documented forms not (x, DE, r): {len(bs)}")
    # --- surgery
    isg = [i for i in K("surg") if i not in crashed]
    if isg:
        bi, bs, crs = compare_surg(ctx, [cases[i] for i in isg], [outs[i] for i in isg], "main")
        bad_impl += [isg[j] for j in bi]; bad_spec += [isg[j] for j in bs]; crashed += [isg[j] for j in crs]
        ctx.note(f"surg: {sum(len(cases[i]['items']) for i in isg)} calls of _process_func_call; model mismatches {len(bi)}, atomic-argument results wrong {len(bs)}")
    # --- helper calls through the generated code
    ic = [i for i in K("call") if i not in crashed]
    if ic:
        b, g = compare_call(ctx, [cases[i] for i in ic], [outs[i] for i in ic], "main")
        for j in b:
            bad_spec.append(ic[j]); bad_impl.append(ic[j])
        ctx.note(f"call: {len(ic)} equations with index()/no_op() helpers; disagreements {len(b)}; helper call inside a divisor: {len(g)} equations")
    # --- index helpers on vectors / matrices, vector-valued right-hand sides, both paths
    iv = [i for i in K("vec") if i not in crashed]
    if iv:
        b, g = compare_vec(ctx, [cases[i] for i in iv], [outs[i] for i in iv], "main")
        assert sorted(g) == [j for j, i in enumerate(iv) if cases[i].get("finding_guard") == "no_unit_slice"], "guard no_unit_slice: Coq and generator disagree"
        for j in g:
            guard_viol[iv[j]] = ["no_unit_slice"]
        for j in b:
            bad_spec.append(iv[j]); bad_impl.append(iv[j])
        ctx.note(f"vec: {len(iv)} equations with index/index_range/index_axis/index_2d on vectors and matrices "
                 f"({sum(max(cases[i]['n'], 1) for i in iv)} components x 2 paths); disagreements {len(b)}")
    # --- rational constants on the Fortran backend
    ifo = [i for i in K("fort") if i not in crashed]
    if ifo:
        b, g, rz = compare_fort(ctx, [cases[i] for i in ifo], [outs[i] for i in ifo], "main")
        crashed += [ifo[j] for j in rz]
        # no guard: the class (Lang.no_const_fraction false) is repaired by D117 and decided
        for j in b:
            bad_spec.append(ifo[j]); bad_impl.append(ifo[j])
        ctx.note(f"fort: {len(ifo)} equations with rational constants through the Fortran backend; disagreements {len(b)} "
                 f"(guard no_const_fraction false on {len(g)})")
    # --- backend functions at extreme arguments (support stream; non-finite where a finite value exists is exact and decides)
    ix = [i for i in K("extreme") if i not in crashed]
    if ix:
        broken, offx = compare_extreme([cases[i] for i in ix], [outs[i] for i in ix])
        for j, why in broken:
            crashed.append(ix[j]); ctx.note(f"extreme: {why}")
        ctx.note(f"extreme: {len(ix)} function x precision models, {sum(len(cases[i]['args']) for i in ix)} arguments x 2 paths; "
                 f"non-finite or wrong infinity: {len(broken)}; outside the tolerance (not deciding): {len(offx)}" + (f": {offx[:3]}" if offx else ""))
    # --- right-hand sides that are pure numbers
    ico = [i for i in K("const") if i not in crashed]
    if ico:
        b = compare_const(ctx, [cases[i] for i in ico], [outs[i] for i in ico], "main")
        for j in b:
            bad_spec.append(ico[j]); bad_impl.append(ico[j])
        ctx.note(f"const: {sum(len(cases[i]['items']) for i in ico)} equations whose right-hand side is a pure number (x' =, d/dt * x =, algebraic; both paths); disagreements {len(b)}")
    # --- variable names (check_vname)
    inm = [i for i in K("names") if i not in crashed]
    if inm:
        b = compare_names(ctx, [cases[i] for i in inm], [outs[i] for i in inm], "main")
        for j in b:
            bad_spec.append(inm[j]); bad_impl.append(inm[j])
        ctx.note(f"names: {sum(len(cases[i]['names']) for i in inm)} variable names through OperatorTemplate/check_vname vs Lang.vname_ok; disagreements {len(b)}")
    # --- support: values never decide (tolerance); an exception does (it is exact)
    isu = [i for i in K("support") if i not in crashed]
    if isu:
        predicted = [i for i in isu if cases[i].get("expect_err") and isinstance(outs[i], dict) and outs[i].get("type") == cases[i]["expect_err"]]
        raised = [i for i in isu if i not in predicted and (isinstance(outs[i], dict) or cases[i].get("expect_err"))]
        crashed += raised
        isu = [i for i in isu if i not in raised and i not in predicted]
        off = compare_support(ctx, [cases[i] for i in isu], [outs[i] for i in isu], "main") if isu else []
        ctx.note(f"support stream (tolerance 1e-12, values not deciding): {len(isu)} transcendental expressions, {len(off)} outside the tolerance"
                 + (f": {[cases[isu[j]]['eq'] for j in off[:3]]}" if off else "") + f"; raised {len(raised)}")
    drop = [g for g in os.environ.get("VERIF_C05_DROP_GUARD", "").split(",") if g]     # validation of a candidate repair: class no longer excused
    if drop:
        guard_viol = {i: [g for g in gs if g not in drop] for i, gs in guard_viol.items()}
        ctx.note(f"guards dropped for this run: {drop}")
    bad_spec = sorted(set(bad_spec)); bad_impl = sorted(set(bad_impl)); crashed = sorted(set(crashed))
    conclude(ctx, cases=cases, impl_out=outs, bad_spec=bad_spec, bad_impl=bad_impl, crashed=crashed, problem=problem, guard_viol=guard_viol,
             spec_name="Lang.parse + Lang.eval on the same string (and Lang.classify / Lang.process_func_call for the string handling)",
             impl_name="Lang.classify / Lang.process_func_call",
             shrink=lambda c: shrink_expr(ctx, c) if c["kind"] == "expr" else c,
             show=lambda c: show_case(ctx, c, run_impl(ctx, "c05", "impl", [c], nworkers=1)[0]),
             witness_check=lambda f: witness_fails(ctx, f))
    ex = [cases[i] for i in K("expr")]
    nt = {canon(c["ast"]) for c in ex if nontrivial(c)}
    hist = dict(expr=len(ex), lhs_equations=sum(len(cases[i]["eqs"]) for i in K("lhs")), surgery_calls=sum(len(cases[i]["items"]) for i in K("surg")),
                repairs_assumed_in_tree=sorted(FIXED), variable_names=sum(len(cases[i]["names"]) for i in K("names")),
                helper_call_equations=len(K("call")), support=len(K("support")), vector_helper_equations=len(K("vec")),
                depth={d: sum(1 for c in ex if depth_of(tuple_ast(c["ast"])) == d) for d in range(1, 5)},
                generated_looking_pairs=sum(1 for c in ex if any(n + "_v1" in c["names"] + [c["lhs"]] for n in c["names"] + [c["lhs"]])),
                lhs_names=sorted({c["lhs"] for c in ex}))
    sample = dict(ex[0], ast="...") if ex else {}
    write_evidence(ctx, evaluations=n_eval, distinct_nontrivial=len(nt),
                   rule="random polynomial ASTs of depth <= 4 over 2-5 identifiers from a pool with prefixes/suffixes/generated-looking names, "
                        "each in 3 spellings (spacing, ^ vs **, redundant parentheses, commuted operands, literal variants, repeated sub-expressions), "
                        "both derivative notations, direct evaluation + generated code of three circuit layouts (two nodes with the same operator, a node "
                        "preceded by another owner of the variable name, an input fed by two operators), 2-4 dyadic points; an expression is non-trivial when its depth is >= 2 and it "
                        "mentions >= 2 distinct identifiers; distinct = distinct AST",
                   samples=[sample], extra=dict(input_distribution=hist, impl_vs_spec_mismatches=len(bad_spec), impl_vs_model_mismatches=len(bad_impl)),
                   trusted_base=["float64 arithmetic is exact on the generated dyadic data (bit budget <= 44 bits per expression; results compared as exact rationals)",
                                 "sympy (sympify, printing, lambdify) is opaque: tied only by this run"],
                   assumptions=["deciding stream: polynomial expressions, division by powers of two, natural exponents 2..3",
                                "transcendental functions and the constants pi, E: support stream with tolerance 1e-12, never deciding",
                                "comparison operators and x(t-d) are outside Lang.parse; index_range/index_axis/index_2d only with literal indices on vectors / matrices"])
