"""C20 — unsupported requests fail loudly instead of returning numbers.
Model: coq/theories/Guards.v (`impl` = outcome of a request as the code produces it, `WellFormed`/`meets_spec` = the
property); theorems: coq/properties/C20.v.
Tie (E1): every probe is run on the real code (result / PyRatesWarning / exception class) and on the model inside Coq:
  * the WHOLE matrix backend x solver x vectorize x delay kind x sparse x inplace_vectorfield x entry point
    (run / get_run_func / get_jacobian_func) for the in-process backends default, torch, jax; for Fortran every row
    that is refused before compilation plus a seeded sample of the rows that reach f2py (all of them when thorough);
  * malformed variants of a pool of valid models (declared name deleted, path component of an edge / output / input /
    update_var / node_values target misspelt, reserved name, two outputs, operator cycle);
  * direct probes of check_vname (strings), NetworkGraph._verify_path (paths), NodeTemplate.apply (node-level values,
    random operator graphs)."""
import json, os, re, copy, itertools
from concurrent.futures import ThreadPoolExecutor
from core import *

NEEDS = ["Guards", "GuardsProofs", "Corr", "SolverEquiv", "Gen_validate_solver", "Gen_solve_dispatch"]   # SolverEquiv: E2 tie of _validate_solver/_solve
BACKENDS = ["default", "torch", "jax", "fortran"]
SOLVERS = ["euler", "heun", "scipy", "diffrax", "other"]
DELAYS = ["none", "discrete", "spread", "past"]
ENTRIES = ["run", "func", "jac"]
GUARDS = ["guard_path_not_attr", "guard_node_value_not_circuit", "guard_backend_documented", "guard_solver_checked_at_entry"]
MIXED = ["mix_ds", "mix_sd", "pop_ds", "pop_sd"]
POP_MIXED = ["pop_ds", "pop_sd"]

# ---------------------------------------------------------------------------------------------- pool of valid models
def pool():
    A = dict(name="A",
             ops={"oa": dict(equations=["r' = (-r + m_in)/tau"], variables={"r": "output(0.25)", "m_in": "input(0.0)", "tau": 2.0}),
                  "ob": dict(equations=["m = k*r + u"], variables={"m": "output(0.0)", "r": "input(0.0)", "k": 0.5, "u": "input(0.0)"})},
             nodes={"p1": dict(ops=["oa", "ob"], values={}), "p2": dict(ops=["oa", "ob"], values={"oa/tau": 4.0})},
             edges=[["p1/ob/m", "p2/oa/m_in", {"weight": 0.5}], ["p2/ob/m", "p1/oa/m_in", {"weight": 0.25}]],
             outputs={"r1": "p1/oa/r", "r2": "p2/oa/r"}, inputs=["p1/ob/u"], update={"p2/oa/tau": 3.0},
             node_values={"p1/ob/k": 0.75})
    B = dict(name="B",
             ops={"o1": dict(equations=["v' = -v + s_in + g*i_ext"],
                             variables={"v": "output(0.5)", "s_in": "input(0.0)", "i_ext": "input(0.0)", "g": 1.0})},
             nodes={"a": dict(ops=["o1"], values={}), "b": dict(ops=["o1"], values={"o1/g": 2.0})},
             edges=[["a/o1/v", "b/o1/s_in", {"weight": 0.5, "delay": 0.25}], ["b/o1/v", "a/o1/s_in", {"weight": 0.5}]],
             outputs={"va": "a/o1/v"}, inputs=["b/o1/i_ext"], update={"a/o1/g": 1.5}, node_values={"b/o1/g": 0.5})
    # two operators of one node in the SAME layer of the operator graph (no dependency between them) that share the
    # parameter names k and c: a name deleted from one of them is still declared by its sibling
    C = dict(name="C",
             ops={"oc": dict(equations=["x' = -k*x + c + x_in"], variables={"x": "output(1.0)", "x_in": "input(0.0)", "k": 2.0, "c": 0.5}),
                  "od": dict(equations=["z' = -k*z + c*w"], variables={"z": "output(0.5)", "w": "input(0.0)", "k": 3.0, "c": 0.25})},
             nodes={"q1": dict(ops=["oc", "od"], values={}), "q2": dict(ops=["oc", "od"], values={"od/k": 1.5})},
             edges=[["q1/oc/x", "q2/od/w", {"weight": 0.5}], ["q2/od/z", "q1/oc/x_in", {"weight": 0.25}]],
             outputs={"x1": "q1/oc/x", "z2": "q2/od/z"}, inputs=["q1/od/w"], update={"q2/oc/k": 1.0}, node_values={"q1/od/c": 0.75})
    # the same with the operators declared in the other order in every node (which of the two is parsed later decides
    # whether a deleted name could be borrowed from the sibling)
    Cr = copy.deepcopy(C); Cr["name"] = "Cr"
    Cr["ops"] = {k: Cr["ops"][k] for k in ("od", "oc")}
    for d in Cr["nodes"].values():
        d["ops"] = ["od", "oc"]
    return [A, B, C, Cr]

def hier_pool():
    """hierarchical circuits of depth 1 and 2 over one leaf circuit (nodes a, b with operator o1)"""
    def leaf(tag):
        return dict(name="leaf" + tag,
                    ops={"o1": dict(equations=["v' = -v + s_in + g*i_ext"],
                                    variables={"v": "output(0.5)", "s_in": "input(0.0)", "i_ext": "input(0.0)", "g": 1.0})},
                    nodes={"a": dict(ops=["o1"], values={}), "b": dict(ops=["o1"], values={})},
                    edges=[["a/o1/v", "b/o1/s_in", {"weight": 0.5}]])
    def mid(tag, t1, t2):
        return dict(name="mid" + tag, circuits={"c1": leaf(t1), "c2": leaf(t2)}, edges=[["c1/b/o1/v", "c2/a/o1/s_in", {"weight": 0.5}]])
    H1 = dict(name="H1", depth=1, circuits={"c1": leaf("1"), "c2": leaf("2")},
              edges=[["c1/b/o1/v", "c2/a/o1/s_in", {"weight": 0.5}], ["c2/b/o1/v", "c1/a/o1/s_in", {"weight": 0.25}]],
              outputs={"v": "c1/a/o1/v"}, inputs=["c1/a/o1/i_ext"], update={"c2/a/o1/g": 2.0}, node_values={"c1/b/o1/g": 2.0})
    H2 = dict(name="H2", depth=2, circuits={"m1": mid("1", "1", "2"), "m2": mid("2", "3", "4")},
              edges=[["m1/c2/b/o1/v", "m2/c1/a/o1/s_in", {"weight": 0.5}]],
              outputs={"v": "m1/c1/a/o1/v"}, inputs=["m1/c1/a/o1/i_ext"], update={"m2/c1/a/o1/g": 2.0},
              node_values={"m1/c2/b/o1/g": 2.0})
    return [H1, H2]

def hnet_of(m, prefix=()):
    """[(full key of the node, [(op, [vars])])] of a hierarchical model"""
    if m.get("circuits"):
        out = []
        for k, sub in m["circuits"].items():
            out += hnet_of(sub, prefix + (k,))
        return out
    return [[list(prefix) + [n], [[o, list(m["ops"][o]["variables"])] for o in d["ops"]]] for n, d in m["nodes"].items()]

def hier_mutants(m, rng, tier):
    """every component (circuit levels, node, operator, variable) of every top-level edge endpoint, output, input,
    update_var and node_values target misspelt; plus the unmutated model per kind"""
    out = []
    def mk(hkind, detail, mm, use, path):
        out.append(dict(t="mutant", kind="hier", hkind=hkind, detail=detail, base=m["name"], depth=m["depth"], model=mm, use=list(use), path=path))
    n = m["depth"] + 3
    mk("HOutput", "valid", copy.deepcopy(m), (), list(m["outputs"].values())[0])
    mk("HInput", "valid", copy.deepcopy(m), ("inputs",), m["inputs"][0])
    mk("HUpdate", "valid", copy.deepcopy(m), ("update",), list(m["update"])[0])
    mk("HNodeValue", "valid", copy.deepcopy(m), ("node_values",), list(m["node_values"])[0])
    for i in range(n):
        for ei, (s_, t_, e) in enumerate(m["edges"]):
            for which, p in ((0, s_), (1, t_)):
                mm = copy.deepcopy(m); mm["edges"][ei][which] = misspell(p, i)
                mk("HEdge", f"{ei}:{which}:{i}", mm, (), mm["edges"][ei][which])
        for k, p in m["outputs"].items():
            mm = copy.deepcopy(m); mm["outputs"][k] = misspell(p, i)
            mk("HOutput", f"{k}:{i}", mm, (), mm["outputs"][k])
        p = m["inputs"][0]
        mm = copy.deepcopy(m); mm["inputs"] = [misspell(p, i)]
        mk("HInput", f"{i}", mm, ("inputs",), mm["inputs"][0])
        p, val = list(m["update"].items())[0]
        mm = copy.deepcopy(m); mm["update"] = {misspell(p, i): val}
        mk("HUpdate", f"{i}", mm, ("update",), misspell(p, i))
        p, val = list(m["node_values"].items())[0]
        mm = copy.deepcopy(m); mm["node_values"] = {misspell(p, i): val}
        mk("HNodeValue", f"{i}", mm, ("node_values",), misspell(p, i))
    # keys that are one level too short for the hierarchy (one component dropped): the node part then names a circuit
    # (or nothing) instead of a node
    for hkind, use, p in (("HOutput", (), list(m["outputs"].values())[0]), ("HInput", ("inputs",), m["inputs"][0]),
                          ("HUpdate", ("update",), list(m["update"])[0]), ("HNodeValue", ("node_values",), list(m["node_values"])[0])):
        parts = p.split("/")
        for i in range(len(parts)):
            q = "/".join(parts[:i] + parts[i + 1:])
            mm = copy.deepcopy(m)
            if hkind == "HOutput": mm["outputs"] = {"v": q}
            if hkind == "HInput": mm["inputs"] = [q]
            if hkind == "HUpdate": mm["update"] = {q: 2.0}
            if hkind == "HNodeValue": mm["node_values"] = {q: 2.0}
            mk(hkind, f"short:{i}", mm, use, q)
    res = []
    for mu in out:
        for vec in ([False, True] if tier == "thorough" else [rng.random() < 0.5]):
            res.append(dict(mu, vec=vec))
    return res

def matrix_model(dl):
    """the probe model of the configuration matrix, one per delay kind.  mix_ds / mix_sd: one plain `delay` edge and one
    `delay`+`spread` edge from two different source variables; the node declaration order decides which of the two is
    processed first by NetworkGraph._preprocess_edge_operations (ds: the plain-delay edge first)."""
    if dl == "past":
        op = dict(equations=["v' = -v + k*past(v, tau) + s_in"], variables={"v": "output(0.5)", "s_in": "input(0.0)", "k": 0.5, "tau": 0.25})
    else:
        op = dict(equations=["v' = -v + s_in"], variables={"v": "output(0.5)", "s_in": "input(0.0)"})
    ed_ab, ed_ba = {"weight": 0.5}, {"weight": 0.5}
    if dl in ("discrete", "spread", "mix_ds", "mix_sd"):
        ed_ab["delay"] = 0.25; ed_ba["delay"] = 0.25
    if dl == "spread":
        ed_ab["spread"] = 0.125
    if dl in ("spread", "mix_ds", "mix_sd"):
        ed_ba["spread"] = 0.125
    order = ["b", "a"] if dl == "mix_sd" else ["a", "b"]
    return dict(name="M" + dl, ops={"o1": op}, nodes={n: dict(ops=["o1"], values={}) for n in order},
                edges=[["a/o1/v", "b/o1/s_in", ed_ab], ["b/o1/v", "a/o1/s_in", ed_ba]],
                outputs={"v": "a/o1/v"}, inputs=[], update={}, node_values={})

def net_of(m):
    """abstract network of a model description: [(node, [(op, [vars])])]"""
    return [[n, [[o, list(m["ops"][o]["variables"])] for o in d["ops"]]] for n, d in m["nodes"].items()]

IDENT = re.compile(r"[A-Za-z_]\w*")
def identifiers(eqs):
    out = []
    for e in eqs:
        for x in IDENT.findall(e):
            if x not in out and x not in ("past", "t", "d", "dt"):
                out.append(x)
    return out

def vtype_of(spec):
    if isinstance(spec, str) and spec.startswith("output"):
        return "VOutput"
    if isinstance(spec, str) and spec.startswith("input"):
        return "VInput"
    return "VPlain"

# ---------------------------------------------------------------------------------------------- impl side (worker)
def _build(m, ops=None):
    from pyrates import CircuitTemplate, NodeTemplate, OperatorTemplate
    if m.get("circuits"):                                  # hierarchical: one shared operator template per name (D26)
        ops = ops if ops is not None else {}
        subs = {k: _build(sub, ops) for k, sub in m["circuits"].items()}
        return CircuitTemplate(name=m["name"], circuits=subs, edges=[(s, t, None, dict(e)) for s, t, e in m["edges"]])
    ops = ops if ops is not None else {}
    for k, v in m["ops"].items():
        if k not in ops:
            ops[k] = OperatorTemplate(name=k, equations=list(v["equations"]), variables=dict(v["variables"]))
    nodes = {}
    for n, d in m["nodes"].items():
        od = {}
        for o in d["ops"]:
            od[ops[o]] = {k.split("/")[1]: val for k, val in d["values"].items() if k.split("/")[0] == o}
        nodes[n] = NodeTemplate(name=n + "_t", operators=od)
    edges = [(s, t, None, dict(e)) for s, t, e in m["edges"]]
    return CircuitTemplate(name="c", nodes=nodes, edges=edges)

def _classify(e):
    return dict(r=type(e).__name__, msg=str(e)[:160].replace("\n", " "))

def _has_numbers(x):
    """True when the returned object contains at least one number"""
    import numpy as np
    try:
        if hasattr(x, "toarray"):
            x = x.toarray()
        if isinstance(x, (tuple, list)):
            return any(_has_numbers(y) for y in x)
        return np.asarray(x).size > 0
    except Exception:
        return True

_SOLVE_NAMES = {"_solve_euler": "MEuler", "_solve_heun": "MHeun", "_solve_scipy": "MScipy", "_solve_scipy_dde": "MScipy",
                "_solve_diffrax": "MDiffrax"}
def _record_solve(backend, rec):
    """wrap every `_solve_*` integration routine of the backend class (and of BaseBackend) with a recorder; returns the
    list of (class, name, original attribute) to restore.  Nothing in /repo is changed."""
    import importlib
    import pyrates.backend.base.base_backend as bb
    classes = [bb.BaseBackend]
    mod = {"torch": ("pyrates.backend.torch.torch_backend", "TorchBackend"), "jax": ("pyrates.backend.jax.jax_backend", "JaxBackend"),
           "fortran": ("pyrates.backend.fortran.fortran_backend", "FortranBackend")}.get(backend)
    if mod:
        classes.append(getattr(importlib.import_module(mod[0]), mod[1]))
    saved = []
    for cls in classes:
        for name, attr in list(cls.__dict__.items()):
            if name in _SOLVE_NAMES:
                static = isinstance(attr, staticmethod)
                f = attr.__func__ if static else attr
                def mk(f, name):
                    def w(*a, **k):
                        rec.append(_SOLVE_NAMES[name])
                        return f(*a, **k)
                    return w
                setattr(cls, name, staticmethod(mk(f, name)) if static else mk(f, name))
                saved.append((cls, name, attr))
    return saved

def _impl_config(case):
    res = _impl_config0(case)
    return res

def _build_population(dl):
    """PopulationTemplate of two units that projects onto itself through two delayed matrix Connectivity objects
    (NetworkGraph._add_matrix_delay): one with a plain delay (ring buffer under a fixed step), one with delay + spread
    (gamma-kernel chain); pop_ds: the plain-delay connection is listed (processed) first, pop_sd: the other order."""
    import numpy as np
    from pyrates import CircuitTemplate, NodeTemplate, OperatorTemplate
    from pyrates.frontend.template.population import PopulationTemplate, Connectivity
    op = OperatorTemplate(name="o1", equations=["v' = -v + s_in"], variables={"v": "output(0.5)", "s_in": "input(0.0)"})
    node = NodeTemplate(name="n_t", operators=[op])
    pop = PopulationTemplate(name="p", node=node, n=2)
    plain = Connectivity(source="p/o1/v", target="p/o1/s_in", weights=np.array([[0.0, 0.5], [0.5, 0.0]]), delays=0.25)
    spread = Connectivity(source="p/o1/v", target="p/o1/s_in", weights=np.array([[0.25, 0.0], [0.0, 0.25]]), delays=0.25, spread=0.125)
    conns = [plain, spread] if dl == "pop_ds" else [spread, plain]
    return CircuitTemplate(name="c", populations={"p": pop}, connections=conns)

_FCOUNT = [0]
def _impl_config0(case):
    import warnings
    import numpy as np
    m = matrix_model(case["dl"]) if case["dl"] not in POP_MIXED else dict(outputs={"v": "p/o1/v"})
    rec, saved = [], []
    kw = dict(backend=case["be"], vectorize=case["vec"], verbose=False, float_precision="float64")
    if not case["inplace"]:
        kw["inplace_vectorfield"] = False
    if case["be"] == "fortran":
        # a compiled extension module cannot be re-imported under the same name in one process (D29: the first model's
        # routine would be returned): every Fortran case gets its own module name
        _FCOUNT[0] += 1
        kw["file_name"] = f"fm{os.getpid()}_{_FCOUNT[0]}"
    with warnings.catch_warnings(record=True):
        warnings.simplefilter("always")
        try:
            c = _build(m) if case["dl"] not in POP_MIXED else _build_population(case["dl"])
            if case["en"] == "run":
                saved = _record_solve(case["be"], rec)
                r = c.run(simulation_time=1.0, step_size=0.125, solver=case["so"], outputs=dict(m["outputs"]), clear=True, **kw)
                out = np.asarray(r.values)
            elif case["en"] == "func":
                f, args, _, _ = c.get_run_func("f", 0.125, solver=case["so"], clear=False, **kw)
                out = f(*args)
            else:
                f, args, _, _ = c.get_jacobian_func("j", 0.125, solver=case["so"], sparse=case["sparse"], clear=False, **kw)
                out = f(*args)
            return dict(r="ok", numbers=_has_numbers(out), method=rec[0] if rec else None)
        except Exception as e:
            return dict(_classify(e), method=rec[0] if rec else None)
        finally:
            for cls, name, attr in saved:
                setattr(cls, name, attr)

def _impl_option(case):
    """one option value given as the caller would type it (near-miss spellings included); everything else valid.
    Observed: refusal class, or what actually ran (integration routine / backend class / dtype / scipy method)."""
    import warnings
    import numpy as np
    import scipy.integrate as si
    m = matrix_model("none")
    kind, v = case["kind"], case["v"]
    be = case.get("be", "default")
    args = dict(simulation_time=1.0, step_size=0.125, solver="euler", outputs=dict(m["outputs"]), clear=False, verbose=False,
                backend=be, vectorize=be != "fortran", float_precision="float64")
    if kind == "solver":
        args["solver"] = v
    elif kind == "backend":
        args["backend"] = v
    elif kind == "precision":
        args["float_precision"] = v
    elif kind == "method":
        args.update(solver="scipy", method=v)
    if be == "fortran":
        _FCOUNT[0] += 1
        args["file_name"] = f"fo{os.getpid()}_{_FCOUNT[0]}"
    rec, seen_method = [], []
    rec_be = args["backend"] if args["backend"] in ("torch", "jax", "fortran") else "default"
    saved = _record_solve(rec_be, rec)
    orig_ivp = si.solve_ivp
    def spy_ivp(*a, **k):
        seen_method.append(k.get("method", "RK45"))
        return orig_ivp(*a, **k)
    si.solve_ivp = spy_ivp
    try:
        with warnings.catch_warnings(record=True):
            warnings.simplefilter("always")
            try:
                c = _build(m)
                r = c.run(**args)
                vals = np.asarray(r.values)
                eff = {"solver": {"MEuler": "euler", "MHeun": "heun", "MScipy": "scipy", "MDiffrax": "diffrax"}.get(rec[0] if rec else None),
                       "backend": type(c._ir.graph.backend).__name__,
                       "precision": str(vals.dtype),
                       "method": str(seen_method[0]) if seen_method else None}[kind]
                return dict(r="ok", numbers=_has_numbers(vals), effect=eff)
            except Exception as e:
                return _classify(e)
    finally:
        si.solve_ivp = orig_ivp
        for cls, name, attr in saved:
            setattr(cls, name, attr)

def _impl_mutant(case):
    import warnings
    import numpy as np
    m, use = case["model"], case["use"]
    with warnings.catch_warnings(record=True) as w:      # local: the worker-wide ignore filter is restored afterwards
        warnings.simplefilter("always")
        try:
            c = _build(m)
            if "update" in use and m.get("update"):
                c.update_var(node_vars=dict(m["update"]))
            kw = {}
            if "node_values" in use and m.get("node_values"):
                kw["node_values"] = dict(m["node_values"])
            inputs = None
            if "inputs" in use and m.get("inputs"):
                inputs = {k: np.arange(9, dtype=float) / 8 for k in m["inputs"]}
            r = c.run(simulation_time=1.0, step_size=0.125, solver="euler", outputs=dict(m["outputs"]), inputs=inputs,
                      backend="default", vectorize=case["vec"], verbose=False, float_precision="float64", clear=True, **kw)
            res = dict(r="ok", numbers=_has_numbers(r.values), columns=[str(x) for x in r.columns])
        except Exception as e:
            res = _classify(e)
        warned = sorted({str(x.message)[:100] for x in w if "PyRatesWarning" in x.category.__name__})
    if res["r"] == "ok" and warned:
        res = dict(r="warn", warnings=warned, numbers=res["numbers"])
    return res

def _impl_vname(case):
    from pyrates.frontend.template.operator import check_vname
    try:
        check_vname(case["v"], "variable")
        return dict(r="ok")
    except Exception as e:
        return _classify(e)

def _impl_verify_path(case):
    """_verify_path is probed on the NetworkGraph in the state in which the code itself calls it: nodes added, first edge
    about to be added (NetworkGraph.__init__ -> add_edge -> _verify_path)."""
    import pyrates.ir.circuit as ic
    m = [x for x in pool() if x["name"] == case["model"]][0]
    state = {}
    orig = ic.NetworkGraph.add_edge
    def probe(net):
        desc = []
        for n in net.nodes:
            ops = []
            for o, data in net[n].op_graph.nodes(data=True):
                vs = data["variables"] if "variables" in data else data["operator"].variables
                ops.append([str(o), [str(v) for v in vs]])
            desc.append([str(n), ops])
        attrs = sorted({k for k in case["path"] if hasattr(net, k)})
        try:
            net._verify_path(*case["parts"])
            res = dict(r="ok")
        except Exception as e:
            res = _classify(e)
        res.update(net=desc, attrs=attrs)
        return res
    def spy(self, *a, **k):
        if "res" not in state:
            state["res"] = probe(self)
        return orig(self, *a, **k)
    ic.NetworkGraph.add_edge = spy
    try:
        c = _build(m)
        c.get_run_func("f", 0.125, backend="default", vectorize=False, verbose=False, clear=False)
    finally:
        ic.NetworkGraph.add_edge = orig
    return state["res"]

def _impl_node_apply(case):
    m = [x for x in pool() if x["name"] == case["model"]][0]
    c = _build(m)
    node = c.nodes[case["node"]]
    try:
        node.apply(values={f"{o}/{v}": 1.0 for o, v in case["updates"]})
        return dict(r="ok")
    except Exception as e:
        return _classify(e)

def _impl_edge_template(case):
    """an edge template whose operators are given as an operator graph: EdgeIR.output wants exactly one output operator"""
    import numpy as np
    from pyrates import CircuitTemplate, NodeTemplate, OperatorTemplate, EdgeTemplate
    op = OperatorTemplate(name="o1", equations=["v' = -v + s_in"], variables={"v": "output(0.5)", "s_in": "input(0.0)"})
    n = NodeTemplate(name="n_t", operators=[op])
    try:
        ops = []
        for o in case["ops"]:
            variables = {o["output"]: "output(0.0)", "w_" + o["name"]: 0.5}
            for i in o["inputs"]:
                variables[i] = "input(0.0)"
            eq = f"{o['output']} = w_{o['name']}*(" + " + ".join(o["inputs"]) + ")"
            ops.append(OperatorTemplate(name=o["name"], equations=[eq], variables=variables))
        et = EdgeTemplate(name="et", operators=ops)
        c = CircuitTemplate(name="c", nodes={"a": n, "b": n},
                            edges=[("a/o1/v", "b/o1/s_in", et, {"weight": 1.0}), ("b/o1/v", "a/o1/s_in", None, {"weight": 0.5})])
        r = c.run(simulation_time=1.0, step_size=0.125, solver="euler", outputs={"v": "b/o1/v"}, backend="default",
                  vectorize=case["vec"], verbose=False, clear=True)
        return dict(r="ok", numbers=_has_numbers(r.values))
    except Exception as e:
        return _classify(e)

def _impl_opgraph(case):
    from pyrates import NodeTemplate, OperatorTemplate
    ops = []
    for o in case["ops"]:
        variables = {o["output"]: "output(0.0)", "k_" + o["name"]: 1.0}
        for i in o["inputs"]:
            variables[i] = "input(0.0)"
        eq = f"{o['output']} = k_{o['name']}" + "".join(f" + {i}" for i in o["inputs"])
        ops.append(OperatorTemplate(name=o["name"], equations=[eq], variables=variables))
    try:
        NodeTemplate(name="nd", operators=ops).apply()
        return dict(r="ok")
    except Exception as e:
        return _classify(e)

_CLEAN = [False]
def impl(case):
    from pyr import reset_pyrates
    if not _CLEAN[0]:                # a fresh worker, or the previous reset failed: every case leaves the caches reset
        reset_pyrates()
    _CLEAN[0] = False
    try:
        return {"config": _impl_config, "mutant": _impl_mutant, "vname": _impl_vname, "verify_path": _impl_verify_path,
                "node_apply": _impl_node_apply, "opgraph": _impl_opgraph, "option": _impl_option, "edge_template": _impl_edge_template}[case["t"]](case)
    finally:
        reset_pyrates()
        _CLEAN[0] = True

# ---------------------------------------------------------------------------------------------- generators
def config_cases(rng, tier):
    cases = []
    for be, so, vec, dl, ip, en in itertools.product(BACKENDS, SOLVERS, [False, True], DELAYS, [True, False], ENTRIES):
        for sp in ([False, True] if en == "jac" else [False]):      # `sparse` is a parameter of get_jacobian_func only
            cases.append(dict(t="config", be=be, so=so, vec=vec, dl=dl, sparse=sp, inplace=ip, en=en))
    # mixed delay kinds in one model (plain-delay edge and delay+spread edge), both processing orders
    for be, so, vec, dl, en in itertools.product(BACKENDS, SOLVERS, [False, True], MIXED, ENTRIES):
        cases.append(dict(t="config", be=be, so=so, vec=vec, dl=dl, sparse=False, inplace=True, en=en))
    inproc = [c for c in cases if c["be"] != "fortran"]
    f_early = [c for c in cases if c["be"] == "fortran" and c["vec"]]          # refused before compilation
    f_late = [c for c in cases if c["be"] == "fortran" and not c["vec"]]       # reach f2py (about 6 s each)
    if tier == "quick":
        # always: one row that runs through FortranBackend._solve and one that is refused there after compilation
        keep = [c for c in f_late if c["dl"] == "none" and c["inplace"] and c["en"] == "run" and c["so"] in ("euler", "other")]
        f_late = keep + rng.sample([c for c in f_late if c not in keep], 2)
    return inproc, f_early + f_late

def near_misses(name):
    """spellings a caller could type for `name`: case variants, surrounding whitespace, a character missing / too many"""
    out = [name, name.capitalize(), name.upper(), name.lower(), name.swapcase(), " " + name, name + " ", " " + name + " ", name[:-1],
           name[1:], name + "2", name + "x", name + name[-1]]
    seen, res = set(), []
    for x in out:
        if x not in seen:
            seen.add(x); res.append(x)
    return res

def option_cases(rng, tier):
    """every supported value of every validated string option, with its near-miss spellings, '' and None"""
    cases = []
    solver_strings = []
    for n in ("euler", "heun", "scipy", "diffrax"):
        solver_strings += near_misses(n)
    solver_strings += ["", None, "rk4", "RK45", "Euler ", "odeint"]
    for be in ("default", "torch", "jax"):
        for v in solver_strings:
            cases.append(dict(t="option", kind="solver", be=be, v=v))
    fort = [dict(t="option", kind="solver", be="fortran", v=v) for v in solver_strings]
    cases += fort if tier == "thorough" else rng.sample(fort, 2)
    backend_strings = []
    for n in ("default", "numpy", "torch", "jax", "fortran", "julia"):
        backend_strings += near_misses(n)
    backend_strings += ["", None, "tensorflow", "jaxx", "cuda", "matlab"]
    for v in backend_strings:
        if v == "fortran":
            continue                     # the exact name is the Fortran part of the matrix (vectorize=False, own module names)
        cases.append(dict(t="option", kind="backend", be=v if v in ("torch", "jax") else "default", v=v))
    prec = []
    for n in ("float64", "float32", "float16", "double", "float"):
        prec += near_misses(n)
    for v in prec + ["", None]:
        cases.append(dict(t="option", kind="precision", be="default", v=v))
    meth = []
    for n in ("RK45", "RK23", "DOP853", "Radau", "BDF", "LSODA"):
        meth += near_misses(n)
    for v in meth + ["", None, "euler"]:
        cases.append(dict(t="option", kind="method", be="default", v=v))
    seen, res = set(), []
    for c in cases:
        k = canon(c)
        if k not in seen:
            seen.add(k); res.append(c)
    return res

def edge_template_cases(rng, n):
    """operator graphs of an edge template: chains / diamonds (one output operator), several output operators, cycles.
    Every operator has at least one input; the first one takes the edge input e_in."""
    E = lambda nm, i, o: dict(name=nm, inputs=i, output=o)
    fixed = [[E("e1", ["e_in"], "e_out")],
             [E("e1", ["e_in"], "e_mid"), E("e2", ["e_mid"], "e_out")],
             [E("e1", ["e_in"], "e_o1"), E("e2", ["e_in"], "e_o2")],
             [E("e1", ["e_in", "x2"], "x1"), E("e2", ["x1"], "x2")],
             [E("e1", ["e_in"], "m1"), E("e2", ["m1"], "m2"), E("e3", ["m1"], "m3"), E("e4", ["m2", "m3"], "e_out")]]
    out = [dict(t="edge_template", ops=ops, vec=vec) for ops in fixed for vec in (False, True)]
    for _ in range(n):
        k = rng.randint(2, 4)
        ops = [E("e1", ["e_in"], "y1")]
        for j in range(2, k + 1):
            prev = [f"y{i}" for i in range(1, j)]
            ins = rng.sample(prev, rng.randint(1, len(prev))) if rng.random() < 0.8 else ["e_in"]
            ops.append(E(f"e{j}", ins, f"y{j}"))
        if rng.random() < 0.2:                       # close a cycle
            ops[0] = E("e1", ["e_in", f"y{k}"], "y1")
        out.append(dict(t="edge_template", ops=ops, vec=rng.random() < 0.5))
    return out

def misspell(path, i, how="x"):
    parts = path.split("/")
    parts[i] = parts[i] + "x" if how == "x" else how
    return "/".join(parts)

def mutants(m, rng, tier):
    out = []
    def mk(kind, detail, mm, use=(), **extra):
        out.append(dict(t="mutant", kind=kind, detail=detail, base=m["name"], model=mm, use=list(use), **extra))
    for o, d in m["ops"].items():                                   # every declared name deleted
        for vn in d["variables"]:
            mm = copy.deepcopy(m); del mm["ops"][o]["variables"][vn]
            mk("del_var", f"{o}/{vn}", mm, op=o)
    for ei, (s, t, e) in enumerate(m["edges"]):                     # every path component of every edge endpoint
        for which, p in ((0, s), (1, t)):
            for i in range(3):
                for how in (("x", "label") if i == 2 else ("x",)):
                    mm = copy.deepcopy(m); mm["edges"][ei][which] = misspell(p, i, how)
                    mk("edge", f"{ei}:{which}:{i}:{how}", mm, path=mm["edges"][ei][which])
    for k, p in m["outputs"].items():
        for i in range(3):
            mm = copy.deepcopy(m); mm["outputs"][k] = misspell(p, i)
            mk("output", f"{k}:{i}", mm)
    for p in m["inputs"]:
        for i in range(3):
            mm = copy.deepcopy(m); mm["inputs"] = [misspell(p, i)]
            mk("input", f"{p}:{i}", mm, use=("inputs",), path=mm["inputs"][0])
    for p, val in m["update"].items():
        for i in range(3):
            mm = copy.deepcopy(m); mm["update"] = {misspell(p, i): val}
            mk("update_var", f"{p}:{i}", mm, use=("update",), path=misspell(p, i))
    for p, val in m["node_values"].items():
        for i in range(3):
            mm = copy.deepcopy(m); mm["node_values"] = {misspell(p, i): val}
            mk("node_value", f"{p}:{i}", mm, use=("node_values",), path=misspell(p, i))
    for p, val in m["node_values"].items():                         # `all` broadcast: valid, operator misspelt, variable misspelt
        bp = "all/" + p.split("/", 1)[1]
        for q in (bp, misspell(bp, 1), misspell(bp, 2)):
            mm = copy.deepcopy(m); mm["node_values"] = {q: val}
            mk("node_value", f"{q}", mm, use=("node_values",), path=q)
    reserved = ["y", "dy", "source_idx", "target_idx", "pi", "I", "E", "S", "Q", "O", "N", "oo", "zoo", "nan", "beta", "gamma",
                "Beta", "Gamma", "exp", "log", "sin", "cos", "tan", "cot", "sec", "csc", "sinh", "cosh", "tanh", "sqrt", "abs",
                "q_buffer", "a_delays_0", "w_maxdelay", "a_idx_b", "x_hist"]
    for o, d in m["ops"].items():                                   # a reserved variable name
        for vn in d["variables"]:
            for new in (reserved if tier == "thorough" else rng.sample(reserved, 3)):
                mm = copy.deepcopy(m); od = mm["ops"][o]
                od["variables"] = {(new if k == vn else k): v for k, v in od["variables"].items()}
                od["equations"] = [re.sub(rf"\b{vn}\b", new, e) for e in od["equations"]]
                mk("reserved", f"{o}/{vn}->{new}", mm, op=o)
    for o, d in m["ops"].items():                                   # two outputs
        for vn, spec in d["variables"].items():
            if vtype_of(spec) != "VOutput":
                mm = copy.deepcopy(m); mm["ops"][o]["variables"][vn] = "output(0.0)"
                mk("two_outputs", f"{o}/{vn}", mm, op=o)
    if m["name"] == "A":                                            # operator cycle inside a node: oa <-> ob
        mm = copy.deepcopy(m); od = mm["ops"]["oa"]
        od["variables"] = {("m" if k == "m_in" else k): v for k, v in od["variables"].items()}
        od["equations"] = [re.sub(r"\bm_in\b", "m", e) for e in od["equations"]]
        mm["edges"] = [[s, t.replace("/oa/m_in", "/oa/m"), e] for s, t, e in mm["edges"]]
        mk("op_cycle", "oa<->ob", mm)
    for mu in out:
        mu["vec"] = None
    res = []
    for mu in out:
        both = tier == "thorough" or (mu["kind"] == "del_var" and m["name"] in ("C", "Cr"))   # sibling-declared names: both
        for vec in ([False, True] if both else [rng.random() < 0.5]):
            res.append(dict(mu, vec=vec))
    return res

def valid_cases():
    """the unmutated pool models: must return numbers (otherwise a mutant that raises proves nothing)"""
    out = []
    for m in pool():
        for vec in (False, True):
            for use in ((), ("inputs",), ("update",), ("node_values",)):
                out.append(dict(t="mutant", kind="valid", detail="/".join(use), base=m["name"], model=copy.deepcopy(m), use=list(use), vec=vec))
    return out

NAME_PARTS = ["_buffer", "_delays", "_maxdelay", "_idx", "_hist"]
NAMES = ["y", "dy", "source_idx", "target_idx", "pi", "I", "E", "S", "Q", "O", "N", "oo", "zoo", "nan", "beta", "gamma", "Beta",
         "Gamma", "exp", "log", "sin", "cos", "tan", "cot", "sec", "csc", "sinh", "cosh", "tanh", "sqrt", "abs"]
def vname_cases(rng, n):
    alpha = "abxyIEtd_019"
    word = lambda k: "".join(rng.choice(alpha) for _ in range(rng.randint(0, k)))
    out = [dict(t="vname", v=v) for v in NAMES + NAME_PARTS + ["", "t", "x", "_", "buffer", "_buf", "_hist_", "idx", "_id", "Y", "e", "i"]]
    for _ in range(n):
        r = rng.random()
        if r < 0.25:
            v = rng.choice(NAMES)
            v = rng.choice([v + word(2), word(2) + v, v.upper(), v.lower(), v[:-1], v + "_"])
        elif r < 0.6:
            p = rng.choice(NAME_PARTS)
            p = rng.choice([p, p, p[:-1], p[1:], p.upper(), p[:3] + "_" + p[3:]])
            v = word(3) + p + word(3)
        else:
            v = word(6)
        out.append(dict(t="vname", v=v))
    return out

def verify_path_cases(rng, n):
    out = []
    for m in pool():
        net = net_of(m)
        names = [nd[0] for nd in net] + [o[0] for nd in net for o in nd[1]] + [v for nd in net for o in nd[1] for v in o[1]]
        odd = ["label", "nodes", "edges", "graph", "x", "", "_h", "template"]
        valid = [[nd[0], o[0], v] for nd in net for o in nd[1] for v in o[1]]
        for _ in range(n):
            p = list(rng.choice(valid))[:rng.choice([1, 2, 3, 3, 3])]
            r = rng.random()
            if r < 0.6:
                i = rng.randrange(len(p))
                p[i] = rng.choice([p[i] + "x", rng.choice(names), rng.choice(odd)])
            elif r < 0.7:
                p = p + [rng.choice(names + odd)]
            # _verify_path joins its arguments with "/": call it the way the edge code does (node, "op/var") or with one string
            parts = [p[0], "/".join(p[1:])] if len(p) > 1 and rng.random() < 0.5 else ["/".join(p)]
            out.append(dict(t="verify_path", model=m["name"], path=p, parts=parts))
    return out

def node_apply_cases(rng, n):
    out = []
    for m in pool():
        for node, d in m["nodes"].items():
            good = [[o, v] for o in d["ops"] for v in m["ops"][o]["variables"] if not str(m["ops"][o]["variables"][v]).startswith(("input", "output"))]
            for _ in range(n):
                ups = rng.sample(good, rng.randint(0, min(2, len(good))))
                if rng.random() < 0.7:
                    ups = ups + [[rng.choice(["nope", d["ops"][0] + "x", "o"]), rng.choice(["k", "tau", "zz"])]]
                    rng.shuffle(ups)
                out.append(dict(t="node_apply", model=m["name"], node=node, updates=ups))
    return out

def opgraph_cases(rng, n):
    out = []
    for _ in range(n):
        k = rng.randint(1, 5)
        names = [f"q{i}" for i in range(k)]
        outs = [f"x{rng.randrange(k) if rng.random() < 0.15 else i}" for i in range(k)]
        ops = []
        for i in range(k):
            cand = [x for x in sorted(set(outs)) if x != outs[i]] + ["ext"]
            dens = rng.choice([0.2, 0.4, 0.7])
            ops.append(dict(name=names[i], inputs=[x for x in cand if rng.random() < dens], output=outs[i]))
        out.append(dict(t="opgraph", ops=ops))
    return out

# ---------------------------------------------------------------------------------------------- model side
HEADER = """From Coq Require Import List String Bool Arith.
From PV Require Import Guards Corr.
Import ListNotations.
Open Scope string_scope.
Open Scope list_scope.
Definition okI (c : probe * result) := result_eqb (impl (fst c)) (snd c).
Definition okS (c : probe * result) := meets_spec (fst c) (snd c).
Definition method_eqb (a b : method) : bool :=
  match a, b with MEuler, MEuler | MHeun, MHeun | MScipy, MScipy | MDiffrax, MDiffrax => true | _, _ => false end.
Definition okE (c : probe * option string) :=
  match fst c, snd c with
  | POption k v, Some e => match option_effect k v with Some e' => String.eqb e e' | None => false end
  | _, _ => false
  end.
Definition okD (c : config * method) :=
  method_eqb (solve_dispatch (be (fst c)) (so (fst c))) (snd c) &&
  match accepts (fst c), named_method (so (fst c)) with
  | Ok, Some m => method_eqb m (snd c)
  | Ok, None => false
  | _, _ => false      (* a refused configuration must not reach an integration routine *)
  end.
"""

def cpath(p):
    return clist([cstr(x) for x in p])
def cnet(net):
    return clist([f"({cstr(n)}, {clist([f'({cstr(o)}, {cpath(vs)})' for o, vs in ops])})" for n, ops in net])
def observed(res):
    r = res["r"]
    return {"ok": "Ok", "warn": "Warn", "PyRatesException": "Err EPyRates", "NotImplementedError": "Err ENotImpl"}.get(r, "Err EOther")

def probe_term(case, res):
    t = case["t"]
    if t == "config":
        be = {"default": "BDefault", "torch": "BTorch", "jax": "BJax", "fortran": "BFortran"}[case["be"]]
        so = {"euler": "SEuler", "heun": "SHeun", "scipy": "SScipy", "diffrax": "SDiffrax", "other": "SOther"}[case["so"]]
        dl = {"none": "DNone", "discrete": "DDiscrete", "spread": "DSpread", "past": "DPast"}.get(case["dl"])
        en = {"run": "ERun", "func": "EFunc", "jac": "EJac"}[case["en"]]
        if case["dl"] in MIXED:
            ctor = "PPopMixed" if case["dl"] in POP_MIXED else "PMixed"
            return f"{ctor} {be} {so} {cbool(case['vec'])} {cbool(case['dl'].endswith('_ds'))} {en}"
        return f"PConfig (mkc {be} {so} {cbool(case['vec'])} {dl} {cbool(case['sparse'])} {cbool(case['inplace'])} {en})"
    if t == "option":
        bmap = {"default": "BDefault", "torch": "BTorch", "jax": "BJax", "fortran": "BFortran"}
        k = {"solver": f"(OSolver {bmap.get(case.get('be'), 'BDefault')})", "backend": "OBackend", "precision": "OPrecision",
             "method": "OMethod"}[case["kind"]]
        return f"POption {k} {copt(case['v'], cstr)}"
    if t == "vname":
        return f"PVname {cstr(case['v'])}"
    if t == "verify_path":
        return f"PVerifyPath {cpath(res['attrs'])} {cnet(res['net'])} {cpath(case['path'])}"
    if t == "node_apply":
        m = [x for x in pool() if x["name"] == case["model"]][0]
        return f"PNodeApply {cpath(m['nodes'][case['node']]['ops'])} {clist([f'({cstr(o)}, {cstr(v)})' for o, v in case['updates']])}"
    if t == "edge_template":
        return "PEdgeTemplate " + clist([f"(mko {cstr(o['name'])} {cpath(o['inputs'])} {cstr(o['output'])})" for o in case["ops"]])
    if t == "opgraph":
        return "POpGraph " + clist([f"(mko {cstr(o['name'])} {cpath(o['inputs'])} {cstr(o['output'])})" for o in case["ops"]])
    m, kind = case["model"], case["kind"]
    if kind == "hier":
        hnet = clist([f"({cpath(k)}, {clist([f'({cstr(o)}, {cpath(vs)})' for o, vs in ops])})" for k, ops in hnet_of(m)])
        return f"PHier {case['hkind']} {cnat(case['depth'])} {hnet} {cpath(case['path'].split('/'))}"
    net = cnet(net_of(m))
    if kind == "valid":
        outs = clist([cpath(p.split("/")) for p in m["outputs"].values()])
        return f"POutputs {net} {outs}"
    if kind == "del_var":
        od = m["ops"][case["op"]]
        return f"PEquation {cpath(list(od['variables']))} {cpath(identifiers(od['equations']))}"
    if kind in ("reserved", "two_outputs"):
        od = m["ops"][case["op"]]
        return "PVars " + clist([f"({cstr(k)}, {vtype_of(v)})" for k, v in od["variables"].items()])
    if kind == "edge":
        return f"PEdge {net} {cpath(case['path'].split('/'))}"
    if kind == "input":
        return f"PInput {net} {cpath(case['path'].split('/'))}"
    if kind == "update_var":
        return f"PUpdate {net} {cpath(case['path'].split('/'))}"
    if kind == "node_value":
        return f"PNodeValue {net} {cpath(case['path'].split('/'))}"
    if kind == "output":
        return f"POutputs {net} {clist([cpath(p.split('/')) for p in m['outputs'].values()])}"
    if kind == "op_cycle":
        ops = []
        for o in m["nodes"][list(m["nodes"])[0]]["ops"]:
            vs = m["ops"][o]["variables"]
            ops.append(f"(mko {cstr(o)} {cpath([k for k, v in vs.items() if vtype_of(v) == 'VInput'])} "
                       f"{cstr([k for k, v in vs.items() if vtype_of(v) == 'VOutput'][0])})")
        return "POpGraph " + clist(ops)
    raise ValueError(kind)

def model_compare(ctx, cases, outs, tag):
    """-> dict of index lists: badI (code <> Impl), badS (code violates the property), malformed (Spec: not well-formed),
    one list per guard (guard false), notwf (representation invariant false: harness error)"""
    keys = ["badI", "badS", "malformed", "notwf"] + GUARDS
    acc = {k: [] for k in keys}
    acc["badD"] = []; acc["dispatched"] = 0
    shard = 300
    for s in range(0, len(cases), shard):
        terms = [f"({probe_term(c, o)}, {observed(o)})" for c, o in zip(cases[s:s + shard], outs[s:s + shard])]
        body = ("Definition cases : list (probe * result) := " + clist(terms) + ".\n"
                "Eval vm_compute in (mismatches okI cases).\nEval vm_compute in (mismatches okS cases).\n"
                "Eval vm_compute in (mismatches (fun c => wellformedb (fst c)) cases).\n"
                "Eval vm_compute in (mismatches (fun c => wfprobeb (fst c)) cases).\n" +
                "".join(f"Eval vm_compute in (mismatches (fun c => {g} (fst c)) cases).\n" for g in GUARDS))
        out = coq_eval(ctx, f"c20_{tag}_{s}", HEADER, body)
        ls = parse_nat_lists(out)
        assert len(ls) == len(keys), out[:400]
        for k, l in zip(keys, ls):
            acc[k] += [s + i for i in l]
    # what actually ran for an accepted option value (integration routine / backend class / dtype / scipy method)
    eff = [(i, c, o["effect"]) for i, (c, o) in enumerate(zip(cases, outs)) if c["t"] == "option" and o.get("r") == "ok"]
    acc["badE"] = []; acc["effects"] = len(eff)
    if eff:
        terms = [f"({probe_term(c, None)}, {copt(e, cstr)})" for _, c, e in eff]
        body = ("Definition ecases : list (probe * option string) := " + clist(terms) + ".\n"
                "Eval vm_compute in (mismatches okE ecases).\n")
        ls = parse_nat_lists(coq_eval(ctx, f"c20_{tag}_eff", HEADER, body))
        assert len(ls) == 1
        acc["badE"] = [eff[j][0] for j in ls[0]]
    # solver dispatch observed on the real code (recorders around the backend's _solve_* routines): whenever `_solve`
    # got past the validation, the routine entered first must be the one Guards.solve_dispatch names, and for an
    # accepted configuration that is the routine named by the solver
    disp = [(i, c, o["method"]) for i, (c, o) in enumerate(zip(cases, outs))
            if c["t"] == "config" and c["dl"] not in MIXED and o.get("method")]
    if disp:
        terms = [f"({probe_term(c, None)[len('PConfig '):]}, {m})" for _, c, m in disp]
        body = ("Definition dcases : list (config * method) := " + clist(terms) + ".\n"
                "Eval vm_compute in (mismatches okD dcases).\n")
        ls = parse_nat_lists(coq_eval(ctx, f"c20_{tag}_disp", HEADER, body))
        assert len(ls) == 1
        acc["badD"] = [disp[j][0] for j in ls[0]]
        acc["dispatched"] = len(disp)
    return acc

def model_outputs(ctx, case, res, tag):
    body = (f"Definition p := {probe_term(case, res)}.\nEval vm_compute in (impl p).\nEval vm_compute in (wellformedb p).\n"
            f"Eval vm_compute in (guard p).\n")
    try:
        return coq_eval(ctx, f"c20_show_{tag}", HEADER, body)[:3000]
    except Exception as e:
        return f"(model evaluation failed: {e})"

# ---------------------------------------------------------------------------------------------- running
COST = dict(default=0.1, torch=0.16, jax=0.25, front=0.15)
def run_groups(ctx, groups):
    """groups: {name: (cases, weight)}; every group gets its own worker processes (a worker imports torch / jax once).
    Returns {name: results}."""
    jobs = int(os.environ.get("VERIF_JOBS", "14"))
    names = [g for g in groups if groups[g][0]]
    tot = sum(groups[g][1] for g in names) or 1.0
    alloc = {g: max(1, int(round(jobs * groups[g][1] / tot))) for g in names}
    def one(g):
        t0 = time.time()
        sub = copy.copy(ctx)
        sub.scratch = os.path.join(ctx.scratch, "grp_" + g)
        os.makedirs(sub.scratch, exist_ok=True)
        cases = groups[g][0]
        r = run_impl(sub, "c20", "impl", cases, nworkers=min(alloc[g], len(cases)), per_case_timeout=120)
        if len(cases) > 1:
            ctx.note(f"group {g}: {len(cases)} cases, {min(alloc[g], len(cases))} workers, {time.time() - t0:.0f}s")
        return g, r
    with ThreadPoolExecutor(max_workers=len(names) or 1) as ex:
        return dict(ex.map(one, names))

def run_cases(ctx, cases):
    groups = {}
    def add(g, c, w):
        cs, ww = groups.get(g, ([], 0.0))
        groups[g] = (cs + [c], ww + w)
    idx = {}
    for i, c in enumerate(cases):
        if c["t"] == "config":
            g = c["be"]
            w = {"default": 0.1, "torch": 0.16, "jax": 0.25, "fortran": 0.3 if c["vec"] else 7.0}[g]
        elif c["t"] == "option":
            g = c["be"]
            w = {"default": 0.1, "torch": 0.16, "jax": 0.25, "fortran": 7.0}[g]
        else:
            g, w = "front", {"mutant": 0.2, "verify_path": 0.25, "edge_template": 0.2}.get(c["t"], 0.02)
        idx.setdefault(g, []).append(i)
        add(g, c, w)
    # fixed start-up cost per worker (import of torch / jax)
    for g, extra in (("torch", 6.0), ("jax", 8.0)):
        if g in groups:
            groups[g] = (groups[g][0], groups[g][1] + extra)
    res = run_groups(ctx, groups)
    outs = [None] * len(cases)
    for g, ids in idx.items():
        for i, r in zip(ids, res[g]):
            outs[i] = r
    return outs

def fixed_F3(name="fixed_F3"):
    """the one-line model switches of coq/theories/Guards.v"""
    txt = open(os.path.join(COQ, "theories", "Guards.v")).read()
    return re.search(r"Definition %s : bool := (true|false)\." % name, txt).group(1) == "true"

def summarize(case):
    c = {k: v for k, v in case.items() if k != "model"}
    return c

def nontrivial_key(case):
    return canon(case)

# ---------------------------------------------------------------------------------------------- check
def check(ctx):
    pr = proof_gate(ctx, NEEDS)
    problem = proof_problem(pr)
    quick = ctx.tier == "quick"
    if ctx.replay:
        rp = json.load(open(ctx.replay))
        cases = [rp["case"]] if "case" in rp else []
    else:
        inproc, fortran = config_cases(ctx.rng, ctx.tier)
        muts = valid_cases()
        for m in pool():
            muts += mutants(m, ctx.rng, ctx.tier)
        for m in hier_pool():
            muts += hier_mutants(m, ctx.rng, ctx.tier)
        cases = (load_corpus("C20") + inproc + fortran + muts + vname_cases(ctx.rng, 150 if quick else 1500)
                 + verify_path_cases(ctx.rng, 12 if quick else 80) + node_apply_cases(ctx.rng, 4 if quick else 20)
                 + opgraph_cases(ctx.rng, 60 if quick else 600) + option_cases(ctx.rng, ctx.tier)
                 + edge_template_cases(ctx.rng, 10 if quick else 100))
    only = os.environ.get("VERIF_C20_GROUPS")     # development aid: restrict the run to some groups (default,torch,jax,fortran,front)
    if only and not ctx.replay:
        keep = set(only.split(","))
        cases = [c for c in cases if (c["be"] if c["t"] in ("config", "option") else "front") in keep]
        ctx.note(f"RESTRICTED RUN (VERIF_C20_GROUPS={only}): not a full check")
    if os.environ.get("VERIF_COVERAGE") and not ctx.replay:
        # diagnostic mode only: under the coverage tracer the scipy DDE integrator dead-locks (futex wait, the per-case
        # alarm cannot fire) when the right-hand side raises from inside the Fortran callback — the three matrix rows
        # scipy / history / not vectorized / inplace_vectorfield=False / run are left out of a coverage pass
        hang = lambda c: (c["t"] == "config" and c["so"] == "scipy" and c["dl"] in ("discrete", "past") and not c["vec"]
                          and not c["inplace"] and c["en"] == "run" and c["be"] != "fortran")
        ctx.note(f"COVERAGE RUN: {sum(1 for c in cases if hang(c))} rows that dead-lock under the tracer are skipped: not a full check")
        cases = [c for c in cases if not hang(c)]
    t_run = time.time()
    outs = run_cases(ctx, cases)
    t_run = time.time() - t_run
    crashed = [i for i, r in enumerate(outs) if "r" not in r]
    good = [i for i in range(len(cases)) if i not in crashed]
    t_coq = time.time()
    cmp_ = model_compare(ctx, [cases[i] for i in good], [outs[i] for i in good], "main")
    t_coq = time.time() - t_coq
    ctx.note(f"real-code runs {t_run:.0f}s, evaluation of the model in Coq {t_coq:.0f}s")
    back = lambda l: [good[i] for i in l]
    badI, badS, malformed, notwf = back(cmp_["badI"]), back(cmp_["badS"]), back(cmp_["malformed"]), back(cmp_["notwf"])
    badD = back(cmp_["badD"]); badE = back(cmp_["badE"])
    badI = sorted(set(badI) | set(badD) | set(badE))      # a wrong dispatch / effect is a disagreement with the mechanism model
    ctx.note(f"option values given as strings: {cmp_['effects']} accepted requests, what ran differs from Guards.option_effect on {len(badE)}")
    ctx.note(f"solver dispatch observed on {cmp_['dispatched']} runs that reached an integration routine; "
             f"disagreements with Guards.solve_dispatch / named_method: {len(badD)}; model switches fixed_F3={fixed_F3()} fixed_F4={fixed_F3('fixed_F4')} fixed_F5={fixed_F3('fixed_F5')} fixed_F6={fixed_F3('fixed_F6')}")
    assert not notwf, f"generator produced a network with duplicate keys: {[summarize(cases[i]) for i in notwf[:3]]}"
    # 'ok' must mean that numbers came back; a quiet return without numbers would be a harness blind spot
    hollow = [i for i in good if outs[i]["r"] in ("ok", "warn") and outs[i].get("numbers") is False]
    assert not hollow, f"returned without numbers: {[summarize(cases[i]) for i in hollow[:3]]}"
    guard_viol = {}
    for g in GUARDS:
        for i in back(cmp_[g]):
            guard_viol.setdefault(i, []).append(g)
    by_t = {}
    for c in cases:
        k = c["t"] if c["t"] != "mutant" else "mutant:" + c["kind"] + (str(c["depth"]) if c["kind"] == "hier" else "")
        by_t[k] = by_t.get(k, 0) + 1
    ctx.note(f"E1: {len(cases)} probes {by_t}; code-vs-Impl mismatches {len(badI)}, property violations {len(badS)} "
             f"(of which outside the guards {sum(1 for i in badS if guard_viol.get(i))}), harness/worker errors {len(crashed)}")

    def show(c):
        r = run_cases(ctx, [c])[0]
        return dict(implementation_output=r, model_output=model_outputs(ctx, c, r, "show") if "r" in r else None)

    def witness_check(f):
        c = f["witness"]
        r = run_cases(ctx, [c])[0]
        if "r" not in r:
            raise RuntimeError(f"witness run crashed: {r}")
        return bool(model_compare(ctx, [c], [r], "wit_" + f["id"].replace("-", "_"))["badS"])

    conclude(ctx, cases=cases, impl_out=outs, bad_spec=badS, bad_impl=badI, crashed=crashed, problem=problem,
             guard_viol=guard_viol, show=show, witness_check=witness_check,
             spec_name="Guards.meets_spec (a request that is not supported / not well-formed must raise; a warning suffices for "
                       "an input or update_var target that does not exist)", impl_name="Guards.impl")
    nt = {nontrivial_key(cases[i]) for i in malformed}
    rejected = sum(1 for i in good if outs[i]["r"] not in ("ok", "warn"))
    classes = {}
    for i in good:
        classes[outs[i]["r"]] = classes.get(outs[i]["r"], 0) + 1
    samples = [dict(case=summarize(cases[i]), observed=outs[i].get("r")) for i in (malformed[:3] + good[:2])]
    write_evidence(ctx, evaluations=len(cases), distinct_nontrivial=len(nt),
                   rule="a probe is non-trivial when the specification says it must be refused (Guards.wellformedb = false, evaluated in "
                        "Coq): an unsupported configuration of the matrix, a malformed variant of a pool model, a reserved name, an "
                        "absent path, a cyclic operator graph; distinct = distinct canonical JSON of the probe",
                   samples=samples,
                   extra=dict(input_distribution=by_t, observed_classes=classes, refused=rejected,
                              matrix=dict(in_process_rows=sum(1 for c in cases if c["t"] == "config" and c["be"] != "fortran"),
                                          fortran_refused_before_compilation=sum(1 for c in cases if c["t"] == "config" and c["be"] == "fortran" and c["vec"]),
                                          fortran_reaching_f2py=sum(1 for c in cases if c["t"] == "config" and c["be"] == "fortran" and not c["vec"]),
                                          note="`sparse` is a parameter of get_jacobian_func only: rows with sparse=true are run for that entry point"),
                              impl_vs_model_mismatches=len(badI), impl_vs_spec_mismatches=len(badS),
                              solver_dispatch_observed=cmp_["dispatched"], solver_dispatch_mismatches=len(badD), model_switch_fixed_F3=fixed_F3(), model_switch_fixed_F4=fixed_F3('fixed_F4'), model_switch_fixed_F5=fixed_F3('fixed_F5'), model_switch_fixed_F6=fixed_F3('fixed_F6'), option_effects_observed=cmp_['effects'], option_effect_mismatches=len(badE),
                              mixed_delay_rows=sum(1 for c in cases if c["t"] == "config" and c["dl"] in MIXED),
                              outside_guards={g: len(cmp_[g]) for g in GUARDS}),
                   trusted_base=["exception classes are compared through a three-valued enum (PyRatesException / NotImplementedError / any other)",
                                 "the abstract network / operator-graph description of a probe is produced by the harness from the same JSON "
                                 "the model is built from (for _verify_path: read back from the NetworkGraph object)"],
                   assumptions=["matrix rows are exercised on one probe model per delay kind (two nodes, one operator, mutual edges)",
                                "Guards.crash_gen / crash_call list the loud downstream failures of those probe models on the current tree "
                                "(class 'other'); they are part of Impl, not of the guards",
                                "mixed delay kinds (plain-delay edge + delay+spread edge, both orders) are run on the slice inplace=true, sparse=false",
                                "no guard is left: F1-F6 are repaired (D48, D49, D76, D79, D109, D113), C20_full_holds is unconditional; their witnesses are regression cases"])
