"""C18 — the auto-07p export addresses every parameter and state consistently.
Model: coq/theories/Auto.v (Impl `emit` — its slot function is the E2-regenerated Gen_auto_param_indices —, Spec `spec_emit`);
theorems: coq/properties/C18.v (AutoEquiv.v, AutoProofs.v).
Tie: E1 — one-operator scalar models with 0-25 parameters declared in an order different from first use are compiled with
the Fortran backend in auto mode; the generated .f90 and c.<scenario> files are parsed and compared field by field inside
Coq with Impl and Spec; a subset (all in the thorough tier) is compiled through f2py and `stpnt`/`func` are called.
E2 validation: the regenerated Gallina functions are run against the Python functions they were generated from."""
import json, os, re
from fractions import Fraction as Fr
from core import *

NEEDS = ["PyLib", "Auto", "AutoImpl", "AutoEquiv", "AutoProofs", "Corr", "Gen_auto_param_indices"]
IMPL_FILES = ["PyLib", "Auto", "AutoImpl", "Corr", "Gen_auto_param_indices"]   # what the Coq evaluation of Impl needs
FINDING_GUARD = "all_values_f32_exact"
NPARX = 40          # length of the PAR array handed to the compiled routines

# ---------------------------------------------------------------------------------------------- impl side (worker)
def term_str(c, factors):
    fac = ([str(abs(c))] if abs(c) != 1 or not factors else []) + list(factors)
    return (" - " if c < 0 else " + ") + "*".join(fac)

def eq_strings(case):
    if case.get("ops"):
        return [e for op in case["ops"] for e in op["equations"]]
    if case.get("net"):
        return [f"{nd['name']}: {e}" for nd in case["net"]["nodes"] for e in nd["equations"]] + [f"edge {a} -> {b} weight {w}" for a, b, w in case["net"]["edges"]]
    out = []
    for (s, _), terms in zip(case["states"], case["eqs"]):
        txt = ""
        for c, ps, ys in terms:
            fac = ([str(abs(c))] if abs(c) != 1 or not (ps or ys) else []) + list(ps) + [case["states"][i][0] for i in ys]
            txt += (" - " if c < 0 else (" + " if txt else "")) + "*".join(fac)
        out.append(f"{s}' = {txt.strip()}")
    return out

def build(case):
    from pyrates import CircuitTemplate, OperatorTemplate
    from pyrates.frontend.template.node import NodeTemplate
    if case.get("ops"):      # a node made of several operators (declaration order = operators in node order)
        ops = [OperatorTemplate(name=op["name"], equations=op["equations"], path=None,
                                variables={k: (v if "(" in v else float(Fr(v))) for k, v in op["variables"]}) for op in case["ops"]]
        return CircuitTemplate(name="c", nodes={"p": NodeTemplate(name="n", operators=ops, path=None)})
    if case.get("net"):      # two nodes with one operator each, connected by weighted edges (the weights become parameters)
        mk = lambda nd: OperatorTemplate(name="op_" + nd["name"], equations=nd["equations"], path=None,
                                         variables={k: (v if "(" in v else float(Fr(v))) for k, v in nd["variables"]})
        nodes = {nd["name"]: NodeTemplate(name="n_" + nd["name"], operators=[mk(nd)], path=None) for nd in case["net"]["nodes"]}
        return CircuitTemplate(name="c", nodes=nodes, edges=[(a, b, None, {"weight": float(Fr(w))}) for a, b, w in case["net"]["edges"]])
    vals = dict(case["states"]); pvals = dict(case["params"])
    variables = {}
    for name in case["decl"]:
        if name in vals:
            kind = "output" if name == case["states"][0][0] else "variable"
            variables[name] = f"{kind}({float(Fr(vals[name]))!r})"
        elif name in case.get("int_params", []):
            variables[name] = int(Fr(pvals[name]))            # default written as a Python int (a = 2)
        else:
            variables[name] = float(Fr(pvals[name]))
    op = OperatorTemplate(name="op", equations=eq_strings(case), variables=variables, path=None)
    node = NodeTemplate(name="n", operators=[op], path=None)
    return CircuitTemplate(name="c", nodes={"p": node})

def split_top(s):
    parts, depth, cur = [], 0, ""
    for ch in s:
        if ch == "," and depth == 0:
            parts.append(cur.strip()); cur = ""
        else:
            depth += ch == "("; depth -= ch == ")"; cur += ch
    return parts + [cur.strip()] if cur.strip() else parts

def parse_f90(src, fname):
    src = re.sub(r"&\s*\n\s*&?", "", src)
    obs = {}
    m = re.search(r"subroutine vfx\(([^)]*)\)", src)
    obs["sig"] = [a.strip() for a in m.group(1).split(",")]
    i = src.index("call vfx(") + len("call vfx("); depth, j = 0, i
    while depth or src[j] != ")":
        depth += src[j] == "("; depth -= src[j] == ")"; j += 1
    call = split_top(src[i:j])
    obs["call_head"] = call[:3]
    obs["call"] = [int(re.fullmatch(r"args\((\d+)\)", a).group(1)) for a in call[3:]]
    st = src[src.index("subroutine stpnt"):src.index("end subroutine stpnt")]
    lit = lambda v: str(Fr(float(re.sub(r"[dD]", "e", v))))   # the double that the literal text denotes (0.1, 1e-07, 0.1d0, 1d-07)
    obs["stpnt"] = [[int(k), lit(v), n] for k, v, n in re.findall(r"^\s*args\((\d+)\) = (\S+)\s+! (\S+)\s*$", st, re.M)]
    obs["stpnt_y"] = [[int(k), lit(v), n] for k, v, n in re.findall(r"^\s*y\((\d+)\) = (\S+)\s+! (\S+)\s*$", st, re.M)]
    obs["stpnt_double_literals"] = all(re.search(r"[dD]", v) for _, v, _ in re.findall(r"^\s*(args|y)\(\d+\) = (\S+)\s+! (\S+)\s*$", st, re.M))
    obs["stpnt_lines"] = len([l for l in st.split("\n") if " = " in l])
    fn = src[src.index("subroutine func("):src.index("end subroutine func")]
    obs["dfdp"] = [[int(r), int(c)] for r, c in re.findall(r"^\s*dfdp\((\d+),(\d+)\) =", fn, re.M)]
    obs["dfdu"] = [[int(r), int(c)] for r, c in re.findall(r"^\s*dfdu\((\d+),(\d+)\) =", fn, re.M)]
    obs["bvp"] = []                                          # args(k) read by the BCND / ICND residuals, in residual order
    for kind, arr in (("bcnd", "fb"), ("icnd", "fi")):
        m_ = re.search(r"subroutine %s\(.*?end subroutine %s" % (kind, kind), src, re.S)
        for line in (re.findall(r"^\s*%s\(\d+\) = (.*)$" % arr, m_.group(0), re.M) if m_ else []):
            obs["bvp"] += [int(k) for k in re.findall(r"args\((\d+)\)", line)]
    return obs

def parse_consts(text):
    import ast as _ast
    d = {}
    for line in text.split("\n"):
        if " = " in line:
            k, v = line.split(" = ", 1)
            d[k.strip()] = _ast.literal_eval(v.strip())
    return d

def impl(case):
    """compile one case with the Fortran backend in auto mode; returns the parsed emission (+ compiled observations)"""
    import types, importlib, sys
    import numpy as np
    from pyr import reset_pyrates, fracs
    import pyrates.backend.fortran.fortran_backend as fb
    class Stop(Exception):
        pass
    def no_compile(*a, **k):
        raise Stop()
    real_sp = fb.subprocess
    fname = "m" + case["id"]
    reset_pyrates()
    try:
        if not case["compile"]:
            fb.subprocess = types.SimpleNamespace(run=no_compile)   # the files are complete before f2py is started
        kw = dict(case["overrides"])
        if case.get("bvp"):
            kw["boundary_conditions"] = list(case["bvp"]["bc"]); kw["integral_constraints"] = list(case["bvp"]["ic"])
        if case["scenarios"] is not None:
            kw["auto_constants"] = case["scenarios"][0] if case.get("scen_as_str") else tuple(case["scenarios"])
        try:
            build(case).get_run_func("vfx", step_size=1e-3, file_name=fname, backend="fortran", float_precision="float64",
                                     auto=True, vectorize=False, solver="scipy", **kw)
        except Stop:
            pass
        obs = parse_f90(open(fname + ".f90").read(), fname)
        files = {}
        for f in sorted(os.listdir(".")):
            if f.startswith("c."):
                c = parse_consts(open(f).read())
                files[f[2:]] = dict(parnames=[[k, v] for k, v in c.get("parnames", {}).items()],
                                    unames=[[k, v] for k, v in c.get("unames", {}).items()],
                                    NDIM=c["NDIM"], NPAR=c["NPAR"],
                                    over={k: c.get(k) for k in case["overrides"]})
        obs["files"] = files
        if case["compile"]:
            import glob as _glob       # since D96 the extension module is <file_name>_<sha256[:12]>; before it was <file_name>
            so = sorted(_glob.glob(fname + "*.so"), key=os.path.getmtime)
            mod = importlib.import_module(os.path.basename(so[-1]).split(".")[0] if so else fname)
            nd = len(case["states"])
            y = np.zeros(nd); par = np.zeros(NPARX)
            mod.stpnt(y, par, 0.0)
            obs["stpnt_run"] = dict(y=fracs(y), par=fracs(par))
            yt = np.array([float(Fr(v)) for v in case["y_test"]]); pt = np.array([float(Fr(v)) for v in case["par_test"]])
            dfdu = np.zeros((nd, nd), order="F"); dfdp = np.zeros((nd, NPARX), order="F")
            dy = mod.func(yt, np.zeros(1, dtype=np.int32), pt, 2, dfdu, dfdp)
            obs["func_run"] = dict(dy=fracs(dy), dfdu=[fracs(r) for r in dfdu], dfdp=[fracs(r) for r in dfdp])
            dy0 = mod.func(yt, np.zeros(1, dtype=np.int32), par, 0, dfdu, dfdp)
            if case.get("wide"):          # values over 60 orders of magnitude: the vector field is not evaluated at the STPNT point
                return obs
            reset_pyrates()
            f, args, names, smap = build(case).get_run_func("vfd", step_size=1e-3, file_name="d" + case["id"], backend="default",
                                                            float_precision="float64", vectorize=False, solver="scipy")
            order = sorted(smap, key=lambda k: smap[k])
            ref = np.array(f(0.0, yt.copy(), np.zeros(nd), *args[3:]), dtype=np.float64)
            obs["default_run"] = dict(dy=fracs(ref), dy_auto_at_stpnt=fracs(dy0), state_order=[k.split("/")[-1] for k in order],
                                      arg_names=[a.split("/")[-1] for a in names[3:]])
        return obs
    finally:
        fb.subprocess = real_sp
        reset_pyrates()

def impl_reject(case):
    """requests that _generate_auto_files must refuse loudly (ValueError) before anything is compiled"""
    from pyr import reset_pyrates
    reset_pyrates()
    try:
        build(case).get_run_func("vfx", step_size=1e-3, file_name="r" + case["id"], backend="fortran", float_precision="float64",
                                 auto=True, vectorize=False, solver="scipy", **case["kwargs"])
        return dict(rejected=False)
    except Exception as e:
        return dict(rejected=True, type=type(e).__name__, msg=str(e)[:160])
    finally:
        reset_pyrates()

def impl_pi(case):
    """support stream (tolerance 1e-12, never decides alone about slots): a model that uses `pi` is exported, compiled, and the
    exported vector field at the STPNT point is compared with the default backend's (D108: the module constant PI is double precision)"""
    import importlib, glob as _glob
    import numpy as np
    from pyr import reset_pyrates
    from pyrates import CircuitTemplate, OperatorTemplate
    from pyrates.frontend.template.node import NodeTemplate
    def net():
        op = OperatorTemplate(name="op", path=None, equations=case["equations"],
                              variables={k: (v if "(" in str(v) else (int(v) if isinstance(v, int) else float(Fr(v)))) for k, v in case["variables"]})
        return CircuitTemplate(name="c", nodes={"p": NodeTemplate(name="n", operators=[op], path=None)})
    fname = "pi" + case["id"]
    reset_pyrates()
    try:
        net().get_run_func("vfx", step_size=1e-3, file_name=fname, backend="fortran", float_precision="float64", auto=True, vectorize=False, solver="scipy")
        src = open(fname + ".f90").read()
        so = sorted(_glob.glob(fname + "*.so"), key=os.path.getmtime)
        mod = importlib.import_module(os.path.basename(so[-1]).split(".")[0] if so else fname)
        nd = len([1 for e in case["equations"]])
        y = np.zeros(nd); par = np.zeros(NPARX); mod.stpnt(y, par, 0.0)
        dy = mod.func(y, np.zeros(1, dtype=np.int32), par, 0, np.zeros((nd, nd), order="F"), np.zeros((nd, NPARX), order="F"))
        reset_pyrates()
        f, args, names, smap = net().get_run_func("vfd", step_size=1e-3, file_name="dpi" + case["id"], backend="default", float_precision="float64",
                                                  vectorize=False, solver="scipy")
        ref = np.array(f(0.0, np.array(y), np.zeros(nd), *args[3:]), dtype=np.float64)
        return dict(dy=[float(v) for v in dy], ref=[float(v) for v in ref], pi_line=[l.strip() for l in src.split("\n") if ":: PI" in l])
    finally:
        reset_pyrates()

def impl_slots(case):
    """E2 validation: the Python functions themselves, without a backend object"""
    import types
    if case["kind"] == "slots":
        from pyrates.backend.fortran.fortran_backend import FortranBackend
        rng = tuple(case["blocked"]) if case["blocked"] else FortranBackend._AUTO_BLOCKED_PAR_RANGE
        return dict(out=FortranBackend._auto_param_indices(None, tuple(range(case["n"])), rng), rng=list(rng))
    if case["kind"] == "labels2":
        from pyrates.backend.parser import get_unique_label
        d, out = dict(case["table"]), []
        for l in case["requests"]:
            r, d = get_unique_label(l, d); out.append(r)
        return dict(out=out, table=[[k, v] for k, v in d.items()])
    if case["kind"] == "solver":
        # BaseBackend._validate_solver / _solve on a stub: which integrator method is called, or which exception is raised
        from pyrates.backend.base.base_backend import BaseBackend, DDEHistory
        import numpy as np
        called = []
        class Stub:
            SUPPORTED_SOLVERS = BaseBackend.SUPPORTED_SOLVERS
            _validate_solver = BaseBackend._validate_solver
            def __getattr__(self, name):
                if name.startswith("_solve_"):
                    return lambda *a, **k: called.append(name)
                raise AttributeError(name)
        args = (DDEHistory(np.zeros(1), 0.0),) if case["dde"] else ()
        try:
            BaseBackend._validate_solver(Stub(), case["s"]); val = True
        except Exception:
            val = False
        try:
            BaseBackend._solve(Stub(), case["s"], None, args, 1.0, 0.1, 0.1, np.zeros(1), 0, None)
        except Exception:
            called.append(None)
        return dict(valid=val, called=called[0] if called else None)
    if case["kind"] == "indexed":
        from pyrates.ir.circuit import _get_indexed_var_str
        d = {}
        try:
            r = _get_indexed_var_str(case["var"], list(case["idx"]), case["n"], case["reduce"], case["idx_str"] or None, d)
        except IndexError:
            return dict(out=None, rec=[])
        return dict(out=r, rec=[[k, [int(i) for i in v["value"]]] for k, v in d.items()])
    if case["kind"] == "relabel":
        from pyrates.frontend.template.circuit import CircuitTemplate
        return dict(out=CircuitTemplate._relabel_var(case["var"], dict(case["map"])))
    if case["kind"] == "replace":
        from pyrates.backend.parser import replace
        return dict(out=replace(case["eq"], case["term"], case["rep"], rhs_only=case["rhs"], lhs_only=case["lhs"]))
    from pyrates.backend.computegraph import ComputeGraph
    stub = types.SimpleNamespace(_node_names=dict(case["table"]))
    out = [ComputeGraph._generate_unique_label(stub, l) for l in case["requests"]]
    return dict(out=out, table=[[k, v] for k, v in stub._node_names.items()])

# ---------------------------------------------------------------------------------------------- generator
POOL = [f"p{i}" for i in range(1, 31)] + ["a", "b", "g", "k", "w"]

def wide_value(rng):
    """a binary64 value as an exact rational string: full 53-bit mantissas over 1e-30 .. 1e30, short decimals of small magnitude
    (1e-06, 1e-09, 3e-18 ...), values near the smallest normal number and denormals; both signs"""
    r = rng.random()
    if r < 0.6:
        x = float((2 ** 52 + rng.randrange(2 ** 52)) | 1) * 2.0 ** rng.randint(-152, 47)
    elif r < 0.8:
        x = float(rng.choice(["1e-06", "1e-09", "3e-18", "4.9e-18", "1e-20", "2.5e-07", "7e-12", "1e-30", "6.02214076e23", "1e30", "123456.789e-15"]))
    elif r < 0.9:
        x = float((2 ** 52 + rng.randrange(2 ** 52)) | 1) * 2.0 ** rng.randint(-1074, -1060)          # just above the smallest normal
    else:
        x = rng.randint(1, 2 ** 20) * 2.0 ** -1074                                                   # denormal
    return str(Fr(-x if rng.random() < 0.4 else x))

def gen_case(rng, cid, n=None, compile_=False, inexact=False, wide=False):
    n = rng.choice([0, 1, 2, 3, 4, 8, 9, 10, 11, 12, 14, 15, 16, 20, 25] + list(range(26))) if n is None else n
    ns = rng.choice([1, 1, 2, 2, 3])
    states = ["x", "z", "v"][:ns]
    if rng.random() < 0.3:
        names = [f"p{i + 1}" for i in range(n)]                       # p1..pN declared in numeric order
    else:
        names = rng.sample(POOL, n)                                   # declaration order unrelated to the spelling
    decl = list(names)
    for s in states:                                                  # state variables anywhere in the declaration
        decl.insert(rng.randrange(len(decl) + 1) if rng.random() < 0.5 else 0, s)
    val = (lambda: wide_value(rng)) if wide else (lambda: str(Fr(rng.choice([k for k in range(-16, 17) if k]), 8))) if not inexact else \
          (lambda: rng.choice(["1/10", "3/10", "-7/100", "1/5", "1/10000000", "123456789/1000"]))   # decimal literals that are not binary32 values
    unused = set(rng.sample(names, rng.choice([0, 0, 0, 1, 2]))) if n > 2 else set()
    use = [p for p in names if p not in unused]
    rng.shuffle(use)                                                  # order of first use != declaration order
    eqs = [[] for _ in states]
    seen = [set() for _ in states]
    def add(r, c, ps, ys):
        key = (tuple(sorted(ps)), tuple(sorted(ys)))
        if key not in seen[r]:
            seen[r].add(key); eqs[r].append([c, list(ps), list(ys)])
    for i, p in enumerate(use):
        r = rng.randrange(ns) if i else 0
        add(r, rng.choice([1, 1, -1, 2, -3]), [p], rng.choice([[], [rng.randrange(ns)], [rng.randrange(ns), rng.randrange(ns)]]))
    for _ in range(rng.randint(0, 3)):                                # re-use: products of two parameters, second equations
        if len(use) >= 2:
            add(rng.randrange(ns), rng.choice([1, -1, 2]), rng.sample(use, 2), [rng.randrange(ns)])
    for r in range(ns):                                               # every equation has a term in its own state
        add(r, -1, [], [r])
    scen = rng.choice([None, None, ["ivp"], ["eq"], ["ivp", "eq"], ["eq", "lc"], ["ivp", "eq", "lc", "bvp", "hom"]])
    over = {}
    if rng.random() < 0.35:
        over["NMX"] = rng.choice([77, 5000])
    if rng.random() < 0.2:
        over["NPAR"] = rng.choice([36, 40])
    if rng.random() < 0.08:
        over["NDIM"] = ns + 1
    # some defaults are Python ints (a = 2).  Before repair D107 (a87028c) every such model failed to compile (`integer :: a(1)`,
    # loud RuntimeError from f2py); C18_INT_PARAMS=0 switches the stream off.
    ints = [p for p in names if os.environ.get("C18_INT_PARAMS", "1") == "1" and not inexact and not wide and rng.random() < 0.3]
    pvals = [[p, (str(rng.choice([-3, -2, -1, 1, 2, 3])) if p in ints else val())] for p in names]
    return dict(id=str(cid), decl=decl, states=[[s, val()] for s in states], params=pvals, int_params=ints, eqs=eqs, wide=wide,
                scenarios=scen, scen_as_str=bool(scen and len(scen) == 1 and rng.random() < 0.5), overrides=over, compile=compile_,
                y_test=[str(Fr(rng.choice([-5, -3, 3, 5, 7]), 16)) for _ in states],
                par_test=[str(Fr(k + 3, 8)) for k in range(NPARX)])

def gen_bvp(rng, cid, compile_=False):
    """one-operator model with boundary conditions / an integral constraint (DSL); the integral target `par_<e>` is a declared
    parameter that does NOT occur in the equations and is declared BEFORE some vector-field parameter; optionally a second
    constraint-only parameter and a boundary condition that reads a vector-field parameter.  One par_ token per residual."""
    while True:
        c = gen_case(rng, cid, n=rng.choice([3, 4, 5, 6, 8, 10, 11, 12, 16]), compile_=compile_)
        names = [p for p, _ in c["params"]]
        k = rng.randint(1, 2)
        cand = names[:-1]
        if len(cand) < k: continue
        extras = rng.sample(cand, k)
        eqs = [[t for t in terms if not (set(extras) & set(t[1]))] for terms in c["eqs"]]
        used = [p for terms in eqs for _, ps, _ in terms for p in ps]
        if not all(any(names.index(u) > names.index(e) for u in used) for e in extras): continue
        c["eqs"] = eqs
        break
    st = [s for s, _ in c["states"]]
    bc = [f"u0_{s} - u1_{s}" for s in st]
    tokens = []
    if rng.random() < 0.5 and used:
        p = rng.choice(used); bc[0] = f"u0_{st[0]} - par_{p}*u1_{st[0]}"; tokens.append(p)
    ic = []
    for e in extras:
        ic.append(f"u_{rng.choice(st)} - par_{e}"); tokens.append(e)
    if rng.random() < 0.3:
        ic.append(f"u_{st[0]} - par_{extras[0]}"); tokens.append(extras[0])          # mentioned twice
    c["bvp"] = dict(bc=bc, ic=ic, tokens=tokens)
    c["scenarios"] = rng.choice([["bvp"], ["bvp"], None, ["ivp", "bvp"]]); c["scen_as_str"] = False
    return c

def gen_chain(rng, cid, compile_=False, big=False):
    """node with three operators: src (v' = ...), alg (ALGEBRAIC ONLY: m = polynomial in its own parameters and v, parameters used
    in an order different from their declaration), dyn (x' = ... k*m ..., optionally z').  Flattened view (decl, states, params, eqs with
    m expanded) is what the model and the numeric checks use; `ops` is what is compiled."""
    n_src, n_alg, n_dyn = rng.randint(1, 3), rng.randint(2, 6), (rng.randint(6, 14) if big else rng.randint(2, 6))
    names = rng.sample(POOL, n_src + n_alg + n_dyn)
    P = [names[:n_src], names[n_src:n_src + n_alg], names[n_src + n_alg:]]
    two = rng.random() < 0.5
    states = ["v", "x"] + (["z"] if two else [])
    val = lambda: str(Fr(rng.choice([k for k in range(-16, 17) if k]), 8))
    coef = lambda: rng.choice([1, 1, -1, 2, -3])
    sv = {s: val() for s in states}; pv = {p: val() for p in names}
    # src
    src_terms = [[coef(), [p], rng.choice([[], [0]])] for p in P[0]] + [[-1, [], [0]]]
    # alg: every term carries at least one own parameter (so the expansion cannot collide with a direct term of dyn)
    use = list(P[1])
    while use == P[1]:
        rng.shuffle(use)
    alg_terms, seen = [], set()
    for g in use:
        t = [coef(), [g], rng.choice([[], [0], [0, 0]])]
        alg_terms.append(t); seen.add((tuple(t[1]), tuple(t[2])))
    if rng.random() < 0.4:
        t = [coef(), sorted(rng.sample(P[1], 2)), [0]]
        if (tuple(t[1]), tuple(t[2])) not in seen: alg_terms.append(t)
    # dyn: exactly one term contains m
    kuse = list(P[2]); rng.shuffle(kuse)
    rows = [[], []] if two else [[]]
    mterm = [coef(), [kuse[0]], rng.choice([[], [1]])]
    seen = [set(), set()]
    for i, kk in enumerate(kuse[1:]):
        r = rng.randrange(len(rows))
        t = [coef(), [kk], rng.choice([[], [1], [1 + r], [1, 1]])]
        key = (tuple(t[1]), tuple(sorted(t[2])))
        if key not in seen[r]: seen[r].add(key); rows[r].append(t)
    for r in range(len(rows)):
        rows[r].append([-1, [], [1 + r]])
    if two: rows[1].append([1, [], [1]]) if ((), (1,)) not in seen[1] else None
    sname = lambda ys: [states[i] for i in ys]
    eq = lambda lhs, terms, extra="": (lhs + " =" + extra + "".join(term_str(c, ps + sname(ys)) for c, ps, ys in terms)).replace("= + ", "= ").replace("=  - ", "= -")
    def variables(ps, special):
        items = [(p, pv[p]) for p in ps]
        for nm_, spec in special:
            items.insert(rng.randrange(len(items) + 1), (nm_, spec))
        return [[k, v] for k, v in items]
    fl = lambda s_: repr(float(Fr(s_)))
    ops = [dict(name="src_op", equations=[eq("v'", src_terms)], variables=variables(P[0], [("v", f"output({fl(sv['v'])})")])),
           dict(name="alg_op", equations=[eq("m", alg_terms)], variables=variables(P[1], [("m", "output(0.0)"), ("v", "input(0.0)")])),
           dict(name="dyn_op", equations=[eq("x'", rows[0], term_str(mterm[0], mterm[1] + ["m"] + sname(mterm[2])))] +
                                         ([eq("z'", rows[1])] if two else []),
                variables=variables(P[2], [("x", f"output({fl(sv['x'])})"), ("m", "input(0.0)")] + ([("z", f"variable({fl(sv['z'])})")] if two else [])))]
    expanded = [[mterm[0] * c, mterm[1] + ps, sorted(mterm[2] + ys)] for c, ps, ys in alg_terms]
    eqs = [src_terms, expanded + rows[0]] + ([rows[1]] if two else [])
    decl = []
    for op in ops:
        decl += [k for k, _ in op["variables"] if k not in decl]
    scen = rng.choice([None, None, ["eq"], ["ivp", "eq"]])
    return dict(id=str(cid), ops=ops, decl=decl, states=[[s_, sv[s_]] for s_ in states],
                params=[[k, v] for op in ops for k, v in op["variables"] if k in pv], eqs=eqs, scenarios=scen, scen_as_str=False,
                overrides=({"NMX": 77} if rng.random() < 0.3 else {}), compile=compile_,
                y_test=[str(Fr(rng.choice([-5, -3, 3, 5, 7]), 16)) for _ in states], par_test=[str(Fr(k + 3, 8)) for k in range(NPARX)])

def gen_net(rng, cid, compile_=False, big=False):
    """two nodes A (x' = ...) and B (z' = ..., optionally v') with one operator each; edge A/x -> B/u always, B/z -> A/q in half of the
    cases.  Edge weights become parameters `weight`, `weight_v1` (label generator, nodes in circuit order).  Declaration order of the
    circuit = for every node in circuit order: the weight of its incoming edge, then the variables of its operator in declaration order."""
    n_a, n_b = rng.randint(1, 5), (rng.randint(6, 14) if big else rng.randint(1, 6))
    names = rng.sample([p for p in POOL if p != "w"], n_a + n_b)
    PA, PB = names[:n_a], names[n_a:]
    back, two = rng.random() < 0.5, rng.random() < 0.4
    states = ["x", "z"] + (["v"] if two else [])
    val = lambda: str(Fr(rng.choice([k for k in range(-16, 17) if k and k != 8]), 8))      # a weight of exactly 1 is elided by the edge code
    coef = lambda: rng.choice([1, 1, -1, 2, -3])
    sv = {s_: val() for s_ in states}; pv = {p: val() for p in names}
    w_a, w_b = ("weight", "weight_v1") if back else (None, "weight")
    wv = {w_: val() for w_ in (w_a, w_b) if w_}
    sname = lambda ys: [states[i] for i in ys]
    def rows_for(P, own, inp, others):
        """terms of one node: (coef, params, state indices, uses_input)"""
        use = list(P); rng.shuffle(use)
        rows = [[] for _ in own]; seen = set()
        for i, p in enumerate(use):
            r = rng.randrange(len(own))
            t = (coef(), [p], rng.choice([[], [own[0]], [rng.choice(own)] * 2]), bool(inp) and rng.random() < 0.35)
            key = (r, p, tuple(t[2]), t[3])
            if key not in seen: seen.add(key); rows[r].append(t)
        if inp: rows[0].append((coef(), [], [], True))
        for r, o in enumerate(own): rows[r].append((-1, [], [o], False))
        return rows
    rows_a = rows_for(PA, [0], "q" if back else None, None)
    rows_b = rows_for(PB, [1, 2] if two else [1], "u", None)
    text = lambda lhs, rows, inp: (lhs + " =" + "".join(term_str(c, ps + ([inp] if ui else []) + sname(ys)) for c, ps, ys, ui in rows)).replace("= + ", "= ").replace("=  - ", "= -")
    fl = lambda s_: repr(float(Fr(s_)))
    def variables(ps, special):
        items = [(p, pv[p]) for p in ps]
        for nm_, spec in special:
            items.insert(rng.randrange(len(items) + 1), (nm_, spec))
        return [[k, v] for k, v in items]
    node_a = dict(name="A", equations=[text("x'", rows_a[0], "q")],
                  variables=variables(PA, [("x", f"output({fl(sv['x'])})")] + ([("q", "input(0.0)")] if back else [])))
    node_b = dict(name="B", equations=[text("z'", rows_b[0], "u")] + ([text("v'", rows_b[1], "u")] if two else []),
                  variables=variables(PB, [("z", f"output({fl(sv['z'])})"), ("u", "input(0.0)")] + ([("v", f"variable({fl(sv['v'])})")] if two else [])))
    edges = [["A/op_A/x", "B/op_B/u", wv[w_b]]] + ([["B/op_B/z", "A/op_A/q", wv[w_a]]] if back else [])
    flat = lambda rows, w_, src: [[[c, ps + ([w_] if ui else []), sorted(ys + ([src] if ui else []))] for c, ps, ys, ui in row] for row in rows]
    eqs = flat(rows_a, w_a, 1) + flat(rows_b, w_b, 0)
    decl = ([w_a] if back else []) + [k for k, _ in node_a["variables"]] + [w_b] + [k for k, _ in node_b["variables"]]
    pv.update(wv)
    scen = rng.choice([None, None, ["eq"], ["ivp", "lc"]])
    return dict(id=str(cid), net=dict(nodes=[node_a, node_b], edges=edges), decl=decl, states=[[s_, sv[s_]] for s_ in states],
                params=[[k, pv[k]] for k in decl if k in pv], eqs=eqs, scenarios=scen, scen_as_str=False,
                overrides=({"NMX": 77} if rng.random() < 0.3 else {}), compile=compile_,
                y_test=[str(Fr(rng.choice([-5, -3, 3, 5, 7]), 16)) for _ in states], par_test=[str(Fr(k + 3, 8)) for k in range(NPARX)])

def used_params(case):
    """parameters in order of first use (with repetitions), as a guess of the equation-walk order"""
    return [p for terms in case["eqs"] for _, ps, _ in terms for p in ps]

def dfdp_entries(case):
    names = [p for p, _ in case["params"]]
    out = []
    for r, terms in enumerate(case["eqs"]):
        ps = {p for _, q, _ in terms for p in q}
        out += [(r, p) for p in names if p in ps]
    return out

def nontrivial(case):
    names = [p for p, _ in case["params"]]
    first = []
    for p in used_params(case):
        if p not in first:
            first.append(p)
    return len(first) >= 10 or first != [p for p in names if p in first]

# ---------------------------------------------------------------------------------------------- model side
HEADER = """From Coq Require Import List ZArith QArith Qcanon Bool String.
From PV Require Import PyLib Auto Corr.
IMPL_IMPORT
Import ListNotations.
Open Scope Z_scope.
Definition finalize (m : model) (e : emission) : emission :=
  {| e_sig := e_sig e; e_call := e_call e; e_stpnt := e_stpnt e; e_stpnt_y := e_stpnt_y e; e_parnames := e_parnames e;
     e_unames := e_unames e; e_dfdp := e_dfdp e; e_bvp := e_bvp e; e_ndim := fst (consts_of m e); e_npar := snd (consts_of m e) |}.
Definition array_of (n : nat) (l : list (Z * Qc)) : list Qc :=
  map (fun i => fold_right (fun kv acc => if Z.eqb (fst kv) (Z.of_nat i) then snd kv else acc) 0%Qc l) (seq 1 n).
Record obs := { o_files : list emission; o_stp : option (list Qc * list Qc); o_vf : option (list Qc * list Qc * list (list term) * list Qc) }.
Definition case := (list string * model * obs)%type.
Definition qs_eqb := list_eqb qeqb.
Definition ok_with (em : list string -> model -> emission) (stp : emission -> list (Z * Qc) * list (Z * Qc))
                   (vf : list string -> model -> list Qc -> list Qc -> list (list term) -> list Qc) (c : case) : bool :=
  let '(vars, m, o) := c in
  let e := em vars m in
  forallb (emission_eqb (finalize m e)) (o_files o) &&
  match o_stp o with None => true | Some (par, y) =>
    qs_eqb (array_of (List.length par) (fst (stp e))) par && qs_eqb (array_of (List.length y) (snd (stp e))) y end &&
  match o_vf o with None => true | Some (par, y, eqs, dy) => qs_eqb (vf vars m par y eqs) dy end.
IMPL_OK
Definition okS := ok_with spec_emit spec_stpnt (fun vars m => spec_vf (spec_params vars (m_args m) (m_ret m)) (spec_all vars m)).
Definition guard_wf (c : case) := let '(vars, m, o) := c in wf vars m.
Definition guard_f32 (c : case) := let '(vars, m, o) := c in all_values_f32_exact m.
"""

IMPL_ON = ("From PV Require Import AutoImpl.", "Definition okI := ok_with (fun _ m => emit m) compiled_stpnt (fun _ m => exported_vf (emit m)).")
# when the E2 translation failed closed (or Auto/AutoImpl no longer compile) there is no Impl to evaluate: Spec only
IMPL_OFF = ("", "Definition okI (c : case) := true.")
def fixed_stpnt():
    """the model switch Auto.fixed_stpnt (or C18_FIXED_STPNT=1 to try the repaired code before the switch is flipped)"""
    m = re.search(r"Definition fixed_stpnt : bool := (true|false)\.", open(os.path.join(COQ, "theories", "Auto.v")).read())
    return (m is not None and m.group(1) == "true") or os.environ.get("C18_FIXED_STPNT") == "1"

def header(ctx):
    off = ctx.proof and set(ctx.proof["failed"]) & set(IMPL_FILES)
    a, b = IMPL_OFF if off else IMPL_ON
    h = HEADER.replace("IMPL_IMPORT", a).replace("IMPL_OK", b)
    if fixed_stpnt():          # repaired code: STPNT values are exact for every value, the guard is dropped
        h = h.replace("ok_with (fun _ m => emit m) compiled_stpnt", "ok_with (fun _ m => emit m) spec_stpnt")
        h = h.replace("let '(vars, m, o) := c in all_values_f32_exact m.", "true.")
    return h

def cpair(a, b): return f"({a}, {b})"
def emission_term(o, f):
    zqs = lambda l: clist([f"({cz(k)}, {cq(v)}, {cstr(n)})" for k, v, n in l])
    zs = lambda l: clist([f"({cz(k)}, {cstr(n)})" for k, n in l])
    return ("{| e_sig := %s; e_call := %s; e_stpnt := %s; e_stpnt_y := %s; e_parnames := %s; e_unames := %s; e_dfdp := %s; e_bvp := %s; "
            "e_ndim := %s; e_npar := %s |}" % (clist([cstr(s) for s in o["sig"]]), clist([cz(k) for k in o["call"]]), zqs(o["stpnt"]),
                                               zqs(o["stpnt_y"]), zs(f["parnames"]), zs(f["unames"]),
                                               clist([cpair(cz(r), cz(c)) for r, c in o["dfdp"]]), clist([cz(k) for k in o.get("bvp", [])]), cz(f["NDIM"]), cz(f["NPAR"])))

def coq_case(case, o):
    vars_ = clist([cstr(v) for v in case["decl"]])
    over = [(k, v) for k, v in case["overrides"].items() if k in ("NDIM", "NPAR")]
    m = ("{| m_events := %s; m_args := %s; m_ret := %s; m_states := %s; m_val := %s; m_dfdp := %s; m_over := %s; m_bvp := %s |}" % (
        clist([cstr(v) for v in case["decl"] + ["t", "y"]]), clist([cstr(v) for v in ["dy"] + used_params(case)]), cstr("dy"),
        clist([cstr(s) for s, _ in case["states"]]), clist([cpair(cstr(k), cq(Fr(float(Fr(v))))) for k, v in case["states"] + case["params"]]),
        clist([cpair(cnat(r), cstr(p)) for r, p in dfdp_entries(case)]), clist([cpair(cstr(k), cz(v)) for k, v in over]),
        clist([cstr(p) for p in (case.get("bvp") or {}).get("tokens", [])])))
    qs = lambda l: clist([cq(v) for v in l])
    stp = vf = "None"
    if "stpnt_run" in o:
        stp = f"(Some ({qs(o['stpnt_run']['par'])}, {qs(o['stpnt_run']['y'])}))"
        eqs = clist([clist([f"({cq(c)}, {clist([cstr(p) for p in ps])}, {clist([cnat(i) for i in ys])})" for c, ps, ys in terms]) for terms in case["eqs"]])
        vf = f"(Some ({qs(case['par_test'])}, {qs(case['y_test'])}, {eqs}, {qs(o['func_run']['dy'])}))"
    files = clist([emission_term(o, f) for _, f in sorted(o["files"].items())])
    return f"({vars_}, {m}, {{| o_files := {files}; o_stp := {stp}; o_vf := {vf} |}})"

def harness_side(case, o):
    """never raises: an exception while digesting the real code's output means the output left the model's domain (e.g. two
    parameters in one slot) and is a complaint about this case"""
    try:
        return harness_side_(case, o)
    except Exception as e:
        return [f"output of the real code cannot be digested ({type(e).__name__}: {e})"]

def harness_side_(case, o):
    """facts that are not part of the Coq record: returns a list of complaints (each one is a disagreement with the property)"""
    bad = []
    if o["call_head"] != ["args(14)", "y", "dy"]: bad.append(f"call head {o['call_head']}")
    if o["stpnt_lines"] != len(o["stpnt"]) + len(o["stpnt_y"]): bad.append("unparsed STPNT line")
    want = sorted(case["scenarios"] or ["ivp"])
    if sorted(o["files"]) != want: bad.append(f"constants files {sorted(o['files'])} instead of {want}")
    for s, f in o["files"].items():
        for k, v in case["overrides"].items():
            if f["over"].get(k) != v: bad.append(f"override {k}={v} not written to c.{s}")
    if "func_run" in o:
        y = [Fr(v) for v in case["y_test"]]; par = [Fr(v) for v in case["par_test"]]
        slot = {n: k for k, n in next(iter(o["files"].values()))["parnames"]}
        if len(set(slot.values())) < len(o["stpnt"]) or set(slot) != {n for _, _, n in o["stpnt"]}:
            bad.append(f"parnames does not give every parameter of STPNT its own slot: {sorted(slot.items(), key=lambda kv: kv[1])}")
            slot = {n: k for k, _, n in o["stpnt"]}
        def dterm(t, wrt_p=None, wrt_y=None):
            c, ps, ys = t
            fac = [par[slot[p] - 1] for p in ps] + [y[i] for i in ys]; keys = [("p", p) for p in ps] + [("y", i) for i in ys]
            tot = Fr(0)
            for j, kx in enumerate(keys):
                if kx == (("p", wrt_p) if wrt_p is not None else ("y", wrt_y)):
                    pr = Fr(c)
                    for jj, fv in enumerate(fac):
                        if jj != j: pr *= fv
                    tot += pr
            return tot
        nd = len(y)
        for r, terms in enumerate(case["eqs"]):
            for c in range(nd):
                if Fr(o["func_run"]["dfdu"][r][c]) != sum(dterm(t, wrt_y=c) for t in terms): bad.append(f"dfdu({r + 1},{c + 1}) value")
            exp = [Fr(0)] * NPARX
            for p in slot:
                exp[slot[p] - 1] = sum((dterm(t, wrt_p=p) for t in terms if p in t[1]), Fr(0))
            if [Fr(v) for v in o["func_run"]["dfdp"][r]] != exp: bad.append(f"dfdp row {r + 1} values")
        d = o.get("default_run")
        if d is None:
            return bad
        if d["state_order"] != [s for s, _ in case["states"]]: bad.append(f"state order of the default backend {d['state_order']}")
        if d["dy"] != d["dy_auto_at_stpnt"]: bad.append("exported vector field at STPNT parameters differs from the default backend's")
    return bad

def model_compare(ctx, cases, outs, tag):
    """returns (bad_vs_Impl, bad_vs_Spec, wf_false, f32_false) index lists"""
    res = [[], [], [], []]
    shard = 40
    terms_all, idx_ok = [], []
    for i, (c, o) in enumerate(zip(cases, outs)):
        try:
            terms_all.append(coq_case(c, o)); idx_ok.append(i)
        except Exception:            # output that cannot even be written as a term: disagrees with Impl and Spec
            res[0].append(i); res[1].append(i)
    for s in range(0, len(terms_all), shard):
        terms = terms_all[s:s + shard]
        body = ("Definition cases : list case := " + clist(terms) + ".\n"
                "Eval vm_compute in (mismatches okI cases).\nEval vm_compute in (mismatches okS cases).\n"
                "Eval vm_compute in (mismatches guard_wf cases).\nEval vm_compute in (mismatches guard_f32 cases).\n")
        ls = parse_nat_lists(coq_eval(ctx, f"c18_{tag}_{s}", header(ctx), body))
        assert len(ls) == 4, ls
        for k in range(4):
            res[k] += [idx_ok[s + i] for i in ls[k]]
    return [sorted(r) for r in res]

def diagnostic(ctx, case):
    r = run_impl(ctx, "c18", "impl", [case], nworkers=1, per_case_timeout=180)[0]
    d = dict(implementation_output=r, equations=eq_strings(case))
    if not isinstance(r, dict) or "err" in r:
        return d
    try:
        body = (f"Definition c : case := {coq_case(case, r)}.\nDefinition e := let '(vars, m, o) := c in finalize m (spec_emit vars m).\n"
                "Eval vm_compute in (e_sig e, e_call e, e_parnames e, e_dfdp e, e_ndim e, e_npar e).\n"
                "Eval vm_compute in (map (fun t => (fst (fst t), this (snd (fst t)), snd t)) (e_stpnt e)).\n")
        d["specified_emission"] = coq_eval(ctx, "c18_show", header(ctx), body)[:5000]
        d["harness_side"] = harness_side(case, r)
    except Exception as e:
        d["specified_emission"] = f"(model evaluation failed: {e})"
    return d

def fails(ctx, case, tag):
    r = run_impl(ctx, "c18", "impl", [case], nworkers=1, per_case_timeout=180)[0]
    if not isinstance(r, dict) or "err" in r:
        return True
    _, badS, _, _ = model_compare(ctx, [case], [r], tag)
    return bool(badS) or bool(harness_side(case, r))

def shrink(ctx, case):
    """drop scenarios/overrides, then parameters from the end of the declaration (keeps the count that matters as small as possible)"""
    best, budget = case, 14
    def attempt(c):
        nonlocal best, budget
        if budget > 0:
            budget -= 1
            if fails(ctx, c, f"s{budget}"):
                best = c
                return True
        return False
    attempt(dict(best, scenarios=None, overrides={}, scen_as_str=False))
    if best.get("ops") or best.get("net") or best.get("bvp"):
        return best
    def truncated(c, k):
        drop = {p for p, _ in c["params"][k:]}
        return dict(c, params=c["params"][:k], decl=[d for d in c["decl"] if d not in drop],
                    eqs=[[t for t in terms if not (drop & set(t[1]))] for terms in c["eqs"]])
    hint = getattr(ctx, "c18_hint", None)          # smallest parameter count at which the slot function leaves the closed form
    if hint is not None and hint < len(best["params"]):
        attempt(truncated(best, hint))
    while budget > 0 and best["params"]:
        if not attempt(truncated(best, len(best["params"]) - 1)):
            break
    return best

# ---------------------------------------------------------------------------------------------- E2 validation streams
HEADER_E2 = """From Coq Require Import List ZArith Bool String.
From PV Require Import PyLib Auto Corr.
E2_IMPORT
E2_IMPREL
E2_IMPIDX
E2_IMPSOL
Definition prod_eq_dec {A B} (da : forall x y : A, {x = y} + {x <> y}) (db : forall x y : B, {x = y} + {x <> y}) : forall x y : A * B, {x = y} + {x <> y}.
Proof. decide equality. Defined.
Import ListNotations.
Open Scope Z_scope.
Definition zl_eqb (a b : list Z) := if list_eq_dec Z.eq_dec a b then true else false.
Definition sl_eqb (a b : list string) := if list_eq_dec string_dec a b then true else false.
E2_GEN
Definition ok_closed (c : nat * (Z * Z) * list Z) := let '(n, r, out) := c in zl_eqb (slots n) out.
E2_LAB
E2_LB2
E2_REPL
E2_RELB
E2_IDXB
E2_SOLB
"""

E2_GEN = ("From PVG Require Import Gen_auto_param_indices.",
          "Definition ok_gen (c : nat * (Z * Z) * list Z) := let '(n, r, out) := c in zl_eqb (auto_param_indices (seq 0 n) r) out.")
E2_LAB2 = ("From PVG Require Import Gen_get_unique_label.",
           "Fixpoint requests2 (tab : dict) (ls : list string) : option (list string * dict) :=\n  match ls with [] => Some ([], tab) | l :: ls' =>\n"
           "  match get_unique_label l tab with None => None | Some (r, t1) =>\n  match requests2 t1 ls' with None => None | Some (rs, t2) => Some (r :: rs, t2) end end end.\n"
           "Definition ok_lab2 (c : dict * list string * list string * list string) := let '(tab, req, out, keys) := c in\n"
           "  match requests2 tab req with Some (rs, tab') => sl_eqb rs out && sl_eqb (py_keys tab') keys | None => false end.")
E2_REP = ("From PVG Require Import Gen_replace.",
          "Definition ok_rep (c : string * string * string * bool * bool * string) := let '(e, t, r, rh, lh, o) := c in\n"
          "  match Gen_replace.replace e t r rh lh with Some x => String.eqb x o | None => false end.")
E2_REL = ("From PVG Require Import Gen_relabel_var.",
          "Definition ok_rel (c : string * sdict * string) := let '(v, m, o) := c in\n"
          "  match relabel_var v m with Some x => String.eqb x o | None => false end.")
E2_IDX = ("From PVG Require Import Gen_get_indexed_var_str.",
          "Definition ok_idx (c : string * list Z * Z * bool * string * option string * list (string * list Z)) := let '(v, ix, n, rd, s, o, rec) := c in\n"
          "  match get_indexed_var_str [] v ix n rd s, o with\n  | Some (x, r), Some y => String.eqb x y && (if list_eq_dec (prod_eq_dec string_dec (list_eq_dec Z.eq_dec)) r rec then true else false)\n"
          "  | None, None => true | _, _ => false end.")
E2_SOL = ("From PVG Require Import Gen_validate_solver Gen_solve_dispatch.",
          "Definition ok_sol (c : string * bool * bool * option string) := let '(s, dde, valid, called) := c in\n"
          "  Bool.eqb (match validate_solver s with Some _ => true | None => false end) valid &&\n"
          "  match solve_dispatch s dde, called with Some x, Some y => String.eqb x y | None, None => true | _, _ => false end.")
E2_LAB = ("From PVG Require Import Gen_generate_unique_label.\nFrom PV Require Import LabelGen.",
          "Definition ok_lab (c : dict * list string * list string * list string) := let '(tab, req, out, keys) := c in\n"
          "  match requests tab req with Some (rs, tab') => sl_eqb rs out && sl_eqb (py_keys tab') keys | None => false end.")

def header_e2(ctx):
    ok, failed, log = build_coq(["LabelGen", "Gen_get_unique_label", "Gen_replace", "Gen_relabel_var", "Gen_get_indexed_var_str", "Gen_solve_dispatch"])   # LabelGen.v = Gen_generate_unique_label + the request state machine
    lab2 = not any(f.endswith("Gen_get_unique_label.v") for f in failed)
    repl = not any(f.endswith("Gen_replace.v") for f in failed)
    rel = not any(f.endswith("Gen_relabel_var.v") for f in failed)
    ixd = not any(f.endswith("Gen_get_indexed_var_str.v") for f in failed)
    sol = not any(f.endswith(("Gen_solve_dispatch.v", "Gen_validate_solver.v")) for f in failed)
    lab = not [f for f in failed if not f.endswith(("Gen_get_unique_label.v", "Gen_replace.v", "Gen_relabel_var.v", "Gen_get_indexed_var_str.v", "Gen_solve_dispatch.v", "Gen_validate_solver.v"))]
    if not (lab and lab2 and repl and rel):
        ctx.note(f"E2: label generators not available for validation (failed: {[os.path.basename(f) for f in failed]})")
    gen = not (ctx.proof and set(ctx.proof["failed"]) & {"Gen_auto_param_indices", "PyLib", "Auto"})
    h = HEADER_E2.replace("E2_IMPORT", (E2_GEN[0] if gen else "") + "\n" + (E2_LAB[0] if lab else "") + "\n" + (E2_LAB2[0] if lab2 else "") + "\n" + (E2_REP[0] if repl else ""))
    h = h.replace("E2_IMPIDX", E2_IDX[0] if ixd else "").replace("E2_IDXB", E2_IDX[1] if ixd else
                  "Definition ok_idx (c : string * list Z * Z * bool * string * option string * list (string * list Z)) := true.")
    h = h.replace("E2_IMPSOL", E2_SOL[0] if sol else "").replace("E2_SOLB", E2_SOL[1] if sol else "Definition ok_sol (c : string * bool * bool * option string) := true.")
    h = h.replace("E2_IMPREL", E2_REL[0] if rel else "").replace("E2_RELB", E2_REL[1] if rel else "Definition ok_rel (c : string * sdict * string) := true.")
    h = h.replace("E2_REPL", E2_REP[1] if repl else "Definition ok_rep (c : string * string * string * bool * bool * string) := true.")
    h = h.replace("E2_LB2", E2_LAB2[1] if lab2 else "Definition ok_lab2 (c : dict * list string * list string * list string) := true.")
    h = h.replace("E2_GEN", E2_GEN[1] if gen else "Definition ok_gen (c : nat * (Z * Z) * list Z) := true.")
    return h.replace("E2_LAB", E2_LAB[1] if lab else "Definition ok_lab (c : dict * list string * list string * list string) := true.")

def slots_facts(out):
    return dict(duplicates=sorted({v for v in out if out.count(v) > 1}), in_reserved_10_14=[v for v in out if 10 <= v <= 14],
                not_increasing=[i for i in range(1, len(out)) if out[i] <= out[i - 1]])

def check_slots_case(ctx, case):
    """one call of the real _auto_param_indices with `n` parameters vs the closed form, decided inside Coq; returns (differs, output)"""
    o = run_impl(ctx, "c18", "impl_slots", [case], nworkers=1)[0]
    if "err" in o:
        return True, o
    body = (f"Eval vm_compute in (mismatches (fun c : nat * list Z => if list_eq_dec Z.eq_dec (slots (fst c)) (snd c) then true else false) "
            f"[({cnat(case['n'])}, {clist([cz(v) for v in o['out']])})]).\n")
    ls = parse_nat_lists(coq_eval(ctx, "c18_slots1", "From Coq Require Import List ZArith.\nFrom PV Require Import Auto Corr.\nImport ListNotations.", body))
    return bool(ls[0]), o

def e2_streams(ctx):
    """returns (cases, results, bad_translator, bad_closed_form): bad_translator = the regenerated Gallina function disagrees
    with the Python function it was generated from; bad_closed_form = the Python slot function leaves the closed form"""
    rng = ctx.rng
    cases = [dict(kind="slots", n=n, blocked=None) for n in list(range(0, 41)) + [60, 100]]
    cases += [dict(kind="slots", n=rng.randint(0, 40), blocked=sorted([rng.randint(1, 20), rng.randint(1, 30)])) for _ in range(25)]
    stems = ["x", "r", "x_v1", "x_v2", "t", "r_v1_v1", "in"]
    for _ in range(40):
        tab = {}
        for s in rng.sample(stems + ["x_v3", "r_v2"], rng.randint(0, 4)):
            if s != "t": tab[s] = rng.randint(0, 3)
        cases.append(dict(kind=rng.choice(["labels", "labels", "labels2"]), table=[[k, v] for k, v in tab.items()],
                          requests=[rng.choice(stems) for _ in range(rng.randint(1, 9))]))
    for _ in range(60):      # parser.replace vs Gen_replace (term non-empty: the empty term does not terminate on either side)
        cases.append(dict(kind="replace", eq="".join(rng.choice("rx=+ (1_") for _ in range(rng.randint(0, 12))),
                          term="".join(rng.choice("rx1") for _ in range(rng.randint(1, 2))), rep=rng.choice(["X", "yy", "", "r"]),
                          rhs=rng.random() < 0.3, lhs=rng.random() < 0.2))
    for _ in range(40):      # CircuitTemplate._relabel_var vs Gen_relabel_var
        comps = [rng.choice(["a", "b", "op", "n1", "v", ""]) for _ in range(rng.randint(1, 5))]
        keys = {"/".join(comps[:k]) for k in range(len(comps) + 1) if rng.random() < 0.35} | ({"zz/q"} if rng.random() < 0.3 else set())
        cases.append(dict(kind="relabel", var="/".join(comps), map=[[k, rng.choice(["X", "all/n", "g/h/i"])] for k in sorted(keys)]))
    for _ in range(60):      # _get_indexed_var_str (list branch) vs Gen_get_indexed_var_str: identity lists, permutations with fixed end points, ...
        n = rng.randint(0, 14)
        kind = rng.random()
        idx = list(range(n))
        if kind < 0.35 and n > 3:
            i, j = rng.sample(range(1, n - 1), 2) if n > 3 else (0, 0); idx[i], idx[j] = idx[j], idx[i]      # end points stay
        elif kind < 0.5: rng.shuffle(idx)
        elif kind < 0.6: idx = idx[:-1]
        elif kind < 0.7: idx = [rng.randrange(max(n, 1)) for _ in range(n)]
        cases.append(dict(kind="indexed", var=rng.choice(["r", "x_v1"]), idx=idx, n=rng.choice([n, n, n, n + 1, len(idx)]), reduce=rng.random() < 0.5,
                          idx_str=rng.choice(["", "", "source_idx"])))
    names = ["euler", "heun", "scipy", "diffrax", "Euler", "SCIPY", "heun ", " euler", "scipy_dde", "", "eulerx", "rk4", "Heun", "julia_ode", "scipy\t"]
    for i in range(200):      # BaseBackend._validate_solver / _solve vs Gen_validate_solver / Gen_solve_dispatch
        sname = names[i % len(names)] if i < 60 else "".join(rng.choice("eulrhnscipyEH_ ") for _ in range(rng.randint(0, 6)))
        cases.append(dict(kind="solver", s=sname.replace("\t", " "), dde=rng.random() < 0.4))
    outs = run_impl(ctx, "c18", "impl_slots", cases, nworkers=1)
    sl = [(c, o) for c, o in zip(cases, outs) if c["kind"] == "slots" and "err" not in o]
    lb = [(c, o) for c, o in zip(cases, outs) if c["kind"] == "labels" and "err" not in o]
    t1 = clist([f"({cnat(c['n'])}, ({cz(o['rng'][0])}, {cz(o['rng'][1])}), {clist([cz(v) for v in o['out']])})" for c, o in sl])
    dflt = [i for i, (c, o) in enumerate(sl) if c["blocked"] is None]
    t2 = clist([f"({clist([cpair(cstr(k), cz(v)) for k, v in c['table']])}, {clist([cstr(s) for s in c['requests']])}, "
                f"{clist([cstr(s) for s in o['out']])}, {clist([cstr(k) for k, _ in o['table']])})" for c, o in lb])
    l2 = [(c, o) for c, o in zip(cases, outs) if c["kind"] == "labels2" and "err" not in o]
    labterm = lambda pairs: clist([f"({clist([cpair(cstr(k), cz(v)) for k, v in c['table']])}, {clist([cstr(s) for s in c['requests']])}, "
                                   f"{clist([cstr(s) for s in o['out']])}, {clist([cstr(k) for k, _ in o['table']])})" for c, o in pairs])
    rp = [(c, o) for c, o in zip(cases, outs) if c["kind"] == "replace" and "err" not in o]
    b_ = lambda x: "true" if x else "false"
    t3 = clist([f"({cstr(c['eq'])}, {cstr(c['term'])}, {cstr(c['rep'])}, {b_(c['rhs'])}, {b_(c['lhs'])}, {cstr(o['out'])})" for c, o in rp])
    rl = [(c, o) for c, o in zip(cases, outs) if c["kind"] == "relabel" and "err" not in o]
    t4 = clist([f"({cstr(c['var'])}, {clist([cpair(cstr(k), cstr(v)) for k, v in c['map']])}, {cstr(o['out'])})" for c, o in rl])
    ix = [(c, o) for c, o in zip(cases, outs) if c["kind"] == "indexed" and "err" not in o]
    t5 = clist([f"({cstr(c['var'])}, {clist([cz(i) for i in c['idx']])}, {cz(c['n'])}, {'true' if c['reduce'] else 'false'}, {cstr(c['idx_str'])}, "
                f"{copt(o['out'], cstr)}, {clist([cpair(cstr(k), clist([cz(i) for i in v])) for k, v in o['rec']])})" for c, o in ix])
    so_ = [(c, o) for c, o in zip(cases, outs) if c["kind"] == "solver" and "err" not in o]
    t6 = clist([f"({cstr(c['s'])}, {'true' if c['dde'] else 'false'}, {'true' if o['valid'] else 'false'}, {copt(o['called'], cstr)})" for c, o in so_])
    T = "list (dict * list string * list string * list string)"
    body = (f"Definition s := {t1}.\nDefinition l : {T} := {t2}.\nDefinition l2 : {T} := {labterm(l2)}.\nEval vm_compute in (mismatches ok_gen s).\n"
            "Eval vm_compute in (mismatches ok_closed s).\nEval vm_compute in (mismatches ok_lab l).\nEval vm_compute in (mismatches ok_lab2 l2).\n"
            f"Definition r3 : list (string * string * string * bool * bool * string) := {t3}.\nEval vm_compute in (mismatches ok_rep r3).\n"
            f"Definition r4 : list (string * sdict * string) := {t4}.\nEval vm_compute in (mismatches ok_rel r4).\n"
            f"Definition r5 : list (string * list Z * Z * bool * string * option string * list (string * list Z)) := {t5}.\nEval vm_compute in (mismatches ok_idx r5).\n"
            f"Definition r6 : list (string * bool * bool * option string) := {t6}.\nEval vm_compute in (mismatches ok_sol r6).\n")
    ls = parse_nat_lists(coq_eval(ctx, "c18_e2", header_e2(ctx), body))
    assert len(ls) == 8, ls
    crashed = [c for c, o in zip(cases, outs) if "err" in o]
    bad_tr = [sl[i][0] for i in ls[0]] + [lb[i][0] for i in ls[2]] + [l2[i][0] for i in ls[3]] + [rp[i][0] for i in ls[4]] + [rl[i][0] for i in ls[5]] + [ix[i][0] for i in ls[6]] + [so_[i][0] for i in ls[7]] + crashed
    bad_cf = [(sl[i][0], sl[i][1]) for i in ls[1] if i in dflt]
    dup = [c for c, o in lb if len([r for r in o["out"] if r != "t"]) != len({r for r in o["out"] if r != "t"})]
    return cases, bad_tr, bad_cf, dup

# ---------------------------------------------------------------------------------------------- check
def check(ctx):
    pr = proof_gate(ctx, NEEDS)
    problem = proof_problem(pr)
    thorough = ctx.tier != "quick"
    n_plain, n_comp = (1200, 200) if thorough else (80, 6)
    scale = float(os.environ.get("C18_SCALE", "1"))          # for trying out the thorough tier on a loaded machine
    n_plain, n_comp = max(1, int(n_plain * scale)), max(1, int(n_comp * scale))
    if problem and not thorough:
        n_plain *= 4
    if ctx.replay:
        rp = json.load(open(ctx.replay))
        cases = [rp["case"]] if "case" in rp else []
        if cases and cases[0].get("kind") == "slots":          # replay of a closed-form counterexample: one call of _auto_param_indices
            differs, o = check_slots_case(ctx, cases[0])
            ctx.note(f"replay: _auto_param_indices with {cases[0]['n']} parameters returns {o.get('out', o)}; leaves the closed form: {differs}")
            if differs:
                violation(ctx, write_replay(ctx, "counterexample", dict(case=cases[0], implementation_output=o, what=rp.get("what"))))
            return
    else:
        cases = load_corpus("C18")
        k = len(cases)
        cases += [gen_case(ctx.rng, k + i, n=n, compile_=thorough) for i, n in enumerate(range(0, 26))]     # every count 0..25 once
        k = len(cases)
        cases += [gen_case(ctx.rng, k + i, compile_=thorough and i < n_comp) for i in range(n_plain)]
        k = len(cases)                                           # nodes of three operators with an algebraic-only operator in the middle
        n_chain, n_chain_comp = (max(1, int(300 * scale)), max(1, int(40 * scale))) if thorough else (24, 2)
        cases += [gen_chain(ctx.rng, k + i, compile_=i < n_chain_comp, big=i % 4 == 3) for i in range(n_chain)]
        k = len(cases)      # STPNT literal contract: values of all magnitudes with full mantissas; the literal must denote the same binary64
        n_wide, n_wide_comp = (max(1, int(150 * scale)), max(1, int(15 * scale))) if thorough else (10, 1)
        cases += [gen_case(ctx.rng, k + i, n=ctx.rng.choice([2, 3, 5, 8, 11]), compile_=i < n_wide_comp, wide=True) for i in range(n_wide)]
        k = len(cases)                                           # boundary / integral constraints with constraint-only parameters
        n_bvp, n_bvp_comp = (max(1, int(200 * scale)), max(1, int(20 * scale))) if thorough else (14, 1)
        cases += [gen_bvp(ctx.rng, k + i, compile_=i < n_bvp_comp) for i in range(n_bvp)]
        k = len(cases)                                           # two nodes with edges: the edge weights are parameters
        n_net, n_net_comp = (max(1, int(250 * scale)), max(1, int(30 * scale))) if thorough else (16, 2)
        cases += [gen_net(ctx.rng, k + i, compile_=i < n_net_comp, big=i % 4 == 3) for i in range(n_net)]
        k = len(cases)
        if not thorough:
            cases += [gen_case(ctx.rng, k + i, n=n, compile_=True) for i, n in enumerate([3, 9, 10, 12, 17, 25][:n_comp])]
            k = len(cases)                                       # values that are not binary32 numbers (regression stream for D65)
            cases += [gen_case(ctx.rng, k, n=4, compile_=True, inexact=True)]
        else:
            cases += [gen_case(ctx.rng, k + i, compile_=True, inexact=True) for i in range(6)]            # values that are not binary32 numbers (was the guard-violating stream before D65)
    e2_cases, bad_tr, bad_cf, dup = ([], [], [], []) if ctx.replay else e2_streams(ctx)
    if not ctx.replay:      # loud refusals: unknown scenario, DSL and raw Fortran residuals given together
        base = gen_case(ctx.rng, "rej", n=3)
        rej = [dict(base, id=f"rej{i}", kwargs=kw) for i, kw in enumerate([
            dict(auto_constants=("ivp", "nosuchscenario")),
            dict(boundary_conditions=["u0_x - u1_x"], bcnd_fortran="fb(1) = u0(1) - u1(1)", nbc=1),
            dict(integral_constraints=["u_x"], icnd_fortran="fi(1) = u(1)", nint=1)])]
        for c, o in zip(rej, run_impl(ctx, "c18", "impl_reject", rej, nworkers=1, per_case_timeout=120)):
            if not (o.get("rejected") and o.get("type") == "ValueError"):
                violation(ctx, write_replay(ctx, "counterexample", dict(what="a request that the auto export must refuse with ValueError was not refused",
                                                                         request=c["kwargs"], implementation_output=o)))
        ctx.note(f"rejections: {len(rej)} malformed auto requests refused with ValueError")
        # models that use pi (support stream, relative tolerance 1e-12; a single-precision PI is off by 3e-8)
        pis = [dict(id=str(i), equations=[f"x' = a*x - pi*x*{c} + b*pi", "z' = x - pi*z"],
                    variables=[["x", "output(0.5)"], ["a", rng_a], ["z", "variable(0.25)"], ["b", "3/8"]])
               for i, (c, rng_a) in enumerate([(2, "5/8"), (3, 2), (1, "-7/8")][:3 if thorough else 1])]
        for c, o in zip(pis, run_impl(ctx, "c18", "impl_pi", pis, nworkers=1, per_case_timeout=180)):
            bad = "err" in o or any(abs(a - b) > 1e-12 * max(1.0, abs(b)) for a, b in zip(o["dy"], o["ref"]))
            if bad:
                violation(ctx, write_replay(ctx, "counterexample", dict(what="exported vector field of a model that uses pi differs from the default backend's "
                                                                            "by more than 1e-12 (relative) at the STPNT point", model=c, implementation_output=o)))
        ctx.note(f"pi: {len(pis)} compiled models that use pi agree with the default backend to 1e-12")
    if bad_cf:   # the slot function itself left the closed form: the smallest parameter count is the replay, and the hint for shrinking models
        c, o = min(bad_cf, key=lambda co: co[0]["n"])
        ctx.c18_hint = c["n"]
        violation(ctx, write_replay(ctx, "counterexample", dict(
            case=c, implementation_output=o, facts=slots_facts(o["out"]), smallest_failing_parameter_count=c["n"],
            what="FortranBackend._auto_param_indices leaves the closed form slot(i) = i+1 (i<9) | i+6 (strictly increasing, distinct, outside 10..14) "
                 f"for {c['n']} parameters; all smaller counts agree")))
    outs = run_impl(ctx, "c18", "impl", cases, per_case_timeout=180)
    crashed = [i for i, r in enumerate(outs) if "err" in r]
    good = [i for i in range(len(cases)) if i not in crashed]
    badI, badS, wf_false, f32_false = model_compare(ctx, [cases[i] for i in good], [outs[i] for i in good], "main")
    badI = [good[i] for i in badI]; badS = [good[i] for i in badS]
    assert not wf_false, f"generator produced cases outside wf: {wf_false[:5]}"
    side = {i: harness_side(cases[i], outs[i]) for i in good}
    side_bad = [i for i in good if side[i]]
    guard_viol = {good[i]: [FINDING_GUARD] for i in f32_false if cases[good[i]]["compile"]}
    # a guard-violating case may only fail in the way the finding describes: everything except the compiled STPNT values agrees
    for i in list(guard_viol):
        light = dict(outs[i]); light.pop("stpnt_run", None)
        _, bs, _, _ = model_compare(ctx, [cases[i]], [light], f"gv{i}")
        if bs or [s for s in side[i] if "STPNT parameters" not in s]:
            guard_viol.pop(i)
    ctx.note(f"E1: {len(cases)} models ({sum(1 for c in cases if c['compile'])} compiled through f2py), parameter counts "
             f"{min(len(c['params']) for c in cases) if cases else 0}..{max(len(c['params']) for c in cases) if cases else 0}; "
             f"impl-vs-Impl mismatches {len(badI)}, impl-vs-Spec mismatches {len(badS)}, harness-side complaints {len(side_bad)}, "
             f"crashed {len(crashed)}; E2 validation: {len(e2_cases)} calls, translator disagreements {len(bad_tr)}, "
             f"closed-form disagreements {len(bad_cf)}, duplicate labels {len(dup)}")
    bad_spec = sorted(set(badS) | set(side_bad))
    conclude(ctx, cases=cases, impl_out=outs, bad_spec=bad_spec, bad_impl=sorted(set(badI) | (set(side_bad) - set(guard_viol))), crashed=crashed,
             problem=problem, guard_viol=guard_viol, spec_name="Auto.spec_emit (one slot per parameter in declaration order, used by every view)",
             impl_name="Auto.emit", shrink=lambda c: shrink(ctx, c), show=lambda c: diagnostic(ctx, c),
             witness_check=lambda f: fails(ctx, dict(json.load(open(os.path.join(VERIF, f["witness"]))), id="w"), "wit"))
    if bad_tr and not ctx.violations:
        violation(ctx, write_replay(ctx, "correspondence", dict(broken="E2: a regenerated Gallina function disagrees with the Python function it was generated from "
                                                                        "(translator harness/py2v.py)", inputs=bad_tr[:3])), no_input=True)
    if dup:   # label distinctness belongs to C01/C05 (LabelGenEquiv.unique_labels_distinct); reported here as a note only
        ctx.note(f"unique-label generator handed out a label twice on {len(dup)} request lists, e.g. {dup[0]} (C01/C05: LabelGenEquiv)")
    nt = {canon({k: v for k, v in c.items() if k != "id"}) for c in cases if nontrivial(c)}
    hist = dict(parameter_counts=sorted({len(c["params"]) for c in cases}), crossing_reserved_range=sum(1 for c in cases if len(set(used_params(c))) >= 10),
                compiled=sum(1 for c in cases if c["compile"]), with_unused_parameters=sum(1 for c in cases if len(set(used_params(c))) < len(c["params"])),
                scenario_sets=sorted({str(c["scenarios"]) for c in cases}), with_overrides=sum(1 for c in cases if c["overrides"]),
                guard_violating=len(f32_false), e2_validation_calls=len(e2_cases), three_operator_nodes=sum(1 for c in cases if c.get("ops")),
                two_node_circuits=sum(1 for c in cases if c.get("net")), wide_values=sum(1 for c in cases if c.get("wide")), with_bvp_constraints=sum(1 for c in cases if c.get("bvp")))
    write_evidence(ctx, evaluations=len(cases) + len(e2_cases), distinct_nontrivial=len(nt),
                   rule="scalar models with 0-25 parameters (dyadic values, polynomial right-hand sides): (a) one operator, 1-3 state variables, random declaration "
                        "order (state variables interleaved), shuffled order of first use, unused parameters; (b) nodes of three operators src -> alg -> dyn where alg is "
                        "ALGEBRAIC ONLY and uses its >= 2 parameters in an order different from their declaration (declaration order of the model = operators in node "
                        "order, variables in declaration order within each); (c) circuits of two nodes with weighted edges A->B (and B->A): the edge weights are parameters "
                        "(declaration order = per node in circuit order: weight of its incoming edge, then its operator's variables); (d) one-operator models with "
                        "boundary_conditions= / integral_constraints= whose par_<name> tokens name a parameter that is unused in the equations and declared before a "
                        "vector-field parameter (it gets the slot behind the vector-field parameters); (e) parameter and initial values over 1e-30..1e30 with full 53-bit mantissas, "
                        "short decimals of small magnitude, values near the smallest normal number and denormals, both signs: the STPNT literal must denote exactly "
                        "the model's binary64 (parsed back and compared as exact rationals inside Coq; compiled stpnt output compared bit-exactly); scenario selections and constant overrides; "
                        "non-trivial = at least 10 parameters are used (slots cross the reserved range) or the order of first use differs from the "
                        "declaration order; distinct = distinct canonical JSON",
                   samples=[dict(equations=eq_strings(c), decl=c["decl"], scenarios=c["scenarios"], overrides=c["overrides"]) for c in cases[1:3]],
                   extra=dict(input_distribution=hist, impl_vs_model_mismatches=len(badI), impl_vs_spec_mismatches=len(bad_spec)),
                   trusted_base=["parser of the generated .f90 / c.* text in harness/c18.py (continuation lines joined; every STPNT line must parse)",
                                 "harness/py2v.py (E2 translator): trusted for completeness of detection; validated on every run against the Python functions",
                                 "gfortran + f2py for the compiled observations; float64 arithmetic is exact on the generated dyadic data"],
                   assumptions=["Auto.wf: declared variables are registered first and are distinct; every argument of the vector field is declared",
                                "compiled STPNT values: exact only for values representable in binary32 (guard all_values_f32_exact; finding C18-stpnt-single-precision)",
                                "declaration order of a node = its operators in node order, each operator's variables in declaration order (Spec input `vars`)",
                                "vector-field equality is tied by execution (E1) for polynomial right-hand sides; sympy/gfortran are not modelled"])
